#!/usr/bin/env python3
"""store_seeds.py <round> <outdir> — keep a round of confirmed seeded changes as /verif/seeded/<Cxx>-r<round>-<k>/.

<outdir>/<Cxx>-<k>/ holds what a sub-agent delivered (patch.diff, demo.py, notes.md, meta.json) plus what this side added:
confirmed.json (tools/verify_seed.py), static_first.json (tools/eval_seeds.py --dir, run BEFORE any strengthening) and static.json
(the same, run after).  Only seeds whose confirmation is ok are stored."""
import json, pathlib, shutil, subprocess, sys
HERE = pathlib.Path(__file__).resolve().parent.parent
rnd, out = sys.argv[1], pathlib.Path(sys.argv[2])
head = subprocess.run("git -C /repo rev-parse --short HEAD", shell=True, capture_output=True, text=True).stdout.strip()
vhead = subprocess.run(f"git -C {HERE} rev-parse --short HEAD", shell=True, capture_output=True, text=True).stdout.strip()
first_commit = sys.argv[3] if len(sys.argv) > 3 else "?"
n = 0
for d in sorted(out.iterdir()):
    if not (d / "patch.diff").exists():
        continue
    conf = json.loads((d / "confirmed.json").read_text()) if (d / "confirmed.json").exists() else {}
    if not conf.get("ok"):
        print("skipped (not confirmed):", d.name)
        continue
    pid, k = d.name.split("-")
    sid = f"{pid}-r{rnd}-{k}"
    tgt = HERE / "seeded" / sid
    tgt.mkdir(parents=True, exist_ok=True)
    for f in ("patch.diff", "demo.py", "notes.md"):
        if (d / f).exists():
            shutil.copy(d / f, tgt / f)
    am = json.loads((d / "meta.json").read_text()) if (d / "meta.json").exists() else {}
    first = json.loads((d / "static_first.json").read_text()) if (d / "static_first.json").exists() else {}
    now = json.loads((d / "static.json").read_text()) if (d / "static.json").exists() else {}
    files = [l[6:].strip() for l in (d / "patch.diff").read_text().splitlines() if l.startswith("+++ b/")]
    meta = {
        "id": sid, "property": pid, "round": int(rnd),
        "kind": "independent seeded defect (sub-agent given only the property text and its own scratch worktree)",
        "files": files,
        "needs_to_manifest": am.get("needs", ""),
        "origin": "fresh sub-agent given only the property text and its own scratch worktree of /repo (nothing from /verif)",
        "agent_meta": am,
        "base_commit": head,
        "confirmed": {
            "demo_exit_clean": conf.get("demo_exit_clean"), "demo_exit_with_change": conf.get("demo_exit_patched"),
            "demo_last_line_with_change": conf.get("demo_last_line_patched"),
            "suite_with_change": conf.get("suite"), "suite_passed": conf.get("suite_passed"),
            "suite_failed_other_than_the_2_always_failing": (conf.get("suite_failed") or 0) - 2,
            "how": "tools/verify_seed.py in a scratch worktree: demo.py on the clean tree (exit 0 expected) and with the change (non-zero expected); full suite with the change",
        },
        "static_check_first_contact": {"exit": first.get("exit"), "first_report": first.get("first_report", ""),
                                       "other_checks_with_exit_1": first.get("others_exit_1", []),
                                       "note": f"own property's check as committed at {first_commit} (before this round's strengthening)"},
        "static_check": {"exit": now.get("exit"), "first_report": now.get("first_report", ""),
                         "other_checks_with_exit_1": now.get("others_exit_1", []), "at": vhead},
        "replay": f"git -C /repo apply /verif/seeded/{sid}/patch.diff && (cd /verif && python3-vt -m sa.check {pid} --no-write); git -C /repo checkout -- .",
    }
    (tgt / "meta.json").write_text(json.dumps(meta, indent=1))
    n += 1
print(f"stored {n} seeds of round {rnd}")
