"""C04 — BMS reading places every object at the time its measure position and tempo imply (DESIGN §5 C04)."""
from __future__ import annotations

import ast
import json
import pathlib
from typing import Dict, List, Optional, Tuple

from ..model import AnalysisError, NotLiteral, walk_no_nested, params_of
from .. import report as R
from ..report import RuleSpec
from .. import codec as C
from .. import sym
from ..flow import Flow, SeqV, ExprV, TupV, show, ctor_kwargs
from .common import fn_loc, unparse, local_defs, strip_calls, ordered_stmts, call_name, comp_of_append_loop
from . import timing_common as T

BMSMAP = "reamber.bms.BMSMap.BMSMap"
CHANNEL = "reamber.bms.BMSChannel.BMSChannel"
LAYOUTS = ["BMS", "BME", "PMS", "PMS_BME", "PMS_5B"]
ROLES = {"TIME_SIG", "BPM_CHANGE", "EXBPM_CHANGE"}
TABLES = pathlib.Path(__file__).resolve().parent.parent / "tables"


# --------------------------------------------------------------------------- R1
def _calls(e, *names):
    return e is not None and any(isinstance(x, ast.Call) and (
        (isinstance(x.func, ast.Attribute) and x.func.attr in names) or (isinstance(x.func, ast.Name) and x.func.id in names)) for x in ast.walk(e))


def _sub_const(e, key):
    return any(isinstance(x, ast.Subscript) and isinstance(x.slice, ast.Constant) and x.slice.value == key for x in ast.walk(e)) if e is not None else False


def _appended_ctor(node, nm, ctor):
    """`nm[...].append(<ctor>(...))` occurs in the function"""
    for x in ast.walk(node):
        if isinstance(x, ast.Call) and isinstance(x.func, ast.Attribute) and x.func.attr == "append" and isinstance(x.func.value, ast.Subscript) and \
                isinstance(x.func.value.value, ast.Name) and x.func.value.value.id == nm and x.args and isinstance(x.args[0], ast.Call) and \
                isinstance(x.args[0].func, ast.Name) and x.args[0].func.id == ctor:
            return True
    return False


def _enum_target(st, nm, pos, over):
    return isinstance(st, ast.For) and isinstance(st.iter, ast.Call) and isinstance(st.iter.func, ast.Name) and st.iter.func.id == "enumerate" and \
        st.iter.args and unparse(st.iter.args[0]) == over and isinstance(st.target, ast.Tuple) and len(st.target.elts) == 2 and \
        isinstance(st.target.elts[pos], ast.Name) and st.target.elts[pos].id == nm


# roles of the locals of BMSMap._read_notes (sa/normal.py: with_roles): the rules below name them by role
BMS_READ_ROLES = (
    ("Hit", lambda n, v, st: isinstance(v, ast.Call) and call_name(v) == "namedtuple" and v.args and C.const_str(v.args[0]) == "Hit"),
    ("Hold", lambda n, v, st: isinstance(v, ast.Call) and call_name(v) == "namedtuple" and v.args and C.const_str(v.args[0]) == "Hold"),
    ("hits", lambda n, v, st, node: isinstance(v, ast.ListComp) and _appended_ctor(node, n, "Hit")),
    ("holds", lambda n, v, st, node: isinstance(v, ast.ListComp) and _appended_ctor(node, n, "Hold")),
    ("measure", lambda n, v, st: isinstance(v, ast.Call) and call_name(v) == "int" and _sub_const(v, "measure")),
    ("channel", lambda n, v, st: isinstance(v, ast.Subscript) and _sub_const(v, "channel")),
    ("sequence", lambda n, v, st: isinstance(v, ast.Subscript) and _sub_const(v, "sequence")),
    ("pairs", lambda n, v, st: isinstance(v, ast.ListComp) and "sequence[" in unparse(v.elt) and _calls(v.generators[0].iter, "range")),
    ("division", lambda n, v, st: isinstance(v, ast.BinOp) and isinstance(v.op, ast.FloorDiv) and unparse(v.left) == "len(sequence)"),
    ("i", lambda n, v, st: _enum_target(st, n, 0, "pairs")),
    ("pair", lambda n, v, st: _enum_target(st, n, 1, "pairs")),
    ("metronome", lambda n, v, st: v is not None and "DEFAULT_METRONOME" in unparse(v) and (_calls(v, "get") or _calls(v, "float"))),
    ("beat", lambda n, v, st: isinstance(v, ast.BinOp) and _calls(v, "Fraction") and "division" in unparse(v)),
    ("column", lambda n, v, st: isinstance(v, ast.Call) and call_name(v) == "int" and "[channel]" in unparse(v)),
    ("tm", lambda n, v, st: isinstance(v, ast.Call) and call_name(v) == "from_bpm_changes_snap"),
    ("bcs_s", lambda n, v, st: isinstance(v, ast.List) and len(v.elts) == 1 and isinstance(v.elts[0], ast.Call) and call_name(v.elts[0]) == "BpmChangeSnap"),
)


def _read_notes_fn(ctx):
    from ..normal import with_roles
    return with_roles(ctx.M.nfn(f"{BMSMAP}._read_notes"), BMS_READ_ROLES)



def layout_entries(ctx, name: str) -> Tuple[List[Tuple[object, object, int]], ast.AST]:
    """Raw (key, value, line) entries of a layout literal with ** expansions, duplicates kept."""
    M = ctx.M
    cn = M.class_const_node(CHANNEL, name)
    if cn is None:
        raise AnalysisError(f"BMSChannel.{name} not found")
    owner, node = cn
    mod = M.classes[owner].mod

    def expand(n, depth=0) -> List[Tuple[object, object, int]]:
        if depth > 5:
            raise AnalysisError("layout expansion too deep")
        if isinstance(n, ast.Name):
            c2 = M.class_const_node(owner, n.id)
            if c2 is None:
                raise AnalysisError(f"BMSChannel.{n.id} not found")
            return expand(c2[1], depth + 1)
        if not isinstance(n, ast.Dict):
            raise AnalysisError(f"BMSChannel.{name}: not a dict literal")
        out = []
        for k, v in zip(n.keys, n.values):
            if k is None:
                out.extend(expand(v, depth + 1))
            else:
                try:
                    out.append((M.lit(mod, k, owner), M.lit(mod, v, owner), k.lineno))
                except NotLiteral as e:
                    raise AnalysisError(f"BMSChannel.{name}: entry not literal ({e})")
        return out
    return expand(node), node


def rule_r1(ctx) -> List[R.Inst]:
    M = ctx.M
    rid = "C04.R1"
    file = M.mods[M.cls(CHANNEL).mod].rel
    frozen = json.loads((TABLES / "bms_channels.json").read_text())
    insts = []
    for name in LAYOUTS:
        ents, node = layout_entries(ctx, name)
        line = node.lineno
        key = f"layout:{name}"
        probs = []
        keys = [k for k, _, _ in ents]
        dup = sorted({repr(k) for k in keys if keys.count(k) > 1})
        if dup:
            probs.append(f"channel(s) {', '.join(dup)} appear twice (the later entry silently replaces the earlier one)")
        for k, v, _ in ents:
            if not (isinstance(k, bytes) and len(k) == 2 and k.isascii()):
                probs.append(f"channel key {k!r} is not two ASCII bytes (the reader slices two bytes)")
        lanes = [(k, v) for k, v, _ in ents if isinstance(v, int) and not isinstance(v, bool)]
        roles = {v: k for k, v, _ in ents if isinstance(v, str)}
        cols = sorted(v for _, v in lanes)
        if cols != list(range(len(cols))):
            seen = set()
            twice = sorted({c for c in cols if c in seen or seen.add(c)})
            if twice:
                probs.append(f"columns {twice} are assigned to two channels: the writer's inverse map keeps only one")
            else:
                probs.append(f"columns are not 0..{len(cols) - 1}: {cols}")
        if not ROLES <= set(roles):
            probs.append(f"role entries missing: {sorted(ROLES - set(roles))}")
        want = frozen["roles"]
        for r, ch in sorted(roles.items()):
            if r in want and ch != want[r].encode():
                probs.append(f"role {r} is on channel {ch!r}; the format defines {want[r]!r}")
        fl = {k.encode(): v for k, v in frozen["layouts"][name].items()}
        got = dict(lanes)
        if not dup and got != fl:
            diff = sorted(k.decode() for k in set(got) | set(fl) if got.get(k) != fl.get(k))
            probs.append(f"lane->column differs from the shipped/format layout on channel(s) {diff}")
        if probs:
            insts.append(R.viol(rid, key, file, line, "; ".join(probs), construct=f"{name}: " + "; ".join(probs)))
        else:
            insts.append(R.ok(rid, key, file, line, idiom=f"{len(lanes)} lanes -> columns 0..{len(lanes) - 1}, injective; "
                                                          f"3 roles on 02/03/08; equals the format table"))
    return insts


# --------------------------------------------------------------------------- R2
def inverted_maps(fn_node) -> Dict[str, str]:
    """local name -> parameter it inverts ({v: k for k, v in P.items()})."""
    out = {}
    for n in walk_no_nested(fn_node):
        if isinstance(n, ast.Assign) and isinstance(n.targets[0], ast.Name) and isinstance(n.value, ast.DictComp):
            dc = n.value
            g = dc.generators[0]
            if len(dc.generators) == 1 and isinstance(g.target, ast.Tuple) and len(g.target.elts) == 2 and \
                    isinstance(g.iter, ast.Call) and isinstance(g.iter.func, ast.Attribute) and g.iter.func.attr == "items":
                k, v = g.target.elts
                if isinstance(dc.key, ast.Name) and isinstance(dc.value, ast.Name) and isinstance(k, ast.Name) and \
                        isinstance(v, ast.Name) and dc.key.id == v.id and dc.value.id == k.id and not g.ifs:
                    out[n.targets[0].id] = unparse(g.iter.func.value)
    return out


def rule_r2(ctx) -> List[R.Inst]:
    M = ctx.M
    rid = "C04.R2"
    ents, _ = layout_entries(ctx, "_HEADER")
    roles = {v for _, v, _ in ents if isinstance(v, str)}
    insts = []
    for meth in ("_read_notes", "_write_notes"):
        fn = M.fn(f"{BMSMAP}.{meth}")
        file = M.mods[fn.mod].rel
        inv = inverted_maps(fn.node)
        cfg_params = {p for p in params_of(fn.node) if "config" in p}
        if not any(v in cfg_params for v in inv.values()):
            insts.append(R.undec(rid, f"{meth}:inverse-map", file, fn.node.lineno,
                                 "no inversion {v: k for k, v in <layout>.items()} of the layout parameter found"))
            continue
        for n in walk_no_nested(fn.node):
            if isinstance(n, ast.Subscript) and isinstance(n.value, ast.Name) and n.value.id in inv and \
                    inv[n.value.id] in cfg_params:
                s = C.const_str(n.slice)
                if s is None:
                    continue
                key = f"{meth}:{s}@{sum(1 for i in insts if i.key.startswith(f'{meth}:{s}@'))}"
                if s in roles:
                    insts.append(R.ok(rid, key, file, n.lineno, idiom=f"role name '{s}' is a value of _HEADER"))
                else:
                    insts.append(R.viol(rid, key, file, n.lineno,
                                        f"role name '{s}' is not a value of BMSChannel._HEADER ({sorted(roles)}): KeyError for "
                                        f"every layout", construct=unparse(n)))
    return insts


# --------------------------------------------------------------------------- R3
def _main_loop(fn) -> ast.For:
    data = [p for p in params_of(fn.node) if p not in ("self", "config")]
    loops = [s for s in fn.node.body if isinstance(s, ast.For)]
    # the loop over the data lines: the one whose iterable mentions the data parameter; else the largest (a short loop that only
    # pre-fills a buffer is not it)
    over = [s for s in loops if any(isinstance(x, ast.Name) and x.id in data for x in ast.walk(s.iter))]
    if over:
        return over[0]
    if loops:
        return max(loops, key=lambda s: sum(1 for _ in ast.walk(s)))
    raise AnalysisError("_read_notes: per-line loop not found")


def _role_of(e: ast.AST, inv: Dict[str, str]) -> Optional[str]:
    if isinstance(e, ast.Subscript) and isinstance(e.value, ast.Name) and e.value.id in inv:
        return C.const_str(e.slice)
    return None


def _alternatives(e: ast.AST, inv) -> List[Tuple[Optional[str], bool, ast.AST]]:
    """[(role tested, polarity, expr)] for `a if channel == rev[ROLE] else b`."""
    if isinstance(e, ast.IfExp) and isinstance(e.test, ast.Compare) and len(e.test.ops) == 1 and \
            isinstance(e.test.ops[0], (ast.Eq, ast.NotEq)):
        role = _role_of(e.test.comparators[0], inv) or _role_of(e.test.left, inv)
        pos = isinstance(e.test.ops[0], ast.Eq)
        return [(role, pos, e.body), (role, not pos, e.orelse)]
    return [(None, True, e)]


class _TStore:
    def __init__(self, key, stmt):
        self.key, self.stmt, self.lineno = key, stmt, stmt.lineno


def _table_stores(fn_node, table):
    """Stores into ``self.<table>`` of the header reader, as (key expression, statement):
    ``self.T[K] = V``; ``self.T.update((K, V) for ..)`` / ``update({K: V for ..})`` / ``update([(K, V) for ..])``.
    Second result: writes to the table in another form (re-binding, setdefault, update of something else)."""
    st, other = [], []
    for n in walk_no_nested(fn_node):
        if isinstance(n, ast.Assign) and isinstance(n.targets[0], ast.Subscript) and C.self_attr(n.targets[0].value) == table:
            st.append(_TStore(n.targets[0].slice, n))
        elif isinstance(n, (ast.Assign, ast.AugAssign, ast.AnnAssign)) and any(
                C.self_attr(t) == table for t in (n.targets if isinstance(n, ast.Assign) else [n.target])):
            other.append(n)
        elif isinstance(n, ast.Expr) and isinstance(n.value, ast.Call) and isinstance(n.value.func, ast.Attribute) and \
                C.self_attr(n.value.func.value) == table:
            c = n.value
            if c.func.attr == "update" and len(c.args) == 1 and not c.keywords:
                a = c.args[0]
                if isinstance(a, ast.DictComp):
                    st.append(_TStore(a.key, n)); continue
                if isinstance(a, (ast.GeneratorExp, ast.ListComp)) and isinstance(a.elt, ast.Tuple) and len(a.elt.elts) == 2:
                    st.append(_TStore(a.elt.elts[0], n)); continue
            if c.func.attr in ("update", "setdefault", "__setitem__"):
                other.append(n)
    return st, other


def rule_r3(ctx) -> List[R.Inst]:
    M = ctx.M
    rid = "C04.R3"
    fn = _read_notes_fn(ctx)
    hdr = M.fn(f"{BMSMAP}._read_file_header")
    file = M.mods[fn.mod].rel
    inv = inverted_maps(fn.node)
    loop = _main_loop(fn)
    insts = []
    # ---- (a) tempo values
    bcs_calls = [n for n in ast.walk(loop) if isinstance(n, ast.Call) and call_name(n) == "BpmChangeSnap"]
    if len(bcs_calls) != 1:
        insts.append(R.undec(rid, "tempo-value", file, loop.lineno, f"{len(bcs_calls)} BpmChangeSnap constructions in the loop"))
    else:
        kw = {k.arg: k.value for k in bcs_calls[0].keywords}
        val = kw.get("bpm", bcs_calls[0].args[0] if bcs_calls[0].args else None)
        if isinstance(val, ast.Name):
            ds = local_defs(loop, val.id)
            val = ds[0] if len(ds) == 1 else None
        alts = _alternatives(val, inv) if val is not None else []
        by_role = {}
        for role, pos, ex in alts:
            if role in ("BPM_CHANGE", "EXBPM_CHANGE"):
                r = role if pos else ("EXBPM_CHANGE" if role == "BPM_CHANGE" else "BPM_CHANGE")
                by_role[r] = ex
        if set(by_role) != {"BPM_CHANGE", "EXBPM_CHANGE"}:
            insts.append(R.undec(rid, "tempo-value", file, bcs_calls[0].lineno,
                                 "tempo value is not a two-way choice on the tempo channel role"))
        else:
            e = by_role["BPM_CHANGE"]
            good = isinstance(e, ast.Call) and call_name(e) == "int" and len(e.args) == 2 and \
                isinstance(e.args[1], ast.Constant) and e.args[1].value == 16
            if good:
                insts.append(R.ok(rid, "tempo:channel-03", file, e.lineno, idiom="int(pair, 16): two hex digits"))
            elif isinstance(e, ast.Call) and call_name(e) in ("int", "float"):
                insts.append(R.viol(rid, "tempo:channel-03", file, e.lineno,
                                    "channel 03 carries the tempo as two hexadecimal digits; it is decoded differently here",
                                    construct=unparse(e)))
            else:
                insts.append(R.undec(rid, "tempo:channel-03", file, e.lineno, "decoder of channel 03 not recognised"))
            e = strip_calls(by_role["EXBPM_CHANGE"])
            if isinstance(e, ast.Subscript) and C.self_attr(e.value) == "exbpms" and isinstance(e.slice, ast.Name):
                insts.append(R.ok(rid, "tempo:channel-08", file, e.lineno, idiom="lookup of the object id in the #BPMxx table"))
            elif isinstance(e, ast.Call) and call_name(e) == "int":
                insts.append(R.viol(rid, "tempo:channel-08", file, e.lineno,
                                    "channel 08 carries an id into the #BPMxx header table, not a number", construct=unparse(e)))
            else:
                insts.append(R.viol(rid, "tempo:channel-08", file, getattr(e, "lineno", loop.lineno),
                                    "channel 08 objects must be looked up in the table filled from #BPMxx (self.exbpms[id])",
                                    construct=unparse(e)))
    # ---- (b) #BPMxx and #WAVxx tables in the header reader
    file_h = M.mods[hdr.mod].rel
    for table, prefix, key in (("exbpms", b"BPM", "table:#BPMxx"), ("samples", b"WAV", "table:#WAVxx")):
        st, other = _table_stores(hdr.node, table)
        if len(st) != 1 and other:
            insts.append(R.undec(rid, key, file_h, other[0].lineno,
                                 f"self.{table} is written in a form that is not followed here: '{unparse(other[0])[:80]}'"))
            continue
        if len(st) != 1:
            insts.append(R.viol(rid, key, file_h, hdr.node.lineno,
                                f"the header reader no longer fills self.{table}: ids on channel "
                                f"{'08' if table == 'exbpms' else '1x/2x'} resolve to nothing",
                                construct=f"{len(st)} stores into self.{table}"))
            continue
        sl = st[0].key
        st = [st[0].stmt]
        sl_txt = unparse(sl)
        outer_folds = []
        while isinstance(sl, ast.Call) and isinstance(sl.func, ast.Attribute) and not sl.args and sl.func.attr in (
                "upper", "lower", "casefold", "swapcase", "title", "capitalize"):
            outer_folds.append(sl.func.attr)               # k[-2:].upper(): the fold applied to the id after it is cut out
            sl = sl.func.value
        # id = last two bytes of the key
        ok_slice = isinstance(sl, ast.Subscript) and isinstance(sl.slice, ast.Slice) and sl.slice.upper is None and (
            (isinstance(sl.slice.lower, ast.Constant) and sl.slice.lower.value == 3) or
            (isinstance(sl.slice.lower, ast.UnaryOp) and isinstance(sl.slice.lower.op, ast.USub) and
             isinstance(sl.slice.lower.operand, ast.Constant) and sl.slice.lower.operand.value == 2))
        # normalisations applied to the stored id must also be applied where objects look it up (they are not: the
        # object pairs of the data lines index the table as they stand)
        base = sl.value if isinstance(sl, ast.Subscript) else None
        folds = list(outer_folds)
        seen = 0
        while base is not None and seen < 5:
            seen += 1
            if isinstance(base, ast.Call) and isinstance(base.func, ast.Attribute) and base.func.attr in (
                    "upper", "lower", "casefold", "swapcase", "title", "capitalize"):
                folds.append(base.func.attr)
                base = base.func.value
            elif isinstance(base, ast.Name):
                ds = local_defs(hdr.node, base.id)
                loopvar = any(isinstance(n, ast.For) and base.id in {x.id for x in ast.walk(n.target) if isinstance(x, ast.Name)}
                              for n in walk_no_nested(hdr.node))
                if loopvar or len(ds) != 1:
                    break
                base = ds[0]
            else:
                break
        lookup_folds = [n.func.attr for n in ast.walk(fn.node) if isinstance(n, ast.Call) and isinstance(n.func, ast.Attribute)
                        and n.func.attr in ("upper", "lower", "casefold") and "pair" in unparse(n.func.value)]
        if ok_slice and folds and not lookup_folds:
            insts.append(R.viol(rid, key, file_h, st[0].lineno,
                                f"ids are stored {'/'.join(folds)}-cased ('{sl_txt}') but objects look the table up with the id as "
                                f"written in the data line: a chart whose ids contain lower-case letters (#WAV0a / object 0a) finds "
                                f"nothing", construct=unparse(st[0])))
        elif ok_slice:
            insts.append(R.ok(rid, key, file_h, st[0].lineno, idiom=f"self.{table}[{sl_txt}] = value (two-character id)"))
        elif isinstance(sl, ast.Subscript) and isinstance(sl.slice, ast.Slice):
            insts.append(R.viol(rid, key, file_h, st[0].lineno,
                                f"the id of a #{prefix.decode()}xx header is its last two characters; the table is keyed by "
                                f"'{sl_txt}'", construct=unparse(st[0])))
        else:
            insts.append(R.undec(rid, key, file_h, st[0].lineno, f"table key '{sl_txt}' not recognised"))
    # ---- (b2) sibling tests: '#BPMxx' and '#WAVxx' keys are recognised with the same case normalisation
    pref = {}
    for n in walk_no_nested(hdr.node):
        if isinstance(n, ast.Call) and call_name(n) == "startswith" and n.args and isinstance(n.args[0], ast.Constant) and \
                n.args[0].value in (b"BPM", b"WAV"):
            recv = n.func.value
            norm = [c.func.attr for c in ast.walk(recv) if isinstance(c, ast.Call) and isinstance(c.func, ast.Attribute) and
                    c.func.attr in ("upper", "lower", "casefold")]
            if isinstance(recv, ast.Name):
                ds = local_defs(hdr.node, recv.id)
                if len(ds) == 1:
                    norm += [c.func.attr for c in ast.walk(ds[0]) if isinstance(c, ast.Call) and isinstance(c.func, ast.Attribute) and
                             c.func.attr in ("upper", "lower", "casefold")]
            pref[n.args[0].value] = (sorted(set(norm)), n)
    if set(pref) == {b"BPM", b"WAV"}:
        if pref[b"BPM"][0] == pref[b"WAV"][0]:
            insts.append(R.ok(rid, "table:prefix-tests", file_h, pref[b"BPM"][1].lineno,
                              idiom=f"both header families matched after {pref[b'BPM'][0] or 'no'} normalisation"))
        else:
            odd = b"WAV" if len(pref[b"WAV"][0]) < len(pref[b"BPM"][0]) else b"BPM"
            insts.append(R.viol(rid, "table:prefix-tests", file_h, pref[odd][1].lineno,
                                f"'#BPMxx' keys are matched after {pref[b'BPM'][0] or 'no'} normalisation but '#WAVxx' keys after "
                                f"{pref[b'WAV'][0] or 'none'}: a file that writes '#{odd.decode().lower()}…' loses those definitions "
                                f"silently (objects then carry no sample / tempo)", construct=unparse(pref[odd][1])))
    else:
        insts.append(R.undec(rid, "table:prefix-tests", file_h, hdr.node.lineno, f"prefix tests found: {sorted(k.decode() for k in pref)}"))
    # ---- (c) lane -> column
    cfg = [p for p in params_of(fn.node) if "config" in p]
    cols = local_defs(loop, "column")
    lane_ok = False
    for c in cols:
        c0 = strip_calls(c)
        if isinstance(c0, ast.Subscript) and isinstance(c0.value, ast.Name) and c0.value.id in cfg and \
                isinstance(c0.slice, ast.Name):
            lane_ok = True
            insts.append(R.ok(rid, "lane->column", file, c.lineno, idiom=f"column = {unparse(c0)} (the layout passed by the caller)"))
    if not lane_ok:
        n = cols[0] if cols else loop
        insts.append((R.viol if cols else R.undec)(rid, "lane->column", file, n.lineno,
                                                   "the column is not looked up in the layout passed by the caller",
                                                   construct=unparse(n) if cols else ""))
    # ---- (d) LN marker: pop/append on the same lane, most recent head
    marker_ifs = [n for n in ast.walk(loop) if isinstance(n, ast.If) and isinstance(n.test, ast.Compare) and
                  any(C.self_attr(x) == "ln_end_channel" for x in [n.test.left] + n.test.comparators)]
    if len(marker_ifs) != 1 or not isinstance(marker_ifs[0].test.ops[0], ast.Eq):
        insts.append(R.undec(rid, "ln-marker", file, loop.lineno, "test 'pair == self.ln_end_channel' not found"))
    else:
        mi = marker_ifs[0]
        pops = [n for st in mi.body for n in ast.walk(st) if isinstance(n, ast.Call) and call_name(n) == "pop"]
        apps = [n for st in mi.body for n in ast.walk(st) if isinstance(n, ast.Call) and call_name(n) == "append"]
        if len(pops) != 1 or len(apps) != 1:
            insts.append(R.undec(rid, "ln-marker", file, mi.lineno, f"{len(pops)} pops / {len(apps)} appends in the marker branch"))
        else:
            pop, app = pops[0], apps[0]
            pr, ar = pop.func.value, app.func.value
            probs = []
            if not (isinstance(pr, ast.Subscript) and isinstance(ar, ast.Subscript)):
                insts.append(R.undec(rid, "ln-marker", file, pop.lineno, "pop/append receivers are not per-lane buffers"))
            else:
                if unparse(pr.slice) != unparse(ar.slice):
                    probs.append(f"head is taken from lane '{unparse(pr.slice)}' but the hold is stored under '{unparse(ar.slice)}'")
                if unparse(pr.value) == unparse(ar.value):
                    probs.append("the hold is appended to the buffer the head was popped from")
                ix = pop.args[0] if pop.args else None
                if ix is not None and not (isinstance(ix, ast.UnaryOp) and isinstance(ix.op, ast.USub) and
                                           isinstance(ix.operand, ast.Constant) and ix.operand.value == 1):
                    probs.append(f"the head must be the most recent object of the lane (pop() / pop(-1)), not pop({unparse(ix)})")
                # head of the hold = the popped object; tail position = the marker's own position
                popped = None
                for st in ast.walk(mi):
                    if isinstance(st, ast.Assign) and st.value is pop and isinstance(st.targets[0], ast.Name):
                        popped = st.targets[0].id
                hold = app.args[0] if app.args else None
                hk = ctor_kwargs(hold) if hold is not None else None
                if not popped or hk is None:
                    insts.append(R.undec(rid, "ln-marker", file, pop.lineno, "hold construction not recognised"))
                else:
                    # the head: the popped object itself, or its position (a record that keeps head / tail positions side by side)
                    head_ok = any((isinstance(v_, ast.Name) and v_.id == popped) or
                                  (isinstance(v_, ast.Attribute) and isinstance(v_.value, ast.Name) and v_.value.id == popped and v_.attr == "snap")
                                  for v_ in hk.values())
                    if not head_ok:
                        probs.append("the hold's head is not the popped object")
                    smp = hk.get("sample", hk.get("#1"))
                    if smp is not None and not (isinstance(smp, ast.Attribute) and isinstance(smp.value, ast.Name) and
                                                smp.value.id == popped and smp.attr == "sample"):
                        probs.append("the hold does not carry the sample of its head object")
                    if probs:
                        insts.append(R.viol(rid, "ln-marker", file, pop.lineno, "; ".join(probs),
                                            construct="; ".join(probs)))
                    else:
                        insts.append(R.ok(rid, "ln-marker", file, pop.lineno,
                                          idiom="marker pops the most recent object of its own lane and stores a hold under that lane"))
        # ---- (e) ordinary object: sample of its id
        hit_apps = [n for st in mi.orelse for n in ast.walk(st) if isinstance(n, ast.Call) and call_name(n) == "append"]
        if len(hit_apps) != 1:
            insts.append(R.undec(rid, "object->hit", file, mi.lineno, "hit append not found in the else-branch of the marker test"))
        else:
            a = hit_apps[0]
            probs = []
            if isinstance(a.func.value, ast.Subscript) and marker_ifs and len(pops) == 1 and \
                    isinstance(pops[0].func.value, ast.Subscript):
                if unparse(a.func.value) != unparse(pops[0].func.value):
                    probs.append(f"objects are stored in '{unparse(a.func.value)}' but heads are popped from "
                                 f"'{unparse(pops[0].func.value)}'")
            hk = ctor_kwargs(a.args[0]) if a.args else None
            smp = (hk or {}).get("sample", (hk or {}).get("#0"))
            if isinstance(smp, ast.Name):
                d = local_defs(loop, smp.id)
                smp = d[0] if len(d) == 1 else smp
            if isinstance(smp, ast.Call) and call_name(smp) == "get" and C.self_attr(smp.func.value) == "samples" and \
                    smp.args and isinstance(smp.args[0], ast.Name) and smp.args[0].id == "pair":
                pass
            elif isinstance(smp, ast.Subscript) and C.self_attr(smp.value) == "samples":
                pass
            else:
                probs.append("the hit does not carry the #WAV sample of its object id (self.samples.get(pair))")
            if probs:
                insts.append(R.viol(rid, "object->hit", file, a.lineno, "; ".join(probs), construct="; ".join(probs)))
            else:
                insts.append(R.ok(rid, "object->hit", file, a.lineno, idiom="hit carries self.samples.get(id), stored under its lane"))
    # ---- skipped objects: only the empty id 00 is skipped
    skips = [n for n in loop.body[-1:] for n in ast.walk(n) if isinstance(n, ast.If) and n.body and
             isinstance(n.body[0], ast.Continue)]
    for sk in [n for n in ast.walk(loop) if isinstance(n, ast.If) and n.body and isinstance(n.body[0], ast.Continue)]:
        lits = [x.value for x in ast.walk(sk.test) if isinstance(x, ast.Constant) and isinstance(x.value, bytes)]
        bad = [l for l in lits if l.strip(b"0")]
        names = {x.id for x in ast.walk(sk.test) if isinstance(x, ast.Name)}
        if bad:
            insts.append(R.viol(rid, "skip-empty", file, sk.lineno,
                                f"objects with id {bad} are skipped; only the empty id 00 means 'no object'",
                                construct=unparse(sk.test)))
        elif lits and names <= {"pair"} and all(isinstance(o, ast.Eq) for c in ast.walk(sk.test) if isinstance(c, ast.Compare)
                                                 for o in c.ops):
            insts.append(R.ok(rid, "skip-empty", file, sk.lineno, idiom="only id 00 is skipped"))
        else:
            insts.append(R.undec(rid, "skip-empty", file, sk.lineno, f"skip condition not recognised: {unparse(sk.test)}"))
    return insts


# --------------------------------------------------------------------------- R4
def header_reader(ctx) -> Dict[bytes, Tuple[str, ast.AST]]:
    """header key -> (field, node) from `self.f = data.get(b"KEY", ...)` / `data.pop(b"KEY")`."""
    M = ctx.M
    hdr = M.fn(f"{BMSMAP}._read_file_header")
    out = {}
    for n in walk_no_nested(hdr.node):
        if isinstance(n, ast.Assign):
            tgt = n.targets[0]
            for c in ast.walk(n.value):
                if isinstance(c, ast.Call) and call_name(c) in ("get", "pop") and isinstance(c.func.value, ast.Name) and \
                        c.func.value.id == "data" and c.args and isinstance(c.args[0], ast.Constant) and \
                        isinstance(c.args[0].value, bytes):
                    f = C.self_attr(tgt)
                    if f is None and isinstance(tgt, ast.Name):
                        # local feeding a field: bpm = BMSBpm(..data.pop(b"BPM")..); self.bpms = self.bpms.append(bpm)
                        for m in walk_no_nested(hdr.node):
                            if isinstance(m, ast.Assign) and C.self_attr(m.targets[0]) and any(
                                    isinstance(x, ast.Name) and x.id == tgt.id for x in ast.walk(m.value)):
                                f = C.self_attr(m.targets[0])
                    if f:
                        out[c.args[0].value] = (f, n)
    return out


def split_line_breaks(fn):
    """a copy of the function in which a bytes literal that begins with line breaks (`b"\\r\\n#BPM"`: the break written in front of a
    line appended to one growing buffer) is the break followed by the line's own text (`b"\\r\\n" + b"#BPM"`)"""
    import copy as _copy
    import dataclasses

    class Sp(ast.NodeTransformer):
        def visit_Constant(self, n):
            if isinstance(n.value, bytes) and n.value[:1] in (b"\r", b"\n") and n.value.lstrip(b"\r\n"):
                rest = n.value.lstrip(b"\r\n")
                br = n.value[:len(n.value) - len(rest)]
                return ast.copy_location(ast.BinOp(left=ast.copy_location(ast.Constant(value=br), n), op=ast.Add(),
                                                   right=ast.copy_location(ast.Constant(value=rest), n)), n)
            return n

    class Re(ast.NodeTransformer):
        """((br + tag) + x) stays left-associated: (br + tag) + x  ->  br + tag + x  as  ((br + tag) + x) already is; but
        (br + tag) nested as the LEFT operand of a chain is what the rules flatten"""
    node = Sp().visit(_copy.deepcopy(fn.node))
    ast.fix_missing_locations(node)
    return dataclasses.replace(fn, node=node)


def header_writer(ctx) -> Dict[bytes, Tuple[set, ast.AST]]:
    """header key -> (self fields read, node) from `b"#KEY " + ...` in _write_file_header."""
    M = ctx.M
    wr = split_line_breaks(M.nfn(f"{BMSMAP}._write_file_header"))      # (private helpers inlined)
    out = {}
    # locals bound once: the fields a header value reads include those its local operands were computed from
    ldefs = {}
    for x in walk_no_nested(wr.node):
        if isinstance(x, ast.Assign) and len(x.targets) == 1 and isinstance(x.targets[0], ast.Name):
            ldefs.setdefault(x.targets[0].id, []).append(x.value)
    for n in walk_no_nested(wr.node):
        if isinstance(n, ast.BinOp) and isinstance(n.op, ast.Add):
            # leftmost operand of the + chain
            l = n
            while isinstance(l, ast.BinOp) and isinstance(l.op, ast.Add):
                l = l.left
            if isinstance(l, ast.Constant) and isinstance(l.value, bytes) and l.value.startswith(b"#") and len(l.value) > 1:
                key = l.value[1:].strip() if l.value.endswith(b" ") or l.value == b"#" else l.value[1:] + b"xx"
                fields = {C.self_attr(x) for x in ast.walk(n) if C.self_attr(x)}
                # (through every definition of a local operand, a few hops: a value chosen by guard clauses has several)
                seen_n, todo = set(), [x.id for x in ast.walk(n) if isinstance(x, ast.Name)]
                for _hop in range(4):
                    nxt = []
                    for nm_ in todo:
                        if nm_ in seen_n:
                            continue
                        seen_n.add(nm_)
                        for d_ in ldefs.get(nm_, []):
                            fields |= {C.self_attr(y) for y in ast.walk(d_) if C.self_attr(y)}
                            nxt += [y.id for y in ast.walk(d_) if isinstance(y, ast.Name)]
                    todo = nxt
                # loop-carried: for e, b in enumerate(self.bpms, 1) / for k, v in self.samples.items()
                names = {x.id for x in ast.walk(n) if isinstance(x, ast.Name)}
                for f in walk_no_nested(wr.node):
                    if isinstance(f, ast.For) and any(x is n for b in f.body for x in ast.walk(b)):
                        tnames = {x.id for x in ast.walk(f.target) if isinstance(x, ast.Name)}
                        if tnames & names:
                            fields |= {C.self_attr(x) for x in ast.walk(f.iter) if C.self_attr(x)}
                if key not in out or len(unparse(n)) > len(unparse(out[key][1])):
                    out[key] = (fields, n)
    return out


def rule_r4(ctx) -> List[R.Inst]:
    M = ctx.M
    rid = "C04.R4"
    hdr = M.fn(f"{BMSMAP}._read_file_header")
    file = M.mods[hdr.mod].rel
    rt = header_reader(ctx)
    wt = header_writer(ctx)
    want = {b"TITLE": "title", b"ARTIST": "artist", b"PLAYLEVEL": "version", b"LNOBJ": "ln_end_channel", b"BPM": "bpms"}
    insts = []
    for k, role in want.items():
        key = f"header:{k.decode()}"
        if k not in rt:
            insts.append(R.viol(rid, key, file, hdr.node.lineno, f"#{k.decode()} is no longer read into a field",
                                construct=f"#{k.decode()} unread"))
            continue
        f, node = rt[k]
        w = wt.get(k)
        if f != role:
            insts.append(R.viol(rid, key, file, node.lineno,
                                f"#{k.decode()} is read into '{f}'; the chart's {role} field is what the rest of the library "
                                f"(writer, converters, metadata()) uses", construct=unparse(node)))
        elif w is None:
            insts.append(R.viol(rid, key, file, node.lineno, f"#{k.decode()} is read but never written",
                                construct=f"#{k.decode()} unwritten"))
        elif f not in w[0]:
            insts.append(R.viol(rid, key, file, w[1].lineno,
                                f"#{k.decode()} is read into '{f}' but written from {sorted(w[0])}", construct=unparse(w[1])[:160]))
        else:
            insts.append(R.ok(rid, key, file, node.lineno, idiom=f"#{k.decode()} <-> self.{f}"))
    # other headers retained: self.misc = the remaining dict, written back as '#' + k + ' ' + v
    misc = [n for n in walk_no_nested(hdr.node) if isinstance(n, ast.Assign) and C.self_attr(n.targets[0]) == "misc"]
    if len(misc) == 1 and isinstance(misc[0].value, ast.Name) and misc[0].value.id == "data":
        insts.append(R.ok(rid, "header:other", file, misc[0].lineno, idiom="self.misc = remaining header dict"))
    else:
        insts.append(R.viol(rid, "header:other", file, hdr.node.lineno,
                            "headers the reader has no field for are not retained in self.misc",
                            construct="; ".join(unparse(m) for m in misc) or "no assignment to self.misc"))
    # the initial tempo is a tempo point at time 0 with the header's value
    bp = rt.get(b"BPM")
    if bp:
        calls = [c for c in ast.walk(bp[1].value) if isinstance(c, ast.Call) and call_name(c) == "BMSBpm"]
        good = False
        if calls:
            kw = ctor_kwargs(calls[0])
            off = kw.get("offset", kw.get("#0"))
            bpm = kw.get("bpm", kw.get("#1"))
            good = isinstance(off, ast.Constant) and off.value == 0 and bpm is not None and any(
                isinstance(x, ast.Constant) and x.value == b"BPM" for x in ast.walk(bpm)) and \
                isinstance(bpm, ast.Call) and call_name(bpm) == "float"
        insts.append(R.ok(rid, "header:BPM-value", file, bp[1].lineno, idiom="BMSBpm(0, bpm=float(#BPM))") if good else
                     R.viol(rid, "header:BPM-value", file, bp[1].lineno,
                            "the initial tempo must be a tempo point at time 0 with the #BPM value as a float",
                            construct=unparse(bp[1])))
    return insts


# --------------------------------------------------------------------------- R5
def rule_r5(ctx) -> List[R.Inst]:
    M = ctx.M
    rid = "C04.R5"
    fn = _read_notes_fn(ctx)
    file = M.mods[fn.mod].rel
    insts = []
    stmts = ordered_stmts(fn.node.body)
    state = {}      # tm var -> ("snap", reseat flag, node) | ("reseated", node)
    seen_sort = None
    bcs_name = None
    for s in stmts:
        if isinstance(s, ast.Expr) and isinstance(s.value, ast.Call) and call_name(s.value) == "sort" and \
                isinstance(s.value.func.value, ast.Name):
            seen_sort = (s.value.func.value.id, s.value)
        if isinstance(s, ast.Assign) and isinstance(s.targets[0], ast.Name) and isinstance(s.value, ast.Call):
            c = s.value
            v = s.targets[0].id
            if call_name(c) == "from_bpm_changes_snap":
                kw = {k.arg: k.value for k in c.keywords}
                rs = kw.get("reseat", c.args[2] if len(c.args) > 2 else None)
                io = kw.get("initial_offset", c.args[0] if c.args else None)
                bc = kw.get("bcs_s", c.args[1] if len(c.args) > 1 else None)
                reseat = True if rs is None else (rs.value if isinstance(rs, ast.Constant) else None)
                state[v] = ("snap", reseat, c)
                key = "timing-map"
                probs = []
                if not (isinstance(io, ast.Constant) and io.value == 0):
                    probs.append(f"BMS time starts at 0 ms; the map starts at {unparse(io) if io is not None else '?'}")
                caller_sorted = isinstance(bc, ast.Name) and seen_sort is not None and seen_sort[0] == bc.id and \
                    T.sort_key_attr(seen_sort[1]) == "snap"
                callee_sorted, why = T.callee_sorts_param(ctx, T.FROM_SNAP, "bcs_s", "snap")
                if not (caller_sorted or callee_sorted):
                    probs.append("the tempo changes are not sorted by position before consecutive changes are integrated "
                                 f"(lines may come in any order): neither here nor in the callee ({why})")
                if probs:
                    insts.append(R.viol(rid, key, file, c.lineno, "; ".join(probs), construct="; ".join(probs)))
                else:
                    insts.append(R.ok(rid, key, file, c.lineno, idiom="from_bpm_changes_snap(0, changes sorted by snap " + ("here" if caller_sorted else "in the callee") + ")"))
            elif call_name(c) == "reseat" and isinstance(c.func.value, ast.Name):
                state[v] = ("reseated", c)
        for c in [n for n in ast.walk(s) if isinstance(n, ast.Call) and call_name(n) == "offsets" and
                  isinstance(n.func, ast.Attribute) and isinstance(n.func.value, ast.Name)] if not isinstance(
                s, (ast.If, ast.For, ast.While, ast.Try, ast.With)) else []:
            v = c.func.value.id
            key = f"note-timing@{sum(1 for i in insts if i.key.startswith('note-timing@'))}"
            st = state.get(v)
            if st is None:
                insts.append(R.undec(rid, key, file, c.lineno, f"'{v}' is not a timing map built here"))
            elif st[0] == "snap" and st[1] is False:
                insts.append(R.ok(rid, key, file, c.lineno, idiom="objects timed by the un-reseated map"))
            else:
                insts.append(R.viol(rid, key, file, c.lineno,
                                    "objects are timed through a reseated timing map: reseating renumbers measures, so the "
                                    "file's measure positions no longer index it", construct=unparse(st[-1])))
        if isinstance(s, ast.Assign) and C.self_attr(s.targets[0]) == "bpms":
            used = [x.value.id for x in ast.walk(s.value) if isinstance(x, ast.Attribute) and x.attr == "bpm_changes_offset"
                    and isinstance(x.value, ast.Name)]
            if len(used) != 1:
                insts.append(R.undec(rid, "tempo-list", file, s.lineno, "source of the tempo list not recognised"))
            else:
                st = state.get(used[0])
                if st and (st[0] == "reseated" or (st[0] == "snap" and st[1] is True)):
                    insts.append(R.ok(rid, "tempo-list", file, s.lineno, idiom="tempo list from the reseated map"))
                else:
                    insts.append(R.viol(rid, "tempo-list", file, s.lineno,
                                        "the tempo list is built from a map whose changes may lie off measure lines (writers and "
                                        "the timing engine require seated tempo points)", construct=unparse(s)[:160]))
    return insts


# --------------------------------------------------------------------------- R6
def rule_r6(ctx) -> List[R.Inst]:
    M = ctx.M
    rid = "C04.R6"
    fn = _read_notes_fn(ctx)
    file = M.mods[fn.mod].rel
    loop = _main_loop(fn)
    has_state = any(isinstance(n, ast.Call) and call_name(n) == "pop" for n in ast.walk(loop))
    if not has_state:
        return [R.ok(rid, "ln-pairing-order", file, loop.lineno, idiom="no order-dependent pairing inside the per-line loop")]
    it = loop.iter
    srt = None
    if isinstance(it, ast.Call) and call_name(it) == "sorted":
        srt = it
    elif isinstance(it, ast.Name):
        for s in fn.node.body:
            if s is loop:
                break
            if isinstance(s, ast.Expr) and isinstance(s.value, ast.Call) and call_name(s.value) == "sort" and \
                    unparse(s.value.func.value) == it.id:
                srt = s.value
            if isinstance(s, ast.Assign) and isinstance(s.targets[0], ast.Name) and s.targets[0].id == it.id and \
                    isinstance(s.value, ast.Call) and call_name(s.value) == "sorted":
                srt = s.value
    # the caller may not re-order the lines by their CONTENT: several lines of one measure and channel are overlays whose file order
    # is the only thing that says which object comes first at equal positions; a sort keyed (also) on the line's data puts a line
    # holding a marker before the line holding its head
    rd = M.fn(f"{BMSMAP}.read")
    extra = []
    for c in ast.walk(rd.node):
        if isinstance(c, ast.Call) and call_name(c) == "_read_notes" and c.args and isinstance(c.args[0], ast.Name):
            nm = c.args[0].id
            for x in ast.walk(rd.node):
                srt_c = None
                if isinstance(x, ast.Call) and call_name(x) == "sort" and isinstance(x.func, ast.Attribute) and unparse(x.func.value) == nm:
                    srt_c = x
                if isinstance(x, ast.Assign) and isinstance(x.targets[0], ast.Name) and x.targets[0].id == nm and isinstance(x.value, ast.Call) and \
                        call_name(x.value) == "sorted":
                    srt_c = x.value
                if srt_c is None:
                    continue
                key = next((k.value for k in srt_c.keywords if k.arg == "key"), None)
                fields = {y.slice.value for y in ast.walk(key) if isinstance(y, ast.Subscript) and isinstance(y.slice, ast.Constant)} | \
                         {y.attr for y in ast.walk(key) if isinstance(y, ast.Attribute)} if key is not None else None
                if fields is not None and fields and fields <= {"measure", "channel"}:
                    continue                                            # a stable sort by position of the line: overlays keep their file order
                if fields and fields - {"measure", "channel"}:
                    extra.append(R.viol(rid, "ln-pairing-order:caller-sort", M.mods[rd.mod].rel, srt_c.lineno,
                                        f"the lines are sorted by {sorted(fields)} before they reach the note reader: lines of one measure and "
                                        f"channel (overlays) are re-ordered by their content, so a line holding an LN marker can come before the "
                                        f"line holding its head — the marker then closes an older object of the lane (a hold of the wrong, even "
                                        f"negative, length)", construct=f"BMSMap.read: lines sorted by {sorted(fields - {'measure', 'channel'})}"))
                else:
                    extra.append(R.undec(rid, "ln-pairing-order:caller-sort", M.mods[rd.mod].rel, srt_c.lineno,
                                         "the lines are re-ordered before they reach the note reader by a key that is not read"))
    if srt is None:
        return extra + [R.viol(rid, "ln-pairing-order", file, loop.lineno,
                       "the LN marker is paired with 'the most recent object of the lane' while iterating the lines in the "
                       "caller's order: a marker line placed before its head line, or two lines of one measure and channel, "
                       "pair the wrong objects (or raise)",
                       construct="per-line loop in the caller's order: pop/append pairing of LN markers")]
    return extra + [R.undec(rid, "ln-pairing-order", file, srt.lineno,
                    "lines are sorted before pairing; whether the key orders objects of one lane by position "
                    "(measure and slot, across several lines of one measure) is not decided")]


# --------------------------------------------------------------------------- R7
def rule_r7(ctx) -> List[R.Inst]:
    """position formula and line slicing"""
    M = ctx.M
    rid = "C04.R7"
    fn = _read_notes_fn(ctx)
    rd = M.fn(f"{BMSMAP}.read")
    file = M.mods[fn.mod].rel
    loop = _main_loop(fn)
    insts = []

    def one(name, scope=loop):
        d = local_defs(scope, name)
        return d[0] if len(d) == 1 else None
    # pairs: 2-byte slices
    pairs = one("pairs")
    if isinstance(pairs, ast.List) and not pairs.elts:
        pairs = comp_of_append_loop(loop, "pairs") or pairs      # (the list filled by a loop of its own)
    ok_pairs = False
    if isinstance(pairs, ast.ListComp) and len(pairs.generators) == 1:
        g = pairs.generators[0]
        e = pairs.elt
        if isinstance(e, ast.Subscript) and isinstance(e.slice, ast.Slice) and isinstance(g.iter, ast.Call) and \
                call_name(g.iter) == "range" and len(g.iter.args) == 3 and isinstance(g.target, ast.Name):
            i = g.target.id
            lo, hi = e.slice.lower, e.slice.upper
            step = g.iter.args[2]
            width = sym.canon(hi) - sym.canon(lo) if lo is not None and hi is not None else None
            if width is not None and isinstance(step, ast.Constant) and width.same(sym.parse(str(step.value))) and \
                    step.value == 2 and isinstance(lo, ast.Name) and lo.id == i and \
                    isinstance(g.iter.args[0], ast.Constant) and g.iter.args[0].value == 0:
                ok_pairs = True
            insts.append(R.ok(rid, "object-width", file, pairs.lineno, idiom="objects are consecutive 2-character slices from 0")
                         if ok_pairs else
                         R.viol(rid, "object-width", file, pairs.lineno,
                                "a BMS line is a sequence of 2-character objects starting at character 0",
                                construct=unparse(pairs)))
    if not insts:
        insts.append(R.undec(rid, "object-width", file, loop.lineno, "construction of the object list not recognised"))
    # beat = i / division * metronome, division = number of objects
    beat = one("beat")
    division = one("division")
    en = [n for n in ast.walk(loop) if isinstance(n, ast.For) and isinstance(n.iter, ast.Call) and
          call_name(n.iter) == "enumerate" and isinstance(n.iter.args[0], ast.Name) and n.iter.args[0].id == "pairs"]
    if beat is None or division is None or len(en) != 1 or not isinstance(en[0].target, ast.Tuple):
        insts.append(R.undec(rid, "slot-position", file, loop.lineno, "beat / division / enumerate(pairs) not found"))
    else:
        ivar = en[0].target.elts[0].id
        if len(en[0].iter.args) > 1 or en[0].iter.keywords:
            insts.append(R.viol(rid, "slot-position", file, en[0].lineno, "object slots are numbered from 0",
                                construct=unparse(en[0].iter)))
        else:
            def leaf(n):
                if isinstance(n, ast.Call) and call_name(n) == "len" and n.args and isinstance(n.args[0], ast.Name):
                    return f"len_{n.args[0].id}"
                return None
            div_ok = sym.canon(division, leaf).same(sym.parse("FloorDiv(1*len_sequence,2)")) or \
                unparse(division) in ("len(sequence) // 2", "len(pairs)")
            f_ok = sym.same_formula(beat, f"{ivar} * metronome / division")
            if div_ok and f_ok:
                insts.append(R.ok(rid, "slot-position", file, beat.lineno,
                                  idiom="beat = slot / number-of-slots * beats-per-measure"))
            elif not f_ok and sym.only_modelled(beat, {ivar, "metronome", "division"}):
                insts.append(R.viol(rid, "slot-position", file, beat.lineno,
                                    "an object in slot i of n sits at i/n of the measure; the formula here is different",
                                    construct=unparse(beat)))
            elif not div_ok and unparse(division).startswith("len("):
                insts.append(R.viol(rid, "slot-position", file, division.lineno,
                                    "the number of slots of a line is the number of 2-character objects",
                                    construct=unparse(division)))
            else:
                insts.append(R.undec(rid, "slot-position", file, beat.lineno, "position formula not recognised"))
    # snaps use (measure, beat)
    snaps = [n for n in ast.walk(loop) if isinstance(n, ast.Call) and call_name(n) == "Snap"]
    bad = [s for s in snaps if not (len(s.args) >= 2 and unparse(s.args[0]) == "measure" and unparse(s.args[1]) == "beat")]
    meas = one("measure")
    m_ok = isinstance(meas, ast.Call) and call_name(meas) == "int" and len(meas.args) == 1 and \
        isinstance(meas.args[0], ast.Subscript) and C.const_str(meas.args[0].slice) == "measure"
    if snaps and not bad and m_ok:
        insts.append(R.ok(rid, "snap-args", file, snaps[0].lineno, idiom=f"{len(snaps)} Snap(measure, beat, ...) with measure = int(line measure)"))
    elif bad:
        insts.append(R.viol(rid, "snap-args", file, bad[0].lineno, "object positions must be (measure of the line, slot position)",
                            construct=unparse(bad[0])))
    else:
        insts.append((R.viol if meas is not None else R.undec)(
            rid, "snap-args", file, getattr(meas, "lineno", loop.lineno),
            "the measure of a line is its three decimal digits", construct=unparse(meas) if meas is not None else ""))
    # line slicing in read(): '#mmmcc:data'
    file_r = M.mods[rd.mod].rel
    sl = {}
    byname = {}
    pairs_ = []
    for n in walk_no_nested(rd.node):
        if isinstance(n, ast.Assign) and len(n.targets) == 1:
            if isinstance(n.targets[0], ast.Tuple) and isinstance(n.value, ast.Tuple) and len(n.targets[0].elts) == len(n.value.elts):
                pairs_ += [(t, v, n) for t, v in zip(n.targets[0].elts, n.value.elts)]      # a, b = x[1:4], x[4:6]
            else:
                pairs_.append((n.targets[0], n.value, n))
    for t_, v_, n in pairs_:
        if isinstance(t_, ast.Name) and isinstance(v_, ast.Subscript) and isinstance(v_.slice, ast.Slice):
            lo, hi = v_.slice.lower, v_.slice.upper
            if isinstance(lo, ast.Constant) and isinstance(hi, ast.Constant):
                byname[t_.id] = (lo.value, hi.value, n)
    # which slice becomes which field of the per-line record: dict(measure=<x>, channel=<y>, ...) — the locals' names do not matter
    from .. import sympaths as SP
    for n in walk_no_nested(rd.node):
        it = SP.dict_items(n) if isinstance(n, (ast.Call, ast.Dict)) else None
        if it and {"measure", "channel"} <= set(it):
            for f_ in ("measure", "channel"):
                v_ = it[f_]
                if isinstance(v_, ast.Name) and v_.id in byname:
                    sl[f_] = byname[v_.id]
                elif isinstance(v_, ast.Subscript) and isinstance(v_.slice, ast.Slice) and isinstance(v_.slice.lower, ast.Constant) and \
                        isinstance(v_.slice.upper, ast.Constant):
                    sl[f_] = (v_.slice.lower.value, v_.slice.upper.value, n)
    if not sl:
        sl = byname
    # which lines are note lines: '#' followed by a decimal digit (measures 000..999) — all ten digits
    DIG = set(range(48, 58))
    # (the test on the character after '#': as the condition of the note branch, or negated as a guard clause before it)
    def _char1(e):
        return isinstance(e, ast.Subscript) and isinstance(e.slice, ast.Constant) and e.slice.value == 1
    digit_test = None
    for n in ast.walk(rd.node):
        if not isinstance(n, ast.If):
            continue
        for c in ast.walk(n.test):
            if isinstance(c, ast.Compare) and len(c.ops) == 2 and all(isinstance(o, (ast.LtE, ast.Lt)) for o in c.ops) and _char1(c.comparators[0]):
                digit_test = ("range", c)
            elif isinstance(c, ast.Compare) and len(c.ops) == 1 and isinstance(c.ops[0], ast.In) and _char1(c.left):
                digit_test = ("in", c)
            elif isinstance(c, ast.Call) and call_name(c) == "isdigit" and isinstance(c.func, ast.Attribute) and \
                    (_char1(c.func.value) or (isinstance(c.func.value, ast.Subscript) and isinstance(c.func.value.slice, ast.Slice))):
                digit_test = ("isdigit", c)
    if digit_test is None:
        insts.append(R.undec(rid, "note-line-test", file_r, rd.node.lineno, "test that tells note lines from header lines not found"))
    else:
        kind, c = digit_test

        def ordv(e):
            if isinstance(e, ast.Call) and call_name(e) == "ord" and e.args and isinstance(e.args[0], ast.Constant) and len(e.args[0].value) == 1:
                return ord(e.args[0].value)
            if isinstance(e, ast.Constant) and isinstance(e.value, int):
                return e.value
            return None
        got = None
        if kind == "range":
            lo, hi = ordv(c.left), ordv(c.comparators[1])
            if lo is not None and hi is not None:
                got = set(range(lo + (1 if isinstance(c.ops[0], ast.Lt) else 0), hi + (0 if isinstance(c.ops[1], ast.Lt) else 1)))
        elif kind == "in":
            try:
                v = M.lit(rd.mod, c.comparators[0], rd.cls)
            except Exception:
                v = None
                # bytes(range(ord("0"), ord("9") + 1)) and the like, possibly through a module-level name
                e0 = c.comparators[0]
                if isinstance(e0, ast.Name):
                    ds0 = [st.value for st in M.mods[rd.mod].tree.body if isinstance(st, ast.Assign) and len(st.targets) == 1 and
                           isinstance(st.targets[0], ast.Name) and st.targets[0].id == e0.id]
                    e0 = ds0[0] if len(ds0) == 1 else e0
                if isinstance(e0, ast.Call) and call_name(e0) in ("bytes", "frozenset", "set", "tuple", "list") and len(e0.args) == 1 and \
                        isinstance(e0.args[0], ast.Call) and call_name(e0.args[0]) == "range" and 1 <= len(e0.args[0].args) <= 2:
                    def iv(x):
                        if isinstance(x, ast.BinOp) and isinstance(x.op, (ast.Add, ast.Sub)) and iv(x.left) is not None and iv(x.right) is not None:
                            return iv(x.left) + iv(x.right) if isinstance(x.op, ast.Add) else iv(x.left) - iv(x.right)
                        return ordv(x)
                    ra = [iv(x) for x in e0.args[0].args]
                    if all(x is not None for x in ra):
                        v = list(range(*ra))
                elif isinstance(e0, ast.Call) and call_name(e0) in ("bytes", "frozenset", "set", "tuple", "list") and len(e0.args) == 1 and \
                        not e0.keywords and isinstance(e0.args[0], ast.Constant) and isinstance(e0.args[0].value, bytes):
                    v = list(e0.args[0].value)       # frozenset(b"0123456789"): the ints that indexing bytes gives
            if isinstance(v, (bytes, bytearray)):
                got = set(v)
            elif isinstance(v, str):
                got = {ord(ch) for ch in v}
            elif isinstance(v, (list, tuple, set, frozenset)) and all(isinstance(x, int) for x in v):
                got = set(v)
        elif kind == "isdigit":
            got = DIG
        if got is None:
            insts.append(R.undec(rid, "note-line-test", file_r, c.lineno, f"set of characters accepted by '{unparse(c)[:60]}' not evaluated"))
        elif got == DIG:
            insts.append(R.ok(rid, "note-line-test", file_r, c.lineno, idiom="a note line is '#' followed by one of the ten decimal digits"))
        else:
            miss = "".join(chr(x) for x in sorted(DIG - got))
            extra = "".join(chr(x) for x in sorted(got - DIG))[:10]
            insts.append(R.viol(rid, "note-line-test", file_r, c.lineno,
                                f"note lines are recognised by '{unparse(c)[:60]}'" + (f", which misses the digit(s) '{miss}': every line of the measures "
                                f"starting with them is skipped silently" if miss else "") + (f", which also accepts '{extra}'" if extra else ""),
                                construct=f"note-line digits: missing '{miss}' extra '{extra}'"))
    want = {"measure": (1, 4), "channel": (4, 6)}
    for nm, (a, b) in want.items():
        key = f"line-slice:{nm}"
        if nm not in sl:
            insts.append(R.undec(rid, key, file_r, rd.node.lineno, f"slice of the line giving '{nm}' not found"))
        elif sl[nm][:2] == (a, b):
            insts.append(R.ok(rid, key, file_r, sl[nm][2].lineno, idiom=f"{nm} = command[{a}:{b}]"))
        else:
            insts.append(R.viol(rid, key, file_r, sl[nm][2].lineno,
                                f"in '#mmmcc:' the {nm} is characters {a}..{b - 1}; the reader takes [{sl[nm][0]}:{sl[nm][1]}]",
                                construct=unparse(sl[nm][2])))
    return insts


# --------------------------------------------------------------------------- R8
def _eval_list_arg(F: Flow, call: ast.Call):
    return F.eval(call.args[0]) if call.args else None


def rule_r8(ctx) -> List[R.Inst]:
    """parallel sequences: which accumulator field reaches which constructor keyword"""
    M = ctx.M
    rid = "C04.R8"
    fn = _read_notes_fn(ctx)
    file = M.mods[fn.mod].rel
    insts = []
    # accumulators: which buffer holds hits / holds, decided by the namedtuple appended to it in the loop
    loop = _main_loop(fn)
    acc = {}
    for n in ast.walk(loop):
        if isinstance(n, ast.Call) and call_name(n) == "append" and isinstance(n.func.value, ast.Subscript) and n.args and \
                isinstance(n.args[0], ast.Call) and isinstance(n.func.value.value, ast.Name):
            acc[call_name(n.args[0])] = n.func.value.value.id
    if set(acc) != {"Hit", "Hold"}:
        return [R.undec(rid, "accumulators", file, loop.lineno, f"per-lane buffers not recognised: {acc}")]
    # the record layouts the expectations below are written for (Hold carries its head object and the tail position)
    nts = {}
    for n in walk_no_nested(fn.node):
        if isinstance(n, ast.Assign) and isinstance(n.targets[0], ast.Name) and isinstance(n.value, ast.Call) and call_name(n.value) == "namedtuple" and \
                len(n.value.args) == 2:
            try:
                nts[n.targets[0].id] = list(ast.literal_eval(n.value.args[1])) if not isinstance(ast.literal_eval(n.value.args[1]), str) else \
                    ast.literal_eval(n.value.args[1]).replace(",", " ").split()
            except Exception:
                pass
    if nts.get("Hold") is not None and nts.get("Hold") != ["hit", "sample", "snap"]:
        return [R.undec(rid, "records", file, loop.lineno,
                        f"the Hold record has the fields {nts.get('Hold')}: which of them is the head / tail position is not followed")]
    F = Flow()
    results = {}
    after = fn.node.body[fn.node.body.index(loop) + 1:]     # the buffers stay symbolic: only the code after the loop
    for s in ordered_stmts(after):
        if isinstance(s, ast.Assign):
            slot = C.self_attr(s.targets[0])
            if slot in ("hits", "holds") and isinstance(s.value, ast.Call) and s.value.args and \
                    isinstance(s.value.args[0], (ast.ListComp, ast.GeneratorExp)):
                results[slot] = (F.eval(s.value.args[0]), s)
            elif slot is None:
                F.assign(s)
    spec = {
        "hits": (acc["Hit"], {"column": "@index({A})", "sample": "@elem(@elem({A})).sample",
                              "offset": "@tm.offsets(tm, @elem(@elem({A})).snap)"}),
        "holds": (acc["Hold"], {"column": "@index({A})", "sample": "@elem(@elem({A})).sample",
                                "offset": "@tm.offsets(tm, @elem(@elem({A})).hit.snap)",
                                "length": "@tm.offsets(tm, @elem(@elem({A})).snap) - @tm.offsets(tm, @elem(@elem({A})).hit.snap)"}),
    }
    for slot, (A, fields) in spec.items():
        if slot not in results:
            insts.append(R.undec(rid, f"{slot}:construction", file, fn.node.lineno, f"construction of self.{slot} not recognised"))
            continue
        v, st = results[slot]
        kw = ctor_kwargs(v.elem) if isinstance(v, SeqV) else None
        if kw is None:
            insts.append(R.undec(rid, f"{slot}:construction", file, st.lineno, "element constructor not recognised"))
            continue
        for f, want in fields.items():
            key = f"{slot}.{f}"
            got = kw.get(f)
            want_t = want.format(A=A)
            if got is None:
                insts.append(R.viol(rid, key, file, st.lineno, f"'{f}' is not passed to the {slot} constructor",
                                    construct=f"{slot}: no {f}"))
                continue
            g = show(got)
            if g.replace(" ", "") == want_t.replace(" ", ""):
                insts.append(R.ok(rid, key, file, got.lineno if hasattr(got, "lineno") else st.lineno, idiom=f"{f} <- {want_t}"))
            elif "@" in g:
                insts.append(R.viol(rid, key, file, st.lineno,
                                    f"'{f}' of a {slot[:-1]} receives {g}; it must be {want_t} "
                                    f"(parallel sequences are paired in the wrong positions)", construct=f"{slot}.{f} <- {g}"))
            else:
                insts.append(R.undec(rid, key, file, st.lineno, f"provenance of '{f}' not resolved: {g}"))
    # the buffers are indexed by column in the loop (so @index == column)
    for nm, A in acc.items():
        subs = [n for n in ast.walk(loop) if isinstance(n, ast.Subscript) and isinstance(n.value, ast.Name) and n.value.id == A]
        bad = [s for s in subs if unparse(s.slice) != "column"]
        key = f"buffer-index:{A}"
        if subs and not bad:
            insts.append(R.ok(rid, key, file, subs[0].lineno, idiom=f"{A}[column]"))
        else:
            n = bad[0] if bad else loop
            insts.append(R.viol(rid, key, file, n.lineno, f"buffer '{A}' is indexed by something other than the lane's column",
                                construct=unparse(n) if bad else f"{A} unused"))
    return insts


def rule_r9(ctx) -> List[R.Inst]:
    """every '#mmmcc:' line of the file reaches _read_notes (several lines may share measure and channel)"""
    M = ctx.M
    rid = "C04.R9"
    fn = M.fn(f"{BMSMAP}.read")
    file = M.mods[fn.mod].rel
    call = next((n for n in walk_no_nested(fn.node) if isinstance(n, ast.Call) and call_name(n) == "_read_notes"), None)
    if call is None or not call.args:
        return [R.undec(rid, "data-lines", file, fn.node.lineno, "call to _read_notes not found")]
    arg = call.args[0]
    names = {x.id for x in ast.walk(arg) if isinstance(x, ast.Name)}
    acc = None
    for nm in names:
        ds = local_defs(fn.node, nm)
        # the name may be re-bound (a dict collected in the loop, turned into a list afterwards): a keyed container anywhere in
        # its history is what decides
        pick = next((d for d in ds if isinstance(d, (ast.Dict, ast.Set))), None) or next(
            (d for d in ds if isinstance(d, (ast.List, ast.Call))), None)
        if pick is not None:
            acc = (nm, pick)
    if acc is None:
        return [R.undec(rid, "data-lines", file, call.lineno, "accumulator of the data lines not found")]
    nm, init = acc
    appends = [n for n in ast.walk(fn.node) if isinstance(n, ast.Call) and call_name(n) in ("append", "extend") and
               unparse(n.func.value) == nm]
    keyed = [n for n in ast.walk(fn.node) if isinstance(n, ast.Assign) and isinstance(n.targets[0], ast.Subscript) and
             unparse(n.targets[0].value) == nm]
    if isinstance(init, ast.List) and appends and not keyed and isinstance(arg, ast.Name):
        return [R.ok(rid, "data-lines", file, appends[0].lineno, idiom="every data line is appended to a list that is passed on whole")]
    if keyed or isinstance(init, (ast.Dict, ast.Set)):
        k = keyed[0] if keyed else init
        return [R.viol(rid, "data-lines", file, k.lineno,
                       f"data lines are stored under a key ('{unparse(k)[:60]}'): a second line for the same measure and channel replaces "
                       f"the first, so its objects (notes, tempo changes, LN heads) are lost", construct=unparse(k)[:120])]
    return [R.undec(rid, "data-lines", file, call.lineno, f"data lines reach _read_notes as '{unparse(arg)}'")]


def rule_r10(ctx) -> List[R.Inst]:
    from .common import forwarding_insts
    return forwarding_insts(ctx, "C04.R10", BMSMAP + ".read_file", ("read",)) + \
        forwarding_insts(ctx, "C04.R10", BMSMAP + ".read", ("_read_notes",))


def rule_dep(ctx):
    """obligations inherited from shared code reached through the call graph (sa/props/deps.py)"""
    from .deps import dep_insts
    return dep_insts(ctx, "C04", ["reamber.bms.BMSMap.BMSMap.read"], skip_groups=())


def rule_r11(ctx) -> List[R.Inst]:
    """measure-length channel (02): value * K on the way in, metronome / K on the way out, one K (the rule lives with the writer,
    C05.R12; the reader's half is an obligation of this property in its own right)"""
    from . import c05
    return c05.rule_r12(ctx, rid="C04.R11")


SPECS = [
    RuleSpec("C04.R1", rule_r1, 5, "A10", "five channel layouts: injective, contiguous, roles on 02/03/08, equal to the format table"),
    RuleSpec("C04.R2", rule_r2, 6, "A7", "role names used by reader and writer are values of _HEADER"),
    RuleSpec("C04.R3", rule_r3, 9, "A8", "dispatch: hex tempo / #BPMxx lookup / lane column / LN marker pairing on one lane / #WAV sample"),
    RuleSpec("C04.R4", rule_r4, 7, "A1", "header fields: same field read and written; other headers retained; initial tempo at 0"),
    RuleSpec("C04.R5", rule_r5, 3, "A8", "objects timed by the un-reseated map from sorted changes at 0 ms; tempo list from the reseated map"),
    RuleSpec("C04.R6", rule_r6, 1, "A5", "LN pairing must not depend on the order of the lines; the caller does not re-order lines by their content"),
    RuleSpec("C04.R7", rule_r7, 5, "A7", "line slicing '#mmmcc:' and slot position i/n * beats-per-measure"),
    RuleSpec("C04.R9", rule_r9, 1, "A8", "every data line reaches the note reader (no keyed overwrite)"),
    RuleSpec("C04.R10", rule_r10, 2, "A8", "read_file / read forward the channel layout they accept"),
    RuleSpec("C04.R8", rule_r8, 9, "A5", "parallel sequences: column, sample, head and tail reach the right constructor keyword"),
    RuleSpec("C04.R11", rule_r11, 1, "A1", "measure-length channel: read value * K, the inverse of what the writer emits"),
    RuleSpec("C04.D", rule_dep, 1, "M0", "rules of the shared code (timing engine, list classes, stacker) that the operations of this property reach"),
]

META = dict(
    explanation=(
        "BMS reader: the five channel layouts are evaluated as literals (injective lane->column onto 0..n-1, role "
        "channels 02/03/08, equality with the frozen format table sa/tables/bms_channels.json); role names resolve; "
        "the per-object dispatch decodes channel 03 as two hex digits, channel 08 through the #BPMxx table (keyed by "
        "the last two characters), lanes through the caller's layout, the #LNOBJ marker by popping the most recent "
        "object of the same lane and storing a hold under that lane with the head's sample, other objects as hits "
        "carrying self.samples.get(id); header keys are read into the fields the writer writes them from and other "
        "headers are retained; objects are timed by the un-reseated timing map built at 0 ms from position-sorted "
        "changes and the tempo list comes from the reseated map; the line slicing and the slot-position formula have "
        "the format's shape (rational-function canonical form); and an element-wise provenance analysis shows which "
        "buffer field reaches which constructor keyword (column/sample/head/tail not swapped). The measure-length channel (02) is read as value * K, the inverse of what the writer emits (R11); lines reach the note reader in file order within a measure and channel (no caller-side sort by content, R6)."),
    not_decided="Fraction arithmetic and the ms integration of the timing engine (C10), channel 02 (outside the property's domain)",
)
