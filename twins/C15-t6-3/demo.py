"""Demo for refactoring 3 (BMSMap._write_notes): digest over a broad set of charts."""
import hashlib
import logging
import random
import sys
import warnings
from pathlib import Path

import numpy as np
import pandas as pd

from reamber.bms.BMSChannel import BMSChannel
from reamber.bms.BMSMap import BMSMap
from reamber.bms.lists import BMSBpmList
from reamber.bms.lists.notes import BMSHitList, BMSHoldList

logging.disable(logging.CRITICAL)
random.seed(1503)
np.random.seed(1503)
OUT = []


def dump_df(tag, df):
    OUT.append(f"{tag} cols={list(df.columns)!r} dtypes={[str(t) for t in df.dtypes]!r}")
    OUT.append(f"{tag} index={df.index.tolist()!r}")
    OUT.append(f"{tag} values={df.values.tolist()!r}")


def dump_map(tag, m):
    for name, lst in m.objs.items():
        dump_df(f"{tag}.{name}", lst.df)
    OUT.append(f"{tag}.samples={m.samples!r} ln_end={m.ln_end_channel!r}")


def run(tag, m, **kwargs):
    OUT.append(f"==== {tag}")
    for what in ("write", "_write_notes"):
        kw = dict(kwargs)
        if what == "_write_notes":
            kw.setdefault("note_channel_config", BMSChannel.BME)
        with warnings.catch_warnings(record=True) as w:
            warnings.simplefilter("always")
            try:
                out = getattr(m, what)(**kw)
            except Exception as e:  # noqa
                OUT.append(f"{tag}.{what} RAISED {type(e).__name__}")
            else:
                OUT.append(f"{tag}.{what} type={type(out).__name__} len={len(out)}")
                OUT.append(f"{tag}.{what} bytes={out!r}")
        OUT.append(f"{tag}.{what} warnings={sorted((x.category.__name__, str(x.message)) for x in w)!r}")
    # the chart must not have been modified by writing it
    dump_map(tag + ".after", m)


def permuted(m, how):
    m = m.deepcopy()
    for name, lst in list(m.objs.items()):
        df = lst.df
        if how == "shuffle":
            df = df.sample(frac=1, random_state=random.randrange(10**6))
        elif how == "reverse":
            df = df.sort_values("offset", ascending=False, kind="stable")
        elif how == "shuffle_reset":
            df = df.sample(frac=1, random_state=random.randrange(10**6)).reset_index(drop=True)
        m.objs[name] = type(lst)(df)
    return m


SAMPLES = {b"01": b"kick.wav", b"02": b"snare.wav", b"0A": b"hat.wav", b"ZY": b"fx.ogg"}
SAMPLE_VALUES = [b"kick.wav", b"snare.wav", b"hat.wav", b"fx.ogg", b"", b"missing.wav"]


def random_map(n_hits, n_holds, keys, bpm_spec, step):
    """Unsorted construction on a beat grid (so there are many ties)"""
    m = BMSMap()
    m.title, m.artist, m.version = b"t", b"a", b"7"
    m.samples = dict(SAMPLES)
    if n_hits:
        m.hits = BMSHitList.from_dict(
            dict(
                offset=[float(random.randrange(0, 64) * step) for _ in range(n_hits)],
                column=[random.randrange(keys) for _ in range(n_hits)],
                sample=[random.choice(SAMPLE_VALUES) for _ in range(n_hits)],
            )
        )
    if n_holds:
        m.holds = BMSHoldList.from_dict(
            dict(
                offset=[float(random.randrange(0, 64) * step) for _ in range(n_holds)],
                column=[random.randrange(keys) for _ in range(n_holds)],
                length=[float(random.choice([1, 2, 4, 8]) * step) for _ in range(n_holds)],
                sample=[random.choice(SAMPLE_VALUES) for _ in range(n_holds)],
            )
        )
    if bpm_spec:
        m.bpms = BMSBpmList.from_dict(
            dict(
                offset=[float(o) for o, _, _ in bpm_spec],
                bpm=[float(b) for _, b, _ in bpm_spec],
                metronome=[float(mt) for _, _, mt in bpm_spec],
            )
        )
    return m


BPM_SPECS = [
    [(0, 120, 4)],  # 500 ms a beat
    [(0, 120, 4), (8000, 240, 4)],
    [(8000, 240, 4), (0, 120, 4)],  # unsorted tempo list
    [(0, 120, 4), (4000, 120, 3), (10000, 60, 4)],  # metronome change
    [(0, 150, 4), (0, 150, 4)],  # tie
    [],  # no tempo at all
]

# ---- 1. generated charts
case = 0
for n_hits, n_holds in [(0, 0), (1, 0), (0, 1), (4, 2), (20, 0), (0, 12), (40, 15)]:
    for spec in BPM_SPECS:
        case += 1
        keys = random.choice([1, 4, 7, 8, 16])
        step = random.choice([125, 250, 500])
        m = random_map(n_hits, n_holds, keys, spec, step)
        run(f"gen{case}", m)
        if case % 3 == 0:
            run(f"gen{case}.nosample", m, no_sample_default=b"ZZ")
        if case % 4 == 0:
            # a config without some of the columns, or without the header channels
            run(f"gen{case}.pms5b", m, note_channel_config=BMSChannel.PMS_5B)
            run(f"gen{case}.noheader", m, note_channel_config={b"11": 0, b"12": 1})
        if case % 5 == 0:
            m2 = m.deepcopy()
            m2.hits = m2.hits.append(m.hits.sorted(reverse=True))
            m2.holds = m2.holds.append(m.holds)
            m2.ln_end_channel = b""
            run(f"gen{case}.appended", m2)

# ---- 2. special values
m = random_map(6, 3, 4, [(0, 120, 4)], 250)
m.hits.df["column"] = m.hits.df["column"].astype(float)
run("float_columns", m)
m = random_map(6, 3, 4, [(0, 120, 4)], 250)
m.hits.df.loc[m.hits.df.index[0], "column"] = 99
run("unknown_column_hit", m)
m = random_map(6, 3, 4, [(0, 120, 4)], 250)
m.holds.df.loc[m.holds.df.index[-1], "column"] = 99
run("unknown_column_hold", m)
m = random_map(6, 3, 4, [(0, 120, 4)], 250)
m.hits.df["offset"] -= 3000.0
run("negative_offsets", m)
m = random_map(6, 3, 4, [(0, 120, 4)], 250)
m.hits.df["offset"] += 0.37
m.holds.df["length"] = 0.0
run("off_grid_zero_length", m)
m = random_map(5, 5, 4, [(0, 120, 4)], 250)
m.samples = {}
run("no_sample_table", m)
m = random_map(5, 5, 4, [(0, 120, 4)], 250)
m.hits = BMSHitList(pd.concat([m.hits.df, m.hits.df]))
run("dup_labels", m)

# ---- 3. fixture charts in several row orders
RSC = Path("rsc/maps/bms")
fixtures = {
    "take": BMSMap.read_file(RSC / "take.bms", BMSChannel.BME),
    "searoad": BMSMap.read_file(RSC / "searoad.bml"),
    "coldBreath": BMSMap.read_file(RSC / "coldBreath.bme"),
}
for name, m in fixtures.items():
    run(f"fx.{name}", m)
    for how in ("shuffle", "reverse", "shuffle_reset"):
        run(f"fx.{name}.{how}", permuted(m, how))

text = "\n".join(OUT)
print("LINES", len(OUT), "RAISED", sum(" RAISED " in x for x in OUT), file=sys.stderr)
if "--dump" in sys.argv:
    sys.stderr.write(text)
print("DIGEST", hashlib.sha256(text.encode("utf8")).hexdigest())
