"""Demo for C18: hitsound_copy on a broad, deterministic set of osu chart pairs.

Prints one line `DIGEST <hex>`: sha256 over a canonical dump of every result
(frames with values, dtypes, column order, row labels), the debug log of the
call, raised exception types, and both inputs after the call.
"""
import hashlib
import logging
import random
import sys
import warnings
from copy import deepcopy

import numpy as np
import pandas as pd

from reamber.algorithms.osu import hitsound_copy as hc_mod
from reamber.algorithms.osu.hitsound_copy import hitsound_copy
from reamber.osu.OsuHit import OsuHit
from reamber.osu.OsuHold import OsuHold
from reamber.osu.OsuMap import OsuMap
from reamber.osu.OsuSample import OsuSample
from reamber.osu.lists.OsuSampleList import OsuSampleList
from reamber.osu.lists.notes.OsuHitList import OsuHitList
from reamber.osu.lists.notes.OsuHoldList import OsuHoldList

warnings.simplefilter("ignore")
SEED = 1801
OUT = []


def emit(*parts):
    OUT.append(" ".join(str(p) for p in parts))


def dump_frame(tag, df):
    emit(tag, "type", type(df).__name__, "shape", df.shape)
    emit(tag, "columns", list(df.columns))
    emit(tag, "dtypes", [str(t) for t in df.dtypes])
    emit(tag, "index", type(df.index).__name__, str(df.index.dtype), list(df.index))
    for row in df.itertuples(index=True, name=None):
        emit(tag, "row", [(type(v).__name__, repr(v)) for v in row])


def frame_lines(df):
    n = len(OUT)
    dump_frame("cmp", df)
    lines = OUT[n:]
    del OUT[n:]
    return lines


def dump_map(tag, m):
    emit(tag, "class", type(m).__name__)
    for name in ("hits", "holds", "samples", "bpms", "svs"):
        lst = getattr(m, name)
        emit(tag, name, type(lst).__name__)
        dump_frame(f"{tag}.{name}", lst.df)


class ListHandler(logging.Handler):
    def __init__(self):
        super().__init__(level=logging.DEBUG)
        self.records = []

    def emit(self, record):
        self.records.append((record.levelname, record.getMessage()))


HANDLER = ListHandler()
hc_mod.log.addHandler(HANDLER)
hc_mod.log.setLevel(logging.DEBUG)
hc_mod.log.propagate = False

FILES = ["a.wav", "b.ogg", "kick 1.wav", "snare.wav", "x"]
VOLUMES = [0, 0, 10, 20, 20, 30, 70, 100, -5]


def rand_meta(rng, p_sound, p_file, p_sets):
    d = {}
    if rng.random() < p_sound:
        d["hitsound_set"] = rng.choice([0, 1, 2, 4, 6, 8, 10, 12, 14, 3, 15])
    if rng.random() < p_file:
        d["hitsound_file"] = rng.choice(FILES)
    if rng.random() < p_sets:
        d[rng.choice(["sample_set", "addition_set", "custom_set"])] = rng.randint(1, 3)
    d["volume"] = rng.choice(VOLUMES)
    return d


def rand_map(rng, times, n_hits, n_holds, p_sound, p_file, p_sets, keys=4,
             shuffle=True, with_samples=False):
    hits = [
        OsuHit(offset=rng.choice(times), column=rng.randrange(keys),
               **rand_meta(rng, p_sound, p_file, p_sets))
        for _ in range(n_hits)
    ]
    holds = [
        OsuHold(offset=rng.choice(times), column=rng.randrange(keys),
                length=rng.choice([1, 50, 125.5, 1000]),
                **rand_meta(rng, p_sound, p_file, p_sets))
        for _ in range(n_holds)
    ]
    if shuffle:
        rng.shuffle(hits)
        rng.shuffle(holds)
    m = OsuMap()
    m.hits = OsuHitList(hits)
    m.holds = OsuHoldList(holds)
    if with_samples:
        m.samples = OsuSampleList(
            [OsuSample(offset=rng.choice(times), sample_file="pre.wav", volume=33)]
        )
    return m


def run_case(name, src, tgt):
    emit("=== CASE", name)
    src_before, tgt_before = deepcopy(src), deepcopy(tgt)
    HANDLER.records.clear()
    try:
        res = hitsound_copy(src, tgt)
    except Exception as e:  # noqa
        emit("raised", type(e).__name__)
        res = None
    for lvl, msg in HANDLER.records:
        emit("log", lvl, msg)
    if res is not None:
        emit("result is tgt", res is tgt, "result is src", res is src)
        dump_map("result", res)
    dump_map("src_after", src)
    dump_map("tgt_after", tgt)
    # explicit non-mutation check (also folded in the digest)
    for a, b, t in ((src, src_before, "src"), (tgt, tgt_before, "tgt")):
        for nm in ("hits", "holds", "samples"):
            emit("unmodified", t, nm,
                 frame_lines(getattr(a, nm).df) == frame_lines(getattr(b, nm).df))


def main():
    rng = random.Random(SEED)
    random.seed(SEED)
    np.random.seed(SEED)

    # --- hand-made edge cases -------------------------------------------
    def m(hits=(), holds=()):
        x = OsuMap()
        x.hits = OsuHitList(list(hits))
        x.holds = OsuHoldList(list(holds))
        return x

    H, L = OsuHit, OsuHold
    full = [H(0, 0, hitsound_set=14, volume=30), H(0, 1, hitsound_set=2, volume=30),
            H(0, 2, hitsound_file="a.wav", volume=30), H(0, 3, hitsound_file="b.ogg", volume=10),
            H(100, 0, hitsound_set=8, volume=0), L(100, 1, 50, hitsound_set=4, volume=0),
            L(100, 2, 10, hitsound_file="x", volume=-5)]
    run_case("empty-empty", m(), m())
    run_case("empty-src", m(), m([H(0, 0), H(10, 1)], [L(0, 2, 5)]))
    run_case("empty-tgt", m(full[:5], full[5:]), m())
    run_case("src-silent", m([H(0, 0), H(5, 1)], [L(0, 2, 5)]), m([H(0, 0)], [L(5, 1, 3)]))
    run_case("one-slot-many-sounds", m(full[:5], full[5:]), m([H(0, 1), H(100, 3)]))
    run_case("no-overlap", m(full[:5], full[5:]), m([H(1, 1), H(99, 3)], [L(101, 0, 2)]))
    run_case("many-slots", m(full[:5], full[5:]),
             m([H(0, i, hitsound_set=2, hitsound_file="old.wav", volume=99) for i in range(4)]
               + [H(100, i) for i in range(3)], [L(0, 4, 10), L(0, 5, 20), L(100, 6, 30)]))
    run_case("tgt-only-holds", m(full[:5], full[5:]), m((), [L(0, 0, 10), L(100, 1, 20), L(100, 0, 7)]))
    run_case("src-only-holds", m((), full[5:]), m([H(100, 0), H(100, 1), H(100, 2)]))
    run_case("only-files", m([H(0, i, hitsound_file=f, volume=v) for i, (f, v) in
                              enumerate([("a.wav", 20), ("b.ogg", 20), ("x", 40), ("a.wav", 0)])]),
             m([H(0, 0), H(0, 1)]))
    run_case("file+sound-same-note", m([H(0, 0, hitsound_set=6, hitsound_file="a.wav", volume=20),
                                         H(0, 1, hitsound_set=2, hitsound_file="b.ogg", volume=20)]),
             m([H(0, 0), H(0, 1), H(0, 2)]))
    run_case("odd-bits", m([H(0, 0, hitsound_set=1, volume=20), H(0, 1, hitsound_set=15, volume=20),
                            H(0, 2, hitsound_set=3, volume=50)]),
             m([H(0, 0), H(0, 1), H(0, 2), H(0, 3)]))
    run_case("sets-only", m([H(0, 0, sample_set=2, volume=20), H(0, 1, custom_set=1, volume=0),
                             H(7, 1, addition_set=3, volume=60)]),
             m([H(0, 0), H(7, 1)]))
    run_case("float-times", m([H(0.5, 0, hitsound_set=2, volume=20), H(-10, 1, hitsound_set=4, volume=5),
                               H(-10, 2, hitsound_file="a.wav", volume=5)]),
             m([H(0.5, 0), H(-10, 3)], [L(-10, 2, 5), L(0.5, 1, 5)]))
    same = m(full[:5], full[5:])
    run_case("src-is-tgt", same, same)
    pre = m([H(0, 0), H(0, 1)])
    pre.samples = OsuSampleList([OsuSample(offset=0, sample_file="pre.wav", volume=11)])
    run_case("tgt-has-samples", m(full[:5], full[5:]), pre)

    # --- generated cases --------------------------------------------------
    for i in range(60):
        n_times = rng.choice([1, 2, 3, 6])
        times = sorted(rng.sample(range(-200, 2000, 25), n_times))
        if i % 7 == 0:
            times = [t + 0.5 for t in times]
        tgt_times = times if i % 3 else times + [5000, 5025]
        src = rand_map(rng, times, rng.choice([0, 1, 4, 9, 14]), rng.choice([0, 0, 2, 5]),
                       p_sound=rng.choice([0.3, 0.7, 1.0]), p_file=rng.choice([0.0, 0.3, 0.8]),
                       p_sets=rng.choice([0.0, 0.3]), with_samples=(i % 5 == 0))
        tgt = rand_map(rng, tgt_times, rng.choice([0, 1, 3, 8, 12]), rng.choice([0, 0, 1, 4]),
                       p_sound=0.5, p_file=0.3, p_sets=0.3, keys=rng.choice([4, 7]),
                       with_samples=(i % 4 == 0))
        run_case(f"gen-{i}", src, tgt)

    text = "\n".join(OUT)
    if "--dump" in sys.argv:
        print(text)
    print("DIGEST", hashlib.sha256(text.encode("utf-8")).hexdigest())


if __name__ == "__main__":
    main()
