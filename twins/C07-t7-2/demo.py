"""Demo for property C07 (O2Jam reader).

Builds several dozen well-formed OJN byte strings (plus the two bundled files
and a few direct calls of the individual reader functions), reads them with
the library and prints ONE line ``DIGEST <hex>``: the sha256 of a canonical
text dump of everything observable (header fields with their types, the three
DataFrames per difficulty with values / dtypes / column order / row labels,
the parsed packages with the measure attributes of their events, the state of
arguments after the call and the types of raised exceptions).

Run:  cd /tmp/wt7/C07 && PYTHONPATH=/tmp/wt7/C07 /venv/bin/python demo.py
"""
import hashlib
import logging
import os
import random
import struct
import warnings

warnings.simplefilter("ignore")
logging.disable(logging.CRITICAL)

from reamber.o2jam.O2JBpm import O2JBpm  # noqa: E402
from reamber.o2jam.O2JEventPackage import (  # noqa: E402
    O2JEventMeasureChange,
    O2JEventPackage,
)
from reamber.o2jam.O2JHold import O2JHold  # noqa: E402
from reamber.o2jam.O2JMap import O2JMap  # noqa: E402
from reamber.o2jam.O2JMapSet import O2JMapSet  # noqa: E402
from reamber.o2jam.O2JMapSetMeta import O2JMapSetMeta  # noqa: E402

OUT = []


def emit(*parts):
    OUT.append(" ".join(str(p) for p in parts))


# --------------------------------------------------------------------------
# canonical dumps
# --------------------------------------------------------------------------
def val(v):
    """type name + exact repr (floats via repr are round-trip exact)"""
    if isinstance(v, (list, tuple)):
        return type(v).__name__ + "[" + ",".join(val(x) for x in v) + "]"
    return f"{type(v).__name__}:{v!r}"


def dump_df(tag, df):
    emit(tag, "columns", list(df.columns))
    emit(tag, "dtypes", [str(t) for t in df.dtypes])
    emit(tag, "index", type(df.index).__name__, str(df.index.dtype), df.index.tolist())
    for row in df.itertuples(index=True, name=None):
        emit(tag, "row", [val(x) for x in row])


META_FIELDS = [
    "song_id", "signature", "encode_version", "genre", "bpm", "level",
    "event_count", "note_count", "measure_count", "package_count",
    "old_encode_version", "old_song_id", "old_genre", "bmp_size",
    "old_file_version", "title", "artist", "creator", "ojm_file",
    "cover_size", "duration", "note_offset", "cover_offset",
]


def dump_meta(tag, m):
    for f in META_FIELDS:
        emit(tag, "meta", f, val(getattr(m, f)))


def dump_event(tag, e):
    if e is None:
        emit(tag, "event None")
        return
    extra = []
    for a in ("measure", "tail_measure", "frac_length"):
        if hasattr(e, a):
            extra.append(f"{a}={val(getattr(e, a))}")
    data = getattr(e, "data", None)
    if data is not None:
        extra.append("data.index=" + repr(list(data.index)))
        extra.append("data.dtype=" + str(data.dtype))
        extra.append("data=" + repr([val(x) for x in data.tolist()]))
    emit(tag, "event", type(e).__name__, *extra)


def dump_pkgs(tag, pkgs):
    for i, p in enumerate(pkgs):
        if p is None:
            emit(tag, i, "pkg None")
            continue
        emit(tag, i, "pkg", val(p.measure), val(p.channel), len(p.events))
        for e in p.events:
            dump_event(f"{tag}.{i}", e)


def dump_map(tag, m):
    emit(tag, "objs keys", list(m.objs.keys()))
    dump_df(tag + ".hits", m.hits.df)
    dump_df(tag + ".holds", m.holds.df)
    dump_df(tag + ".bpms", m.bpms.df)


def dump_mapset(tag, ms):
    dump_meta(tag, ms)
    emit(tag, "n_maps", len(ms.maps), [type(m).__name__ for m in ms.maps])
    for k, m in enumerate(ms.maps):
        dump_map(f"{tag}.map{k}", m)


def attempt(tag, fn):
    try:
        return fn()
    except Exception as exc:  # noqa: BLE001
        emit(tag, "RAISED", type(exc).__module__ + "." + type(exc).__name__)
        return None


# --------------------------------------------------------------------------
# OJN builder
# --------------------------------------------------------------------------
def fixed(s, n):
    b = s if isinstance(s, bytes) else s.encode("ascii")
    return b[:n] + b"\x00" * (n - len(b[:n]))


def build_header(rng, bpm, pkg_counts, **over):
    h = dict(
        song_id=rng.randrange(1, 100000),
        signature=b"ojn\x00",
        encode_version=2.9000000953674316,
        genre=rng.randrange(0, 11),
        bpm=bpm,
        level=[rng.randrange(1, 120) for _ in range(3)] + [0],
        event_count=[rng.randrange(0, 5000) for _ in range(3)],
        note_count=[rng.randrange(0, 5000) for _ in range(3)],
        measure_count=[rng.randrange(0, 300) for _ in range(3)],
        package_count=list(pkg_counts),
        old_encode_version=29,
        old_song_id=rng.randrange(0, 30000),
        old_genre=fixed(rng.choice([b"", b"Etc", b"Rock\x00x", b"\xff\xfeab"]), 20),
        bmp_size=rng.randrange(0, 1 << 20),
        old_file_version=rng.randrange(0, 10),
        title=fixed(rng.choice(["Song", "A b C", "", "x" * 64, "Caf\xe9".encode("latin1")]), 64),
        artist=fixed(rng.choice(["  Artist ", "", "a" * 40]), 32),
        creator=fixed(rng.choice(["me", "Some One", ""]), 32),
        ojm_file=fixed(rng.choice(["o2ma100.ojm", "x.ojm"]), 32),
        cover_size=rng.randrange(0, 1 << 16),
        duration=[rng.randrange(0, 400) for _ in range(3)],
        note_offset=[300, 300 + rng.randrange(0, 9999), 300 + rng.randrange(0, 99999)],
        cover_offset=rng.randrange(300, 1 << 20),
    )
    h.update(over)
    b = struct.pack("<i", h["song_id"]) + h["signature"]
    b += struct.pack("<fif", h["encode_version"], h["genre"], h["bpm"])
    b += struct.pack("<4h", *h["level"])
    for k in ("event_count", "note_count", "measure_count", "package_count"):
        b += struct.pack("<3i", *h[k])
    b += struct.pack("<hh", h["old_encode_version"], h["old_song_id"]) + h["old_genre"]
    b += struct.pack("<ii", h["bmp_size"], h["old_file_version"])
    b += h["title"] + h["artist"] + h["creator"] + h["ojm_file"]
    b += struct.pack("<i", h["cover_size"])
    b += struct.pack("<3i", *h["duration"]) + struct.pack("<3i", *h["note_offset"])
    b += struct.pack("<i", h["cover_offset"])
    assert len(b) == 300, len(b)
    return b


def pkg_bytes(measure, channel, events):
    return struct.pack("<ihh", measure, channel, len(events)) + b"".join(events)


def note_ev(rng, kind):
    """kind: None (empty slot), 0 hit, 2 hold head, 3 hold tail"""
    if kind is None:
        return b"\x00\x00" + bytes([rng.randrange(256), rng.choice([0, 2, 3])])
    sample = rng.choice([1, 2, 77, 999, -5, 32767, -32768])
    return struct.pack("<h", sample) + bytes([rng.randrange(256), kind])


SLOTS = [1, 2, 3, 4, 6, 8, 12, 16, 24, 48, 192]
BPMS = [60.0, 90.5, 120.0, 133.33, 150.0, 174.0, 200.0, 222.22, 300.0, 0.5, 999.0]


def build_level(rng, n_measures, cols, n_bpm, bpm_after_last, autoplay, dup_pkgs,
                density=0.5, start_measure=0):
    """Returns the list of package byte strings of one difficulty
    (in file order: measure major, then channel)."""
    pk = []  # (measure, channel, seq, bytes)
    seq = 0
    last = start_measure + n_measures
    for col in cols:
        holding = False
        for measure in range(start_measure, last):
            if rng.random() > density:
                continue
            for _ in range(2 if (dup_pkgs and rng.random() < 0.3) else 1):
                slots = rng.choice(SLOTS)
                evs = []
                for _s in range(slots):
                    r = rng.random()
                    if slots > 16 and r < 0.9:
                        k = None
                    elif r < 0.35:
                        k = None
                    elif holding:
                        k = 3 if r < 0.7 else None
                    else:
                        k = 0 if r < 0.75 else 2
                    if k == 2:
                        holding = True
                    elif k == 3:
                        holding = False
                    evs.append(note_ev(rng, k))
                pk.append((measure, col + 2, seq, pkg_bytes(measure, col + 2, evs)))
                seq += 1
        if holding:  # close the long note in one more measure
            slots = rng.choice([1, 2, 4, 8])
            at = rng.randrange(slots)
            evs = [note_ev(rng, 3 if s == at else None) for s in range(slots)]
            pk.append((last, col + 2, seq, pkg_bytes(last, col + 2, evs)))
            seq += 1
    hi = last + (3 if bpm_after_last else 0)
    for _ in range(n_bpm):
        measure = rng.randrange(start_measure, max(hi, start_measure) + 1)
        slots = rng.choice([1, 1, 2, 4, 8, 16])
        vals = [rng.choice(BPMS) if rng.random() < 0.5 else 0.0 for _s in range(slots)]
        if all(v == 0.0 for v in vals) and rng.random() < 0.8:
            vals[rng.randrange(slots)] = rng.choice(BPMS)
        evs = [struct.pack("<f", v) for v in vals]
        pk.append((measure, 1, seq, pkg_bytes(measure, 1, evs)))
        seq += 1
    if bpm_after_last:
        pk.append((hi + 2, 1, seq, pkg_bytes(hi + 2, 1, [struct.pack("<f", 187.5)])))
        seq += 1
    for _ in range(autoplay):
        measure = rng.randrange(start_measure, last + 1)
        ch = rng.randrange(9, 23)
        slots = rng.choice([1, 2, 4, 8])
        evs = [note_ev(rng, rng.choice([None, 0, 0, 2, 3])) for _s in range(slots)]
        pk.append((measure, ch, seq, pkg_bytes(measure, ch, evs)))
        seq += 1
    pk.sort(key=lambda t: (t[0], t[1], t[2]))
    return [p[3] for p in pk]


def build_ojn(rng, levels, bpm, trailer=b"", **over):
    body = b"".join(b"".join(lv) for lv in levels)
    return build_header(rng, bpm, [len(lv) for lv in levels], **over) + body + trailer


def random_ojn(rng, case):
    all_cols = list(range(7))
    levels = []
    for _lvl in range(3):
        style = rng.randrange(8)
        if style == 0:
            levels.append([])  # empty difficulty
            continue
        cols = all_cols if style in (1, 2, 3) else rng.sample(all_cols, rng.randrange(1, 7))
        levels.append(
            build_level(
                rng,
                n_measures=rng.choice([0, 1, 2, 3, 5, 8]),
                cols=cols,
                n_bpm=rng.choice([0, 0, 1, 2, 3, 6, 10]),
                bpm_after_last=rng.random() < 0.4,
                autoplay=rng.choice([0, 0, 2, 5]),
                dup_pkgs=rng.random() < 0.4,
                density=rng.choice([0.3, 0.6, 1.0]),
                start_measure=rng.choice([0, 0, 0, 1, 4]),
            )
        )
    trailer = bytes(rng.randrange(256) for _ in range(rng.choice([0, 0, 7, 64])))
    return build_ojn(rng, levels, rng.choice(BPMS[:-2] + [128.0, 181.25]), trailer)


# --------------------------------------------------------------------------
# sections
# --------------------------------------------------------------------------
def section_full_read(rng):
    """whole pipeline on generated files"""
    for case in range(48):
        b = random_ojn(rng, case)
        keep = bytes(b)
        tag = f"gen{case}"
        ms = attempt(tag, lambda: O2JMapSet.read(b))
        if ms is not None:
            dump_mapset(tag, ms)
        emit(tag, "input unchanged", b == keep)
        # the intermediate package representation
        meta = O2JMapSetMeta()
        meta.read_meta(b[:300])
        lv = attempt(tag + ".pk", lambda: O2JEventPackage.read_event_packages(b[300:], meta.package_count))
        if lv is not None:
            for k, pkgs in enumerate(lv):
                dump_pkgs(f"{tag}.pk{k}", pkgs)


def section_handmade(rng):
    """hand made edge cases of the domain"""
    f = lambda v: struct.pack("<f", v)  # noqa: E731
    hit = lambda: note_ev(rng, 0)  # noqa: E731
    head = lambda: note_ev(rng, 2)  # noqa: E731
    tail = lambda: note_ev(rng, 3)  # noqa: E731
    none = lambda: note_ev(rng, None)  # noqa: E731
    cases = {}
    # no packages at all
    cases["empty"] = [[], [], []]
    # only tempo events, nothing else
    cases["only_bpm"] = [[pkg_bytes(0, 1, [f(100.0)]), pkg_bytes(3, 1, [f(0.0), f(200.0)])], [], []]
    # tempo change at measure 0, same measure as the first note (tie)
    cases["tie0"] = [[pkg_bytes(0, 1, [f(240.0)]), pkg_bytes(0, 2, [hit(), hit()])], [], []]
    # two tempo events at the same measure position in different packages
    cases["bpm_tie"] = [
        [pkg_bytes(1, 1, [f(60.0)]), pkg_bytes(1, 1, [f(180.0), f(0.0)]),
         pkg_bytes(1, 3, [hit()]), pkg_bytes(2, 3, [hit(), none(), hit(), none()])], [], []]
    # tempo events after the last note, and between head and tail of a long note
    cases["ln_over_bpm"] = [
        [pkg_bytes(0, 4, [head(), none()]), pkg_bytes(1, 1, [f(0.0), f(90.0), f(0.0), f(45.0)]),
         pkg_bytes(2, 1, [f(360.0)]), pkg_bytes(3, 4, [none(), none(), tail()]),
         pkg_bytes(7, 1, [f(111.0)]), pkg_bytes(9, 1, [f(0.0), f(222.0)])], [], []]
    # hit and tail and tempo at exactly the same position, all 7 columns
    cases["all_cols"] = [
        [pkg_bytes(0, c + 2, [head(), hit() if c % 2 else none()]) for c in range(7)]
        + [pkg_bytes(1, 1, [f(150.0)])]
        + [pkg_bytes(1, c + 2, [tail(), head(), tail(), hit()]) for c in range(7)],
        [pkg_bytes(5, 8, [hit()] + [none()] * 191)],
        [pkg_bytes(2, 1, [f(75.0)]), pkg_bytes(2, 2, [none(), hit()])]]
    # tail of a long note at the same position as its head's package end; 192 slots
    cases["fine_slots"] = [
        [pkg_bytes(0, 2, [none()] * 100 + [head()] + [none()] * 90 + [tail()]),
         pkg_bytes(0, 1, [f(0.0)] * 3 + [f(170.0)] + [f(0.0)] * 4)], [], []]
    # packages not in measure order in the file (the reader sorts)
    cases["unordered"] = [
        [pkg_bytes(4, 2, [hit()]), pkg_bytes(2, 1, [f(100.0)]), pkg_bytes(1, 2, [hit(), hit()]),
         pkg_bytes(3, 1, [f(50.0)]), pkg_bytes(0, 5, [hit()])], [], []]
    # disabled tempo events only, autoplay only
    cases["disabled"] = [[pkg_bytes(1, 1, [f(0.0), f(0.0)]), pkg_bytes(1, 12, [hit(), head()])], [], []]
    # zero-event packages
    cases["zero_events"] = [[pkg_bytes(0, 2, []), pkg_bytes(1, 1, []), pkg_bytes(2, 2, [hit()])], [], []]
    for name, levels in cases.items():
        for init in (120.0, 133.33):
            b = build_ojn(rng, levels, init, trailer=b"COVER" if name == "tie0" else b"")
            tag = f"hand.{name}.{init}"
            ms = attempt(tag, lambda: O2JMapSet.read(b))
            if ms is not None:
                dump_mapset(tag, ms)
    # header tempo of 0 (outside the domain; only the exception type is recorded)
    b = build_ojn(rng, cases["tie0"], 0.0)
    attempt("hand.zero_init", lambda: O2JMapSet.read(b))
    b = build_ojn(rng, cases["empty"], 0.0)
    ms = attempt("hand.zero_init_empty", lambda: O2JMapSet.read(b))
    if ms is not None:
        dump_mapset("hand.zero_init_empty", ms)


def section_bundled():
    for name in ("o2ma120.ojn", "o2ma178.ojn"):
        path = os.path.join("tests", "unit_tests", "o2jam", name)
        if not os.path.exists(path):
            emit("bundled", name, "missing")
            continue
        ms = attempt("bundled." + name, lambda: O2JMapSet.read_file(path))
        if ms is not None:
            dump_mapset("bundled." + name, ms)


def section_read_pkgs(rng):
    """direct calls of O2JMap.read_pkgs on hand built packages"""

    def mk_bpm(measure, v):
        e = O2JBpm(bpm=v, offset=0)
        e.measure = measure
        return e

    def mk_note(rng_, measure, col):
        from reamber.o2jam.O2JHit import O2JHit
        e = O2JHit(volume=rng_.randrange(16), pan=rng_.randrange(16), offset=0, column=col)
        e.measure = measure
        return e

    def mk_hold(rng_, measure, tail, col):
        e = O2JHold(volume=rng_.randrange(16), pan=rng_.randrange(16), column=col, length=-1, offset=0)
        e.measure = measure
        e.tail_measure = tail
        return e

    for case in range(30):
        pkgs = []
        n_pk = rng.choice([0, 1, 2, 5, 9])
        for _ in range(n_pk):
            p = O2JEventPackage()
            p.measure = rng.randrange(0, 6)
            kind = rng.random()
            for _e in range(rng.choice([0, 1, 2, 4])):
                pos = p.measure + rng.choice([0, 0, 0.25, 0.5, 1 / 3, 0.75, 5 / 192])
                if kind < 0.4:
                    p.channel = 1
                    p.events.append(mk_bpm(pos, rng.choice(BPMS)))
                else:
                    p.channel = rng.randrange(2, 9)
                    if rng.random() < 0.6:
                        p.events.append(mk_note(rng, pos, p.channel - 2))
                    else:
                        p.events.append(mk_hold(rng, pos, pos + rng.choice([0, 0.125, 1, 2.5]), p.channel - 2))
            pkgs.append(p)
        rng.shuffle(pkgs)
        tag = f"rp{case}"
        init = rng.choice([120.0, 95.5, 200.0])
        m = attempt(tag, lambda: O2JMap.read_pkgs(pkgs=pkgs, init_bpm=init))
        if m is not None:
            dump_map(tag, m)
        emit(tag, "n pkgs after", len(pkgs))
        dump_pkgs(tag + ".after", pkgs)  # the events are timed in place
    # a measure-fraction event has no measure (outside the domain): exception type only
    p = O2JEventPackage(measure=0, channel=0)
    p.events.append(O2JEventMeasureChange(0.75))
    q = O2JEventPackage(measure=1, channel=1)
    q.events.append(mk_bpm(1.0, 100.0))
    attempt("rp.frac", lambda: O2JMap.read_pkgs(pkgs=[p, q], init_bpm=120.0))
    attempt("rp.frac1", lambda: O2JMap.read_pkgs(pkgs=[p], init_bpm=120.0))
    attempt("rp.none", lambda: O2JMap.read_pkgs(pkgs=[None], init_bpm=120.0))
    attempt("rp.zero", lambda: O2JMap.read_pkgs(pkgs=[q], init_bpm=0.0))
    dump_pkgs("rp.zero.after", [q])


def section_read_events(rng):
    """direct calls of the per package event readers on random event bytes"""
    for case in range(40):
        n = rng.choice([0, 1, 2, 3, 4, 8, 16])
        evs = []
        for _ in range(n):
            r = rng.random()
            if r < 0.25:
                evs.append(note_ev(rng, None))
            elif r < 0.9:
                evs.append(note_ev(rng, rng.choice([0, 0, 2, 3])))
            else:  # unknown note type: ignored by the reader
                evs.append(struct.pack("<h", 5) + bytes([rng.randrange(256), rng.choice([1, 4, 255])]))
        data = b"".join(evs) + bytes(rng.randrange(256) for _ in range(rng.choice([0, 0, 0, 1, 3])))
        if case % 5 == 4:
            data = bytearray(data)
        keep = bytes(data)
        col = rng.randrange(7)
        buf = {}
        if rng.random() < 0.6:
            h = O2JHold(volume=1, pan=2, column=col, length=-1, offset=0)
            h.measure = 0.5
            buf[col] = h
        if rng.random() < 0.3:
            other = (col + 1) % 7
            h = O2JHold(volume=3, pan=4, column=other, length=-1, offset=0)
            h.measure = 0.25
            buf[other] = h
        measure = rng.randrange(0, 50)
        tag = f"ev{case}"
        notes = attempt(tag, lambda: O2JEventPackage.read_events_note(data, col, buf, measure))
        if notes is not None:
            emit(tag, "n", len(notes))
            for e in notes:
                dump_event(tag, e)
        emit(tag, "data unchanged", bytes(data) == keep, type(data).__name__)
        emit(tag, "buffer keys", sorted(buf))
        for k in sorted(buf):
            dump_event(f"{tag}.buf{k}", buf[k])
    for case in range(12):
        n = rng.choice([0, 1, 2, 4, 8])
        data = b"".join(struct.pack("<f", rng.choice(BPMS + [0.0, 0.0, -120.0])) for _ in range(n))
        tag = f"evb{case}"
        bpms = attempt(tag, lambda: O2JEventPackage.read_events_bpm(data, rng.randrange(0, 9)))
        if bpms is not None:
            emit(tag, "n", len(bpms))
            for e in bpms:
                dump_event(tag, e)


def section_read_meta(rng):
    """direct calls of read_meta on arbitrary 300 byte headers, short and long input"""
    for case in range(40):
        style = case % 4
        if style == 0:
            raw = bytes(rng.randrange(256) for _ in range(300))
        elif style == 1:  # mostly ascii text, many NULs
            raw = bytes(rng.choice(b"\x00\x00abcXYZ 019\x7f\x80\xff") for _ in range(300))
        elif style == 2:
            raw = build_header(rng, rng.choice(BPMS), [rng.randrange(0, 99) for _ in range(3)])
        else:
            raw = build_header(rng, -1.5, [0, 0, 0], signature=b"\x00jn\x00",
                               title=fixed(b"\x00A\x00B\x00\x00C", 64), old_genre=bytes(range(20)))
        if case in (5, 17):
            raw = raw + b"extra bytes after the header"
        if case in (6, 18, 30):
            raw = raw[: rng.choice([0, 3, 6, 10, 27, 100, 171, 299])]
        if case == 9:
            raw = bytearray(raw)
        keep = bytes(raw)
        m = O2JMapSetMeta()
        tag = f"meta{case}"
        r = attempt(tag, lambda: m.read_meta(raw))
        emit(tag, "returned", val(r))
        dump_meta(tag, m)
        emit(tag, "input unchanged", bytes(raw) == keep, type(raw).__name__)
    # reading twice into the same object, and list fields are independent objects
    m = O2JMapSetMeta()
    raw = build_header(rng, 100.0, [1, 2, 3])
    m.read_meta(raw)
    first = m.level
    m.read_meta(build_header(rng, 50.0, [4, 5, 6]))
    emit("meta.twice", val(first), val(m.level), first is m.level)
    dump_meta("meta.twice", m)
    # short file
    attempt("short.file", lambda: O2JMapSet.read(raw[:123]))
    attempt("empty.file", lambda: O2JMapSet.read(b""))


def main():
    rng = random.Random(20240707)
    section_full_read(rng)
    section_handmade(random.Random(7))
    section_bundled()
    section_read_pkgs(random.Random(11))
    section_read_events(random.Random(13))
    section_read_meta(random.Random(17))
    text = "\n".join(OUT) + "\n"
    if os.environ.get("DEMO_DUMP"):
        with open(os.environ["DEMO_DUMP"], "w") as fh:
            fh.write(text)
    print("DIGEST", hashlib.sha256(text.encode("utf-8", "backslashreplace")).hexdigest())


if __name__ == "__main__":
    main()
