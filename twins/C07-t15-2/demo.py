"""Demo for C07 / k=2: O2JMapSetMeta.read_meta (300-byte header decode).

Builds >30 synthetic OJN byte strings (fixed seed) with varied headers, reads
them through the public API (O2JMapSet.read / read_file) and also calls
read_meta directly (O2JMapSet().read_meta / O2JMapSetMeta().read_meta) on
regular, random, short, long, bytearray / memoryview and wrongly typed headers.
Prints one sha256 over a canonical text of all results, dtypes, exception
types + messages, and the state of the inputs / receiver afterwards.
"""
import hashlib
import os
import random
import struct
import sys
import tempfile
import warnings

import reamber
from reamber.o2jam.O2JMapSet import O2JMapSet
from reamber.o2jam.O2JMap import O2JMap
from reamber.o2jam.O2JMapSetMeta import O2JMapSetMeta
from reamber.o2jam.O2JEventPackage import O2JEventPackage
from reamber.o2jam.O2JBpm import O2JBpm
from reamber.o2jam.O2JHit import O2JHit
from reamber.o2jam.O2JHold import O2JHold

print(reamber.__file__, file=sys.stderr)

OUT = []


def emit(*parts):
    OUT.append(" ".join(str(p) for p in parts))


def fx(v):
    """Canonical, lossless text of a scalar."""
    if isinstance(v, float):
        return "f:" + (v.hex() if v == v and abs(v) != float("inf") else repr(v))
    try:
        import numpy as np

        if isinstance(v, np.floating):
            return "nf%d:" % v.dtype.itemsize + fx(float(v))[2:]
        if isinstance(v, np.integer):
            return "ni%d:%d" % (v.dtype.itemsize, int(v))
    except ImportError:
        pass
    return type(v).__name__ + ":" + repr(v)


def dump_list(name, lst):
    df = lst.df
    emit(" ", name, type(lst).__name__, "shape", df.shape)
    emit("   cols", list(df.columns), "dtypes", [str(d) for d in df.dtypes])
    emit("   index", type(df.index).__name__, list(df.index))
    for row in df.itertuples(index=False):
        emit("   ", [fx(v) for v in row])


def dump_map(m):
    emit(" map", type(m).__name__, sorted(m.objs.keys()))
    dump_list("hits", m.hits)
    dump_list("holds", m.holds)
    dump_list("bpms", m.bpms)


META_FIELDS = [
    "song_id", "signature", "encode_version", "genre", "bpm", "level",
    "event_count", "note_count", "measure_count", "package_count",
    "old_encode_version", "old_song_id", "old_genre", "bmp_size",
    "old_file_version", "title", "artist", "creator", "ojm_file",
    "cover_size", "duration", "note_offset", "cover_offset",
]


def dump_meta(ms):
    for f in META_FIELDS:
        v = getattr(ms, f)
        if isinstance(v, list):
            emit("  meta", f, "list", [fx(x) for x in v])
        else:
            emit("  meta", f, fx(v))


# --------------------------------------------------------------------------
# OJN builders
# --------------------------------------------------------------------------
def pad(b, n):
    return b[:n] + b"\x00" * (n - len(b[:n]))


def header(bpm, pkg_counts, title=b"title", artist=b"artist", creator=b"me",
           ojm=b"x.ojm", song_id=1, levels=(1, 2, 3, 0), genre=3,
           signature=b"ojn\x00"):
    h = b""
    h += struct.pack("<i", song_id)
    h += pad(signature, 4)
    h += struct.pack("<f", 2.9)
    h += struct.pack("<i", genre)
    h += struct.pack("<f", bpm)
    h += struct.pack("<4h", *levels)
    h += struct.pack("<3i", 10, 20, 30)
    h += struct.pack("<3i", 11, 21, 31)
    h += struct.pack("<3i", 12, 22, 32)
    h += struct.pack("<3i", *pkg_counts)
    h += struct.pack("<h", 29)
    h += struct.pack("<h", song_id % 30000)
    h += pad(b"genre-old", 20)
    h += struct.pack("<i", 0)
    h += struct.pack("<i", 0)
    h += pad(title, 64)
    h += pad(artist, 32)
    h += pad(creator, 32)
    h += pad(ojm, 32)
    h += struct.pack("<i", 0)
    h += struct.pack("<3i", 100, 110, 120)
    h += struct.pack("<3i", 300, 400, 500)
    h += struct.pack("<i", 600)
    assert len(h) == 300, len(h)
    return h


def pkg(measure, channel, events):
    """events: list of 4-byte strings"""
    return struct.pack("<ihh", measure, channel, len(events)) + b"".join(events)


EMPTY = b"\x00\x00\x00\x00"


def note_ev(kind, vol=0, pan=0, value=1):
    return struct.pack("<h", value) + bytes([vol * 16 + pan]) + bytes([kind])


def bpm_ev(v):
    return struct.pack("<f", v)


def gen_level(rng, n_measures, n_bpm_pkgs, cols, trailing_bpms=0,
              slot_choices=(1, 2, 3, 4, 6, 8, 12, 16, 192), shuffle=False):
    """Returns list of package bytes for one difficulty."""
    pkgs = []
    open_hold = {}
    for m in range(n_measures):
        for c in cols:
            if rng.random() < 0.25:
                continue
            slots = rng.choice(slot_choices)
            evs = []
            for s in range(slots):
                r = rng.random()
                if c in open_hold:
                    if r < 0.5:
                        evs.append(note_ev(3, rng.randrange(16), rng.randrange(16)))
                        del open_hold[c]
                    else:
                        evs.append(EMPTY)
                elif r < 0.35:
                    evs.append(note_ev(0, rng.randrange(16), rng.randrange(16),
                                       value=rng.randrange(1, 200)))
                elif r < 0.55:
                    evs.append(note_ev(2, rng.randrange(16), rng.randrange(16)))
                    open_hold[c] = True
                else:
                    evs.append(EMPTY)
            pkgs.append(pkg(m, c + 2, evs))
    # close the open holds in one more measure
    for c in sorted(open_hold):
        slots = rng.choice((1, 2, 4))
        evs = [EMPTY] * slots
        evs[rng.randrange(slots)] = note_ev(3)
        pkgs.append(pkg(n_measures, c + 2, evs))
    for _ in range(n_bpm_pkgs):
        m = rng.randrange(0, max(1, n_measures + 1))
        slots = rng.choice((1, 2, 3, 4, 8))
        evs = []
        for s in range(slots):
            if rng.random() < 0.6:
                evs.append(bpm_ev(rng.choice((60.0, 90.5, 120.0, 133.33, 180.0,
                                              240.0, 999.0, -120.0, 0.5))))
            else:
                evs.append(bpm_ev(0.0))
        pkgs.append(pkg(m, 1, evs))
    for t in range(trailing_bpms):
        m = n_measures + 2 + t * rng.randrange(1, 4)
        pkgs.append(pkg(m, 1, [bpm_ev(0.0), bpm_ev(rng.choice((75.0, 150.0, 222.0)))]))
    # autoplay channels are ignored by the reader
    if rng.random() < 0.5:
        pkgs.append(pkg(rng.randrange(0, n_measures + 1), rng.randrange(9, 23),
                        [note_ev(0), EMPTY]))
    if shuffle:
        # keep relative order of note packages per column (hold pairing),
        # but interleave the tempo packages anywhere
        notes = [p for p in pkgs if struct.unpack("<h", p[4:6])[0] != 1]
        bpms = [p for p in pkgs if struct.unpack("<h", p[4:6])[0] == 1]
        rng.shuffle(bpms)
        for b in bpms:
            notes.insert(rng.randrange(len(notes) + 1), b)
        pkgs = notes
    return pkgs


def build(rng, bpm, level_specs, **hkw):
    lvls = [gen_level(rng, **spec) for spec in level_specs]
    counts = [len(l) for l in lvls] + [0] * (3 - len(lvls))
    return header(bpm, counts[:3], **hkw) + b"".join(b"".join(l) for l in lvls)


def run_read(tag, b, via_file=False):
    emit("CASE", tag, "len", len(b), "file" if via_file else "bytes")
    before = hashlib.sha256(b).hexdigest()
    with warnings.catch_warnings(record=True) as wlog:
        warnings.simplefilter("always")
        _run_read(b, via_file, before)
    dump_warnings(wlog)
    emit(" input-after", hashlib.sha256(b).hexdigest() == before, type(b).__name__)


def dump_warnings(wlog):
    emit(" warnings", len(wlog))
    for w in wlog:
        emit("  W", w.category.__name__, str(w.message))


def _run_read(b, via_file, before):
    try:
        if via_file:
            fd, p = tempfile.mkstemp(suffix=".ojn")
            try:
                with os.fdopen(fd, "wb") as f:
                    f.write(b)
                ms = O2JMapSet.read_file(p)
                with open(p, "rb") as f:
                    emit(" file-after", hashlib.sha256(f.read()).hexdigest() == before)
            finally:
                os.unlink(p)
        else:
            ms = O2JMapSet.read(b)
    except Exception as e:  # noqa
        emit(" EXC", type(e).__name__)
    else:
        emit(" set", type(ms).__name__, "maps", len(ms.maps))
        dump_meta(ms)
        for m in ms.maps:
            dump_map(m)


# --------------------------------------------------------------------------
# direct read_meta
# --------------------------------------------------------------------------
def snapshot(x):
    if isinstance(x, (bytes, bytearray)):
        return bytes(x)
    if isinstance(x, memoryview):
        return x.tobytes()
    return repr(x)


def run_meta(tag, metadata, cls=O2JMapSetMeta, preset=False):
    emit("META", tag, type(metadata).__name__, cls.__name__, "preset", preset)
    before = snapshot(metadata)
    obj = cls()
    if preset:
        # receiver already holds values: a failed read must leave them alone
        obj.read_meta(header(99.0, (7, 8, 9), title=b"old title", song_id=77))
    with warnings.catch_warnings(record=True) as wlog:
        warnings.simplefilter("always")
        try:
            ret = obj.read_meta(metadata)
        except Exception as e:  # noqa
            emit(" EXC", type(e).__name__, str(e))
        else:
            emit(" ret", repr(ret))
    dump_warnings(wlog)
    dump_meta(obj)
    emit(" extra-attrs", sorted(k for k in vars(obj) if k not in META_FIELDS))
    emit(" input-after", snapshot(metadata) == before, type(metadata).__name__)


def main():
    rng = random.Random(150707)
    all_cols = list(range(7))

    # ---- generated OJN files ------------------------------------------
    n = 0
    for i in range(36):
        n_lv = rng.choice((1, 2, 3, 3, 3))
        specs = []
        for _ in range(n_lv):
            k = rng.choice((1, 2, 3, 4, 5, 6, 7, 7))
            specs.append(dict(
                n_measures=rng.choice((0, 1, 2, 3, 5, 8)),
                n_bpm_pkgs=rng.choice((0, 0, 1, 2, 4, 7)),
                cols=sorted(rng.sample(all_cols, k)),
                trailing_bpms=rng.choice((0, 0, 1, 3)),
                shuffle=rng.random() < 0.5,
            ))
        bpm = rng.choice((120.0, 60.0, 178.0, 133.7, 200.0, 1.0, -90.0))
        b = build(rng, bpm, specs, song_id=1000 + i,
                  title=("song %d" % i).encode(), levels=(i, i + 1, i + 2, 0))
        run_read("gen%02d" % i, b, via_file=(i % 5 == 0))
        n += 1

    # ---- hand-built OJN corner cases -------------------------------------
    # no packages at all in any difficulty
    run_read("empty", header(120.0, (0, 0, 0)))
    # only tempo events, no notes (all trailing)
    run_read("only-bpm", header(100.0, (3, 0, 0)) + pkg(0, 1, [bpm_ev(200.0)])
             + pkg(2, 1, [bpm_ev(0.0), bpm_ev(50.0)]) + pkg(1, 1, [bpm_ev(400.0)]))
    # tempo event exactly on a note, twice at the same measure, and before any note
    run_read("same-measure", header(120.0, (5, 0, 0))
             + pkg(1, 2, [note_ev(0), note_ev(0)])
             + pkg(1, 1, [bpm_ev(60.0), bpm_ev(240.0)])
             + pkg(1, 1, [bpm_ev(30.0)])
             + pkg(0, 1, [bpm_ev(480.0)])
             + pkg(3, 8, [note_ev(0)]))
    # zero-length hold: head and tail at the same measure position (1 slot pkgs)
    run_read("zero-hold", header(150.0, (2, 0, 0))
             + pkg(2, 4, [note_ev(2)]) + pkg(2, 4, [note_ev(3)]))
    # hold spanning many measures, tempo changes inside it, second difficulty too
    run_read("long-hold", header(150.0, (4, 2, 0))
             + pkg(0, 3, [EMPTY, note_ev(2, 5, 6)])
             + pkg(1, 1, [bpm_ev(75.0), bpm_ev(0.0), bpm_ev(300.0)])
             + pkg(4, 1, [bpm_ev(0.0), bpm_ev(0.0), bpm_ev(100.0)])
             + pkg(5, 3, [EMPTY, EMPTY, note_ev(3)])
             + pkg(0, 2, [note_ev(0)]) + pkg(7, 1, [bpm_ev(10.0)]))
    # head left open in difficulty 1, tail arrives in difficulty 2 (shared buffer)
    run_read("hold-across-levels", header(120.0, (1, 2, 0))
             + pkg(3, 5, [note_ev(2)])
             + pkg(0, 1, [bpm_ev(240.0)])
             + pkg(1, 5, [note_ev(3)]))
    # tail with no head -> KeyError
    run_read("tail-no-head", header(120.0, (1, 0, 0)) + pkg(0, 2, [note_ev(3)]))
    # header tempo zero with notes -> ZeroDivisionError; with no events -> fine
    run_read("bpm0-notes", header(0.0, (1, 0, 0)) + pkg(1, 2, [note_ev(0)]))
    run_read("bpm0-empty", header(0.0, (0, 0, 0)))
    run_read("bpm0-measure0", header(0.0, (1, 0, 0)) + pkg(0, 2, [note_ev(0)]))
    # measure-fraction package (outside the quantifier): exception type only
    run_read("measure-frac", header(120.0, (2, 0, 0))
             + pkg(0, 0, [struct.pack("<f", 0.75)]) + pkg(0, 2, [note_ev(0)]))
    # truncated data: fewer packages than the header says
    run_read("truncated-pkgs", header(120.0, (3, 0, 0)) + pkg(0, 2, [note_ev(0)]))
    # truncated inside a package
    run_read("truncated-mid", header(120.0, (1, 0, 0)) + pkg(0, 2, [note_ev(0)])[:-2])
    # negative measure numbers
    run_read("neg-measure", header(120.0, (3, 0, 0))
             + pkg(-2, 2, [note_ev(0), note_ev(0)]) + pkg(-1, 1, [bpm_ev(60.0)])
             + pkg(1, 3, [note_ev(0)]))
    # short header
    run_read("short-header", header(120.0, (0, 0, 0))[:200])
    # bundled files
    here = os.path.dirname(os.path.abspath(reamber.__file__))
    for fn in ("o2ma120.ojn", "o2ma178.ojn"):
        p = os.path.join(os.path.dirname(here), "rsc", "maps", "o2jam", fn)
        with open(p, "rb") as f:
            run_read("bundled-" + fn, f.read())

    # ---- header variations through O2JMapSet.read ----------------------
    body = pkg(0, 2, [note_ev(0), note_ev(0)]) + pkg(1, 1, [bpm_ev(60.0)])
    variants = [
        dict(title=b"A" * 64, artist=b"B" * 32, creator=b"C" * 32, ojm=b"D" * 32),
        dict(title=b"", artist=b"", creator=b"", ojm=b"", signature=b""),
        dict(title=b"nul\x00in\x00the\x00middle", artist=b"\x00lead", creator=b"x\x00"),
        dict(title=bytes(range(100, 164)), artist=bytes(range(200, 232)),
             creator=b"caf\xc3\xa9 \xff\xfe", signature=b"\xffjn\x80"),
        dict(title="\u6b4c".encode("utf-16-le") * 8, ojm="\uc74c\uc545".encode("euc-kr")),
        dict(song_id=-5, genre=-1, levels=(-1, 32767, -32768, 7)),
        dict(song_id=2 ** 31 - 1, genre=10, levels=(0, 0, 0, 0), signature=b"new\x00"),
    ]
    for i, kw in enumerate(variants):
        run_read("hdr%02d" % i, header(rng.choice((120.0, 0.25, 1e9, -3.5)),
                                       (2, 0, 0), **kw) + body,
                 via_file=(i % 3 == 0))
    # special float header tempi (no events, so no timing involved)
    for i, v in enumerate((float("nan"), float("inf"), -0.0, 1e-40)):
        run_read("hdrfloat%d" % i, header(v, (0, 0, 0)))
    # package counts that exceed / are negative
    run_read("neg-pkgcount", header(120.0, (-1, 0, 2)) + body)

    # ---- direct read_meta ----------------------------------------------
    from reamber.o2jam.O2JMapSet import O2JMapSet as MS
    full = header(133.25, (4, 5, 6), title=b"direct", song_id=4242)
    run_meta("full", full)
    run_meta("full-mapset", full, cls=MS)
    run_meta("full-preset", full, preset=True)
    run_meta("bytearray", bytearray(full))
    run_meta("memoryview", memoryview(full))
    run_meta("longer", full + b"\x01\x02\x03" * 50)
    for i in range(14):
        run_meta("random%02d" % i, bytes(rng.randrange(256) for _ in range(300)),
                 cls=(MS if i % 2 else O2JMapSetMeta))
    run_meta("all-zero", bytes(300))
    run_meta("all-ff", b"\xff" * 300)
    # every kind of truncation: inside / between fields, scalar / array / char
    for n_ in (0, 1, 3, 4, 7, 8, 12, 19, 20, 24, 27, 28, 39, 40, 75, 76, 78, 80,
               99, 100, 104, 108, 150, 172, 203, 204, 236, 268, 272, 283, 284,
               295, 296, 298, 299):
        run_meta("short%03d" % n_, full[:n_], preset=(n_ % 2 == 0))
    run_meta("short-bytearray", bytearray(full[:290]), preset=True)
    # wrong types
    run_meta("str", "x" * 300)
    run_meta("none", None)
    run_meta("list", list(full), preset=True)
    run_meta("tuple-bytes", tuple(full[i:i + 1] for i in range(300)))
    run_meta("int", 300)

    # class level layout tables are untouched
    emit("TABLES", O2JMapSetMeta.BYTE_COUNT, O2JMapSetMeta.BYTE_SIZES,
         O2JMapSetMeta.BYTE_FORMATS)

    text = "\n".join(OUT)
    if os.environ.get("DEMO_DUMP"):
        with open(os.environ["DEMO_DUMP"], "w") as f:
            f.write(text)
    print(hashlib.sha256(text.encode("utf-8")).hexdigest())


if __name__ == "__main__":
    main()
