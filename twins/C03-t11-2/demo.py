"""Demo for C03: exercises SMMapSet.write / SMMapSetMeta._write_metadata /
SMMap.write on a broad, deterministic set of in-memory mapsets and prints a
digest over everything observable.

Run:  cd /tmp/wt7/C03 && PYTHONPATH=/tmp/wt7/C03 /venv/bin/python demo.py
"""
import hashlib
import os
import random
import tempfile
import warnings
from copy import deepcopy
from fractions import Fraction

import numpy as np
import pandas as pd

warnings.filterwarnings("ignore")

from reamber.sm.SMMapSet import SMMapSet
from reamber.sm.SMMap import SMMap
from reamber.sm.SMMapMeta import SMMapChartTypes, SMMapDifficulty
from reamber.sm.lists.SMBpmList import SMBpmList
from reamber.sm.lists.SMStopList import SMStopList
from reamber.sm.lists.notes import (
    SMHitList,
    SMHoldList,
    SMFakeList,
    SMLiftList,
    SMKeySoundList,
    SMMineList,
    SMRollList,
)

FOCUS = "map"  # which part is called directly in addition to write()

random.seed(120302)
OUT = []


def emit(*parts):
    OUT.append(" | ".join(str(p) for p in parts))


def dump_df(tag, df):
    emit(tag, "columns", list(df.columns))
    emit(tag, "dtypes", [str(t) for t in df.dtypes])
    emit(tag, "index", type(df.index).__name__, list(df.index))
    for row in df.itertuples(index=True):
        emit(tag, "row", [(type(v).__name__, repr(v)) for v in row])


META_FIELDS = [
    "title", "subtitle", "artist", "title_translit", "subtitle_translit",
    "artist_translit", "genre", "credit", "banner", "background", "lyrics_path",
    "cd_title", "music", "offset", "sample_start", "sample_length",
    "display_bpm", "selectable", "bg_changes", "fg_changes",
]
MAP_FIELDS = ["chart_type", "description", "difficulty", "difficulty_val",
              "groove_radar"]


def dump_mapset(tag, ms):
    for f in META_FIELDS:
        v = getattr(ms, f)
        emit(tag, "meta", f, type(v).__name__, repr(v))
    emit(tag, "n_maps", len(ms.maps))
    for i, m in enumerate(ms.maps):
        for f in MAP_FIELDS:
            v = getattr(m, f)
            emit(tag, i, "mapmeta", f, type(v).__name__, repr(v))
        emit(tag, i, "objs_keys", list(m.objs.keys()))
        for k, lst in m.objs.items():
            emit(tag, i, k, type(lst).__name__)
            dump_df(f"{tag}.{i}.{k}", lst.df)


def attempt(tag, fn):
    try:
        r = fn()
    except Exception as e:  # noqa
        emit(tag, "RAISED", type(e).__name__)
        return None
    return r


# --------------------------------------------------------------------------
# generators

CHARTS = [
    (SMMapChartTypes.DANCE_SINGLE, 4),
    (SMMapChartTypes.DANCE_DOUBLE, 8),
    (SMMapChartTypes.DANCE_SOLO, 6),
    (SMMapChartTypes.DANCE_COUPLE, 4),
    (SMMapChartTypes.DANCE_THREEPANEL, 3),
    (SMMapChartTypes.DANCE_ROUTINE, 8),
    (SMMapChartTypes.KB7_SINGLE, 7),
]
DIFFS = [SMMapDifficulty.BEGINNER, SMMapDifficulty.EASY, SMMapDifficulty.MEDIUM,
         SMMapDifficulty.HARD, SMMapDifficulty.CHALLENGE, SMMapDifficulty.EDIT]
BPM_POOL = [60.0, 90.0, 100.0, 120.0, 125.0, 150.0, 160.0, 180.0, 200.0, 240.0,
            133.33, 174.5]
DENS = [1, 2, 3, 4, 6, 8, 12, 16, 24, 32, 48]
WORDS = ["", "Alpha", "beta gamma", "Δelta", "曲名", "a-b_c", "x.ogg", "bg.png",
         "120", "*", "90-180", "Some Credit", " pad "]


def make_tempo(first_offset, on_measure, n_bpm):
    """Returns (list of (offset, bpm, beat)), beat is cumulative beat of change"""
    rows = []
    offset = first_offset
    beat = Fraction(0)
    bpm = random.choice(BPM_POOL)
    rows.append((offset, bpm, beat))
    for _ in range(n_bpm - 1):
        if on_measure:
            d = Fraction(4 * random.randint(1, 4))
        else:
            d = Fraction(4 * random.randint(0, 3)) + Fraction(random.randint(1, 3))
        offset = offset + float(d) * 60000.0 / bpm
        beat += d
        bpm = random.choice(BPM_POOL)
        rows.append((offset, bpm, beat))
    return rows


def beat_to_offset(tempo, beat):
    """Offset of a cumulative beat under the tempo rows"""
    cur = tempo[0]
    for row in tempo:
        if row[2] <= beat:
            cur = row
    return cur[0] + float(beat - cur[2]) * 60000.0 / cur[1]


def random_beats(n, max_beat):
    out = []
    for _ in range(n):
        den = random.choice(DENS)
        out.append(Fraction(random.randint(0, max_beat * den), den))
    return out


def make_map(tempo, bpm_df_kind, stops, scenario):
    chart, keys = random.choice(CHARTS)
    m = SMMap()
    m.chart_type = chart
    m.description = random.choice(WORDS)
    m.difficulty = random.choice(DIFFS)
    m.difficulty_val = random.randint(1, 25)
    m.groove_radar = [round(random.random(), 3) for _ in range(5)]
    if scenario == "int_radar":
        m.groove_radar = [1, 2, 3, 4, 5]
    if scenario == "empty_radar":
        m.groove_radar = []

    if bpm_df_kind == "int":
        m.bpms = SMBpmList.from_dict(
            [dict(offset=o, bpm=int(b), metronome=4) for o, b, _ in tempo]
        )
    elif bpm_df_kind == "dictcols":
        m.bpms = SMBpmList.from_dict(
            dict(offset=[o for o, _, _ in tempo], bpm=[b for _, b, _ in tempo])
        )
    else:
        m.bpms = SMBpmList.from_dict(
            [dict(offset=o, bpm=b, metronome=4.0) for o, b, _ in tempo]
        )
    m.stops = stops

    max_beat = int(tempo[-1][2]) + 12
    points = set()  # (beat, col) of single notes, heads and tails
    spans = []  # (head, tail, col) of long notes

    def free(b, col, tail=None):
        """Long notes never overlap anything else in their column"""
        for h, t, c in spans:
            if c == col and not ((tail if tail is not None else b) < h or b > t):
                return False
        if tail is not None:
            return not any(c == col and b <= p <= tail for p, c in points)
        return scenario == "ties" or (b, col) not in points

    def notes(n, hold=False):
        rows = []
        for b in random_beats(n, max_beat):
            col = random.randrange(keys)
            o = beat_to_offset(tempo, b)
            if hold:
                ln = Fraction(random.randint(1, 16), random.choice([1, 2, 4, 8]))
                if not free(b, col, b + ln):
                    continue
                spans.append((b, b + ln, col))
                t = beat_to_offset(tempo, b + ln)
                rows.append(dict(offset=o, column=col, length=t - o))
            else:
                if not free(b, col):
                    continue
                points.add((b, col))
                rows.append(dict(offset=o, column=col))
        if scenario == "sorted":
            rows.sort(key=lambda r: r["offset"])
        if scenario == "float_cols":
            for r in rows:
                r["column"] = float(r["column"])
        return rows

    sizes = dict(hits=12, holds=4, rolls=3, fakes=3, keysounds=3, lifts=3, mines=4)
    if scenario == "only_mines":
        sizes = dict(hits=0, holds=0, rolls=0, fakes=0, keysounds=0, lifts=0, mines=5)
    if scenario == "only_holds":
        sizes = dict(hits=0, holds=6, rolls=0, fakes=0, keysounds=0, lifts=0, mines=0)
    if scenario == "no_notes":
        sizes = dict.fromkeys(sizes, 0)
    if scenario == "single_hit":
        sizes = dict.fromkeys(sizes, 0)
        sizes["hits"] = 1
    if scenario == "sparse":
        sizes = {k: random.choice([0, 0, 1, 2]) for k in sizes}
    if scenario == "dense":
        sizes = {k: 3 * v for k, v in sizes.items()}

    m.hits = SMHitList.from_dict(notes(sizes["hits"]))
    m.holds = SMHoldList.from_dict(notes(sizes["holds"], True))
    m.rolls = SMRollList.from_dict(notes(sizes["rolls"], True))
    m.fakes = SMFakeList.from_dict(notes(sizes["fakes"]))
    m.keysounds = SMKeySoundList.from_dict(notes(sizes["keysounds"]))
    m.lifts = SMLiftList.from_dict(notes(sizes["lifts"]))
    m.mines = SMMineList.from_dict(notes(sizes["mines"]))
    if scenario == "reindexed" and len(m.hits):
        # row labels that are not 0..n-1 and rows in shuffled order
        df = m.hits.df.sample(frac=1.0, random_state=7)
        df.index = [10 * i + 3 for i in range(len(df))]
        m.hits = SMHitList(df)
    return m


def make_mapset(scenario):
    ms = SMMapSet()
    for f in ["title", "subtitle", "artist", "title_translit", "subtitle_translit",
              "artist_translit", "genre", "credit", "banner", "background",
              "lyrics_path", "cd_title", "music", "display_bpm", "bg_changes",
              "fg_changes"]:
        setattr(ms, f, random.choice(WORDS))
    ms.selectable = random.choice([True, False])
    if scenario == "selectable_int":
        ms.selectable = random.choice([0, 1, 2])
    ms.sample_start = random.choice([0.0, 1500.0, 12345.678, 60000.0])
    ms.sample_length = random.choice([10.0, 10000.0, 0.0, 7777.7])
    first = random.choice([0.0, -0.0, 250.0, -250.0, 1234.5, -98.765, 10000.0])
    if scenario == "int_offset":
        first = random.choice([0, 500, -500])
    ms.offset = first

    on_measure = scenario not in ("off_measure", "off_measure2")
    n_bpm = random.randint(1, 4)
    if scenario == "one_bpm":
        n_bpm = 1
    tempo = make_tempo(first, on_measure, n_bpm)

    stops = SMStopList([])
    if scenario in ("stops", "stops2"):
        max_beat = int(tempo[-1][2]) + 8
        rows = []
        for _ in range(random.randint(1, 3)):
            b = Fraction(random.randint(0, max_beat * 4), 4)
            rows.append(dict(offset=beat_to_offset(tempo, b),
                             length=random.choice([100.0, 250.0, 62.5, 1000.0])))
        stops = SMStopList.from_dict(rows)

    bpm_kind = {"int_bpm": "int", "dictcols_bpm": "dictcols"}.get(scenario, "float")
    n_maps = random.randint(1, 3)
    if scenario == "no_maps":
        n_maps = 0
    ms.maps = [make_map(tempo, bpm_kind, stops, scenario) for _ in range(n_maps)]
    if scenario == "no_bpms" and ms.maps:
        ms.maps[0].bpms = SMBpmList([])
    return ms


# --------------------------------------------------------------------------
# observation

def observe(tag, ms, deep=True):
    before = deepcopy(ms)
    dump_mapset(tag + ".in", ms)

    if FOCUS == "metadata":
        lines = attempt(tag + ".meta", ms._write_metadata)
        if lines is not None:
            emit(tag, "meta_type", type(lines).__name__, len(lines))
            for ln in lines:
                emit(tag, "meta_line", type(ln).__name__, repr(ln))
    else:
        for i, m in enumerate(ms.maps):
            lines = attempt(f"{tag}.map{i}", m.write)
            if lines is not None:
                emit(tag, i, "map_type", type(lines).__name__, len(lines))
                for ln in lines:
                    emit(tag, i, "map_line", type(ln).__name__, repr(ln))

    text = attempt(tag + ".write", ms.write)
    if text is not None:
        emit(tag, "text", type(text).__name__, repr(text))

    with tempfile.TemporaryDirectory() as d:
        p = os.path.join(d, "out.sm")
        r = attempt(tag + ".write_file", lambda: ms.write_file(p))
        emit(tag, "write_file_ret", repr(r), os.path.exists(p))
        if os.path.exists(p):
            with open(p, "rb") as f:
                emit(tag, "file_bytes", hashlib.sha256(f.read()).hexdigest())

    # the input is not modified
    dump_mapset(tag + ".after", ms)
    dump_mapset(tag + ".before_copy", before)

    if text is not None and deep:
        back = attempt(tag + ".read", lambda: SMMapSet.read(text))
        if back is not None:
            dump_mapset(tag + ".back", back)
            text2 = attempt(tag + ".rewrite", back.write)
            if text2 is not None:
                emit(tag, "text2_equal", text2 == text)
                emit(tag, "text2", repr(text2))


SCENARIOS = [
    "plain", "plain", "plain", "sorted", "ties", "float_cols", "only_mines",
    "only_holds", "no_notes", "single_hit", "sparse", "sparse", "dense",
    "reindexed", "int_radar", "empty_radar", "selectable_int", "int_offset",
    "one_bpm", "off_measure", "off_measure2", "stops", "stops2", "int_bpm",
    "dictcols_bpm", "no_maps", "no_bpms", "plain", "sorted", "sparse",
    "off_measure", "stops", "dense", "ties", "one_bpm", "plain", "float_cols",
    "reindexed", "int_offset", "selectable_int",
]

for n, sc in enumerate(SCENARIOS):
    ms_ = attempt(f"gen{n}", lambda: make_mapset(sc))
    if ms_ is None:
        continue
    observe(f"S{n:02d}.{sc}", ms_)

# a default-constructed mapset with one default map
attempt("default", lambda: observe("default", SMMapSet([SMMap()])))

# ---- mapsets obtained by read, by rate change and by conversion -----------
ROOT = os.path.dirname(os.path.abspath(__import__("reamber").__file__))
RSC = os.path.join(os.path.dirname(ROOT), "rsc", "maps")

for name in ["Gravity", "ICFITU", "Caravan", "Escapes"]:
    ms_ = attempt("read." + name,
                  lambda: SMMapSet.read_file(os.path.join(RSC, "sm", name + ".sm")))
    if ms_ is None:
        continue
    observe("file." + name, ms_, deep=False)
    for by in (1.5, 0.75):
        r = attempt(f"rate.{name}.{by}", lambda: ms_.rate(by))
        if r is not None:
            observe(f"rate.{name}.{by}", r, deep=False)

# rate change of generated mapsets
for n, sc in enumerate(["plain", "sorted", "stops", "one_bpm"]):
    ms_ = make_mapset(sc)
    r = attempt(f"grate{n}", lambda: ms_.rate(random.choice([0.5, 1.25, 2.0])))
    if r is not None:
        observe(f"grate{n}.{sc}", r)


def convert_osu():
    from reamber.osu.OsuMap import OsuMap
    from reamber.algorithms.convert.OsuToSM import OsuToSM
    osu_dir = os.path.join(RSC, "osu")
    names = ["AddictionCut.osu", "Caravan.osu", "Gravity.osu", "Escapes.osu"]
    for nm in names:
        def go():
            osu = OsuMap.read_file(os.path.join(osu_dir, nm))
            return OsuToSM.convert(osu)
        sm = attempt("conv.osu." + nm, go)
        if sm is not None:
            observe("conv.osu." + nm, sm, deep=False)


def convert_qua():
    from reamber.quaver.QuaMap import QuaMap
    from reamber.algorithms.convert.QuaToSM import QuaToSM
    qua_dir = os.path.join(RSC, "qua")
    names = ["CarryMeAway.qua"]
    for nm in names:
        def go():
            q = QuaMap.read_file(os.path.join(qua_dir, nm))
            return QuaToSM.convert(q)
        sm = attempt("conv.qua." + nm, go)
        if sm is not None:
            observe("conv.qua." + nm, sm, deep=False)


def convert_bms():
    from reamber.bms.BMSMap import BMSMap
    from reamber.algorithms.convert.BMSToSM import BMSToSM
    for nm in ["take.bms", "searoad.bml"]:
        def go():
            b = BMSMap.read_file(os.path.join(RSC, "bms", nm))
            return BMSToSM.convert(b)
        sm = attempt("conv.bms." + nm, go)
        if sm is not None:
            observe("conv.bms." + nm, sm, deep=False)


attempt("convert_bms", convert_bms)
attempt("convert_osu", convert_osu)
attempt("convert_qua", convert_qua)

blob = "\n".join(OUT).encode("utf8")
if os.environ.get("DEMO_DUMP"):
    with open(os.environ["DEMO_DUMP"], "wb") as f:
        f.write(blob)
print("DIGEST", hashlib.sha256(blob).hexdigest())
