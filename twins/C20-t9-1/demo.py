"""Demo for Pattern.group / v_mask / h_mask.  Prints ONE line: DIGEST <sha256>."""
import hashlib
import random

import numpy as np
import pandas as pd

from reamber.algorithms.pattern import Pattern
from reamber.base.Hit import Hit
from reamber.base.Hold import Hold, HoldTail
from reamber.base.lists.notes.HitList import HitList
from reamber.base.lists.notes.HoldList import HoldList
from reamber.osu.OsuHit import OsuHit
from reamber.osu.OsuHold import OsuHold
from reamber.osu.lists.notes.OsuHitList import OsuHitList
from reamber.osu.lists.notes.OsuHoldList import OsuHoldList

random.seed(20200)
OUT = []


def emit(*parts):
    OUT.append(" | ".join(str(p) for p in parts))


def cell(v):
    if isinstance(v, type):
        return "T:" + v.__name__
    return f"{type(v).__name__}:{v!r}"


def dump_array(a):
    """Canonical dump of a (possibly structured / record) array."""
    a_type = type(a).__name__
    if a.dtype.names:
        rows = [
            "(" + ",".join(cell(x) for x in (r.tolist() if hasattr(r, "tolist") else r)) + ")"
            for r in a.reshape(-1)
        ]
        return f"{a_type} shape={a.shape} dtype={a.dtype!r} names={a.dtype.names} rows=[{';'.join(rows)}]"
    return f"{a_type} shape={a.shape} dtype={a.dtype!r} vals={[cell(x) for x in a.reshape(-1).tolist()]}"


def dump_df(df):
    return (
        f"cols={list(df.columns)} dtypes={[str(d) for d in df.dtypes]} "
        f"index={type(df.index).__name__}:{list(df.index)} "
        f"rows={[[cell(x) for x in row] for row in df.itertuples(index=False, name=None)]}"
    )


def call(label, fn):
    try:
        res = fn()
    except Exception as e:  # noqa
        emit(label, "EXC", type(e).__name__)
        return None
    return res


def run_group(label, p, v, h, jack):
    before = dump_df(p.df)
    try:
        groups = p.group(v, h, jack)
    except Exception as e:  # noqa
        emit(label, "group", v, h, jack, "EXC", type(e).__name__)
    else:
        emit(label, "group", v, h, jack, type(groups).__name__, len(groups))
        for k, g in enumerate(groups):
            emit("  g", k, dump_array(g))
        # partition sanity, part of the digest as well
        emit("  total", sum(len(g) for g in groups), len(p))
    emit("  df_unchanged", dump_df(p.df) == before)


V_WINDOWS = [0, 0.0, 1, 49.5, 50, 50.0, 100, 250.25, 10**9]
H_WINDOWS = [None, 0, 1, 2, 3, 9]


def rand_pattern(n, keys, float_offsets, with_holds):
    cols, offs, types = [], [], []
    grid = [random.choice([0, 10, 25, 50, 100]) * i for i in range(1, 8)]
    for _ in range(n):
        c = random.randrange(keys)
        o = random.choice(grid) + random.choice([0, 0, 0, 1, 50, -50, -300])
        if float_offsets:
            o = o + random.choice([0.0, 0.5, 0.25])
        r = random.random()
        if with_holds and r < 0.3:
            ln = random.choice([0, 1, 50, 100, 400])
            cols += [c, c]
            offs += [o, o + ln]
            types += [Hold, HoldTail]
        else:
            cols.append(c)
            offs.append(o)
            types.append(random.choice([Hit, OsuHit]))
    # unsorted rows on purpose
    order = list(range(len(cols)))
    random.shuffle(order)
    return (
        [cols[i] for i in order],
        [offs[i] for i in order],
        [types[i] for i in order],
    )


# ---------------------------------------------------------------- fixed cases
FIXED = {
    "empty": ([], [], []),
    "single": ([2], [10], [Hit]),
    "conftest": (
        [0, 1, 1, 2, 2, 3, 2],
        [0, 0, 100, 100, 200, 200, 300],
        [Hit, Hit, Hit, Hold, HoldTail, Hit, Hit],
    ),
    "all_same_time": ([0, 1, 2, 3, 1, 1, 0], [5] * 7, [Hit] * 7),
    "all_same_col": ([3] * 6, [0, 0, 10, 20, 20, 70], [Hit] * 6),
    "negative_offsets": ([0, 1, 0, 2, 1], [-100, -100, -60, -50.5, 0], [Hit] * 5),
    "zero_len_hold": ([1, 1, 2], [10, 10, 10], [Hold, HoldTail, Hit]),
    "float_ties": ([0, 1, 2, 0, 1], [0.1 + 0.2, 0.3, 0.3, 50.3, 50.30000000000001], [Hit] * 5),
    "ten_keys": (list(range(10)) * 2, [0] * 10 + [40] * 10, [Hit] * 20),
    "unsorted": ([3, 0, 2, 1, 0, 3], [300, 0, 200, 100, 100, 0], [Hit, Hold, Hit, Hit, HoldTail, Hit]),
}

for name, (c, o, t) in FIXED.items():
    c0, o0, t0 = list(c), list(o), list(t)
    p = call(name, lambda: Pattern(c, o, t))
    emit(name, "args_unchanged", c == c0 and o == o0 and t == t0)
    emit(name, "df", dump_df(p.df))
    for v in V_WINDOWS:
        for h in H_WINDOWS:
            for jack in (True, False):
                run_group(name, p, v, h, jack)
    # default arguments
    groups = p.group()
    emit(name, "default", [dump_array(g) for g in groups])

# ---------------------------------------------------------------- error cases
p = Pattern(*FIXED["conftest"])
for v, h in [(-1, None), (-0.0001, 2), (0, -1), (10, -5), (-1, -1)]:
    for jack in (True, False):
        run_group("errors", p, v, h, jack)
run_group("errors-empty", Pattern([], [], []), -1, None, True)
run_group("errors-empty", Pattern([], [], []), 1, -1, True)

# ---------------------------------------------------------------- random cases
for case in range(48):
    n = random.choice([1, 2, 3, 5, 8, 13, 21, 34])
    keys = random.choice([1, 2, 4, 4, 7, 10])
    c, o, t = rand_pattern(n, keys, float_offsets=case % 3 == 0, with_holds=case % 2 == 0)
    p = Pattern(c, o, t)
    name = f"rand{case}"
    emit(name, "df", dump_df(p.df))
    for _ in range(10):
        v = random.choice(V_WINDOWS + [random.randrange(0, 400), random.random() * 200])
        h = random.choice(H_WINDOWS)
        jack = random.random() < 0.5
        run_group(name, p, v, h, jack)
    # repeated call gives the same answer (no hidden state)
    run_group(name, p, 50, None, True)
    run_group(name, p, 50, None, True)

# ------------------------------------------------------------- from_note_lists
hits = HitList([Hit(0, 0), Hit(0, 1), Hit(100, 1), Hit(200, 3), Hit(300, 2), Hit(300, 2)])
holds = HoldList([Hold(100, 2, 100), Hold(100, 0, 0), Hold(250, 3, 500)])
ohits = OsuHitList([OsuHit(offset=o, column=c) for o, c in [(0, 0), (30, 1), (30, 2), (90, 1)]])
oholds = OsuHoldList([OsuHold(offset=o, column=c, length=l) for o, c, l in [(0, 3, 90), (60, 0, 30)]])
for tails in (True, False):
    for lists, nm in [
        ([hits, holds], "base"),
        ([ohits, oholds], "osu"),
        ([holds], "holds_only"),
        ([HitList([]), holds, OsuHitList([])], "with_empty"),
        ([], "no_lists"),
    ]:
        p = Pattern.from_note_lists(lists, include_tails=tails)
        emit("fnl", nm, tails, dump_df(p.df))
        for v, h, jack in [(0, None, True), (50, None, True), (50, 1, False), (100, 0, True), (1000, None, False), (1000, 2, True)]:
            run_group(f"fnl-{nm}-{tails}", p, v, h, jack)

# ------------------------------------------------------- direct mask calls
p = Pattern(*FIXED["unsorted"])
ar = p.df.to_records(index=False)
ar_before = dump_array(ar)
big = Pattern(*rand_pattern(30, 5, True, True)).df.to_records(index=False)
big_before = dump_array(big)
for a, nm in [(ar, "ar"), (ar[:0], "ar_empty"), (ar[2:], "ar_tail"), (big, "big"), (big[::2], "big_strided")]:
    offs = sorted(set(a["offset"].tolist()))
    probes = offs[:6] + [-10**6, 10**6, 0, 0.5]
    if offs:
        probes += [offs[0] - 1, offs[-1] + 1, (offs[0] + offs[-1]) / 2]
    for off in probes:
        for v in [0, 1, 50, 100.5, 10**7]:
            for jack in (True, False):
                m = call(f"v_mask {nm}", lambda: Pattern.v_mask(a, off, v, jack))
                if m is not None:
                    emit("v_mask", nm, off, v, jack, dump_array(m))
    for col in [-3, 0, 1, 2, 3, 4, 12]:
        for h in [0, 1, 2, 5, 100]:
            m = call(f"h_mask {nm}", lambda: Pattern.h_mask(a, col, h))
            if m is not None:
                emit("h_mask", nm, col, h, dump_array(m))
emit("masks_inputs_unchanged", dump_array(ar) == ar_before, dump_array(big) == big_before)

text = "\n".join(OUT)
import os
if os.environ.get("DEMO_DUMP"): open(os.environ["DEMO_DUMP"], "w").write(text)
print("DIGEST", hashlib.sha256(text.encode("utf-8")).hexdigest())
