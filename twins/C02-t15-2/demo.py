"""Demonstration for property C02 (StepMania reading).

Generates varied .sm texts with a fixed seed, reads them through the public
API (SMMapSet.read with a str, SMMapSet.read with a list of lines,
SMMapSet.read_file) and prints ONE sha256 digest on stdout over a canonical
text of: every header field of the set, every chart's header fields, every
object list (class, columns, dtypes, row labels, exact float values), the type
and message of any exception raised, and the state of the inputs afterwards.

Run from the worktree root:
    cd /tmp/r15/C02 && PYTHONPATH=/tmp/r15/C02 /venv/bin/python demo.py
"""
import copy
import hashlib
import logging
import os
import random
import sys
import tempfile
from dataclasses import fields

logging.disable(logging.CRITICAL)

import reamber  # noqa: E402
from reamber.sm.SMMapSet import SMMapSet  # noqa: E402
from reamber.sm.SMMapSetMeta import SMMapSetMeta  # noqa: E402

print(reamber.__file__, file=sys.stderr)

SEED = 20261001
rng = random.Random(SEED)

CHART_TYPES = [
    ("dance-single", 4),
    ("dance-double", 8),
    ("dance-solo", 6),
    ("kb7-single", 7),
    ("dance-threepanel", 3),
    ("pump-single", 5),
    ("pnm-nine", 9),
    ("techno-double8", 16),
]
DIFFS = ["Beginner", "Easy", "Medium", "Hard", "Challenge", "Edit"]
ROWS = [4, 4, 8, 8, 12, 16, 16, 24, 32, 48, 64, 96, 192]
SINGLE = ["1", "M", "L", "F", "K"]

LIST_NAMES = [
    "hits", "holds", "rolls", "mines", "lifts", "fakes", "keysounds",
    "bpms", "stops",
]


# --------------------------------------------------------------------------
# generation
# --------------------------------------------------------------------------
def gen_bpms(r, n_measures, on_grid=48):
    """'beat=bpm' strings, first one at beat 0, the others on the 1/48 grid"""
    n = r.choice([1, 1, 2, 3, 5])
    total = n_measures * 4 * on_grid
    ticks = sorted(r.sample(range(1, max(total, n + 1)), n - 1)) if n > 1 else []
    out = ["0.000=%s" % r.choice(["120.000", "60", "173.5", "200.25", "99.999"])]
    for t in ticks:
        bpm = r.choice([60, 90.5, 120, 133.333, 150, 180, 240.75, 300, 33.3])
        out.append("%s=%s" % (repr(t / on_grid), repr(float(bpm))))
    if r.random() < 0.25:
        r.shuffle(out)  # unsorted #BPMS
    return out


def gen_chart(r, keys, n_measures, *, density=0.25, dangling=None,
              comments=0.0, blank=0.0, crlf=False, indent=""):
    """Returns the note data of one chart (text after the 5 header fields).

    dangling: None | "head" (hold head never closed, then a later pair)
              | "tail" (tail with no head) | "lasthead" (unclosed final head)
    """
    state = [None] * keys  # None | "2" | "4"
    measures = []
    for m in range(n_measures):
        n_rows = r.choice(ROWS)
        rows = []
        for _ in range(n_rows):
            row = []
            for c in range(keys):
                x = r.random()
                if state[c] is not None:
                    if x < density:
                        row.append("3")
                        state[c] = None
                    else:
                        row.append("0")
                else:
                    if x < density * 0.5:
                        row.append(r.choice(SINGLE))
                    elif x < density * 0.75:
                        row.append("2")
                        state[c] = "2"
                    elif x < density:
                        row.append("4")
                        state[c] = "4"
                    else:
                        row.append("0")
            rows.append("".join(row))
        measures.append(rows)
    # close the open holds/rolls in one closing measure
    closing = ["".join("3" if s is not None else "0" for s in state)] + [
        "0" * keys
    ] * 3
    measures.append(closing)

    if dangling == "head":
        # an unclosed head in column 0 followed by a properly closed one
        measures.append(["2" + "0" * (keys - 1), "0" * keys,
                         "2" + "0" * (keys - 1), "3" + "0" * (keys - 1)])
    elif dangling == "lasthead":
        measures.append(["0" * (keys - 1) + "4", "0" * keys, "0" * keys,
                         "0" * keys])
    elif dangling == "tail":
        measures.append(["0" * keys, "0" * (keys - 1) + "3", "0" * keys,
                         "0" * keys])

    nl = "\r\n" if crlf else "\n"
    out = []
    for i, rows in enumerate(measures):
        lines = []
        if r.random() < comments:
            lines.append("%s// measure %d; with: odd, chars #NOTES: inside" % (indent, i))
        for row in rows:
            line = indent + row
            if r.random() < comments:
                line += r.choice(["  // c", " //x;y:z,w", "//", " // 1234"])
            lines.append(line)
            if r.random() < blank:
                lines.append(r.choice(["", "   ", "\t"]))
        out.append(nl.join(lines))
    sep = nl + "," + (("  // measure end" if r.random() < comments else "")) + nl
    return sep.join(out)


def gen_file(r, *, n_charts, n_measures, offset="0.000", stops=None,
             with_offset=True, with_bpms=True, chart_types=None, crlf=False,
             comments=0.0, blank=0.0, dangling=None, indent="", density=0.25,
             header_comment=False, trailing_junk=""):
    nl = "\r\n" if crlf else "\n"
    head = []
    if header_comment:
        head.append("// file made by a generator; really: yes, it was")
    head.append("#TITLE:Song %d;" % r.randrange(1000))
    head.append("#SUBTITLE: sub %s ;" % r.choice(["a", "b b", ""]))
    head.append("#ARTIST:Art:ist %d;" % r.randrange(1000))
    head.append("#TITLETRANSLIT:;")
    head.append("#CREDIT:me;" + ("  // who else" if header_comment else ""))
    head.append("#MUSIC:song.ogg;")
    if with_offset:
        head.append("#OFFSET:%s;" % offset)
    head.append("#SAMPLESTART:%s;" % r.choice(["12.5", "0.000", "33.125"]))
    head.append("#SAMPLELENGTH:%s;" % r.choice(["10", "15.250"]))
    head.append("#SELECTABLE:%s;" % r.choice(["YES", "NO"]))
    if with_bpms:
        bp = gen_bpms(r, n_measures)
        head.append("#BPMS:" + ("," + nl).join(bp) + nl + ";")
    if stops is not None:
        head.append("#STOPS:%s;" % stops)
    head.append("#BGCHANGES:;")
    body = []
    for i in range(n_charts):
        name, keys = (chart_types[i] if chart_types else r.choice(CHART_TYPES))
        dang = dangling if i == n_charts - 1 else None
        notes = gen_chart(r, keys, n_measures, density=density, dangling=dang,
                          comments=comments, blank=blank, crlf=crlf,
                          indent=indent)
        if comments:
            body.append("//--------------- %s - chart %d ----------------" % (name, i))
        body.append("#NOTES:")
        body.append("     %s:" % name)
        body.append("     author %d:" % i)
        body.append("     %s:" % r.choice(DIFFS))
        body.append("     %d:" % r.randrange(1, 20))
        body.append("     %s:" % ",".join(
            "%.3f" % r.random() for _ in range(r.choice([5, 5, 10]))))
        body.append(notes)
        body.append(";")
    return nl.join(head + body) + trailing_junk


def build_cases():
    r = rng
    cases = []

    def add(label, text):
        cases.append((label, text))

    # 1. plain varied files: every chart type, 1-3 charts
    for i, ct in enumerate(CHART_TYPES):
        add("plain-%s" % ct[0], gen_file(
            r, n_charts=1, n_measures=r.randrange(1, 5), chart_types=[ct],
            offset=r.choice(["0.000", "-0.250", "1.337", "-12.0015", "0.0005"])))
    for i in range(6):
        add("multi-%d" % i, gen_file(
            r, n_charts=r.choice([2, 3, 4]), n_measures=r.randrange(1, 4),
            offset=r.choice(["-0.5", "0.75", "3", "-0.0333"])))
    # 2. comments / blank lines / CRLF / indentation
    for i in range(6):
        add("comments-%d" % i, gen_file(
            r, n_charts=r.choice([1, 2]), n_measures=r.randrange(1, 4),
            comments=r.choice([0.2, 0.5, 1.0]), blank=r.choice([0.0, 0.3]),
            crlf=(i % 2 == 0), indent=r.choice(["", "  ", "\t"]),
            header_comment=True, offset="0.123"))
    # 3. dense / sparse / empty charts
    add("empty-notes", gen_file(r, n_charts=2, n_measures=2, density=0.0))
    add("dense", gen_file(r, n_charts=1, n_measures=3, density=0.9))
    add("holds-only-heavy", gen_file(r, n_charts=2, n_measures=4, density=0.6,
                                     chart_types=[("kb7-single", 7), ("dance-double", 8)]))
    add("zero-measures", gen_file(r, n_charts=1, n_measures=0))
    # 4. header variations
    add("no-offset", gen_file(r, n_charts=1, n_measures=2, with_offset=False))
    add("no-bpms", gen_file(r, n_charts=1, n_measures=2, with_bpms=False))
    add("no-charts", gen_file(r, n_charts=0, n_measures=2))
    add("stops", gen_file(r, n_charts=2, n_measures=3, stops="2.000=0.250,\n5.5=1.000",
                          offset="-0.100"))
    add("stops-empty", gen_file(r, n_charts=1, n_measures=2, stops=""))
    add("trailing-junk", gen_file(r, n_charts=1, n_measures=2,
                                  trailing_junk="\n\n  // the end\n;;\n ; \n"))
    # 5. malformed hold/roll structure (exceptions)
    add("dangling-head", gen_file(r, n_charts=2, n_measures=2, dangling="head"))
    add("dangling-lasthead", gen_file(r, n_charts=1, n_measures=2,
                                      dangling="lasthead"))
    add("dangling-tail", gen_file(r, n_charts=1, n_measures=2, dangling="tail"))
    add("dangling-head-comments", gen_file(r, n_charts=1, n_measures=1,
                                           dangling="head", comments=0.5))
    # 6. hand-written corner cases
    add("hand-hold-roll-same-col",
        "#OFFSET:0.5;\n#BPMS:0=120,\n2.5=60,3.25=240;\n"
        "#NOTES:\n dance-single:\n:\n Hard:\n 7:\n 0,0,0,0,0:\n"
        "2000\n3000\n4000\n3000\n,\n"
        "2402\n0000\n3303\n0000\n1MLF\nK000\n0000\n0001\n;")
    add("hand-rows-not-multiple-of-4",
        "#OFFSET:0;\n#BPMS:0=100;\n"
        "#NOTES:\n dance-single:\n:\n Hard:\n 7:\n 0,0,0,0,0:\n"
        "1000\n0100\n0010\n,\n1000\n0100\n0010\n0001\n1111\n0000\n;")
    add("hand-unknown-symbols",
        "#OFFSET:-1;\n#BPMS:0=150;\n"
        "#NOTES:\n dance-single:\n:\n Hard:\n 7:\n 0,0,0,0,0:\n"
        "1x00\n0500\n00m0\n000l\n;")
    add("hand-too-many-columns",
        "#OFFSET:0;\n#BPMS:0=150;\n"
        "#NOTES:\n dance-single:\n:\n Hard:\n 7:\n 0,0,0,0,0:\n"
        + "0" * 18 + "1\n" + ("0" * 19 + "\n") * 3 + ";")
    add("hand-18-columns",
        "#OFFSET:0;\n#BPMS:0=150;\n"
        "#NOTES:\n x:\n:\n Hard:\n 7:\n 0,0,0,0,0:\n"
        + "2" * 17 + "4\n" + ("0" * 18 + "\n") * 2 + "3" * 18 + "\n;")
    add("hand-comment-with-separators",
        "// a; b: c, d #NOTES: e\n#TITLE:T; // x;y\n#OFFSET:0.25; //#OFFSET:9;\n"
        "#BPMS:0=128; // 4=64\n"
        "#NOTES: // notes: here\n dance-single: // type; x\n d: // desc\n"
        " Easy:\n 3: // meter\n 0,0,0,0,0: // radar, x\n"
        "1000 // a,b\n0100 //;\n0010 //:\n0001\n, // sep\n"
        "2000\n0000\n3000 // tail\n0000\n; // end\n")
    add("hand-bad-meter",
        "#OFFSET:0;\n#BPMS:0=150;\n"
        "#NOTES:\n dance-single:\n:\n Hard:\n seven:\n 0,0,0,0,0:\n1000\n0000\n0000\n0000\n;")
    add("hand-too-few-fields",
        "#OFFSET:0;\n#BPMS:0=150;\n#NOTES:\n dance-single:\n1000\n;")
    add("hand-first-bpm-not-zero",
        "#OFFSET:0;\n#BPMS:1=150;\n"
        "#NOTES:\n dance-single:\n:\n Hard:\n 7:\n 0,0,0,0,0:\n1000\n0000\n0000\n0000\n;")
    add("hand-empty-text", "")
    add("hand-only-comment", "// nothing here")
    add("hand-notes-token-inside-meta-value",
        "#TITLE:about #NOTES: tag;\n#OFFSET:0;\n#BPMS:0=150;")
    return cases


# --------------------------------------------------------------------------
# canonical text
# --------------------------------------------------------------------------
def canon_value(x):
    if isinstance(x, float):
        return "f:" + x.hex()
    try:
        import numpy as np
        if isinstance(x, np.floating):
            return "nf:%s:%s" % (type(x).__name__, float(x).hex())
        if isinstance(x, np.integer):
            return "ni:%s:%d" % (type(x).__name__, int(x))
    except Exception:  # pragma: no cover
        pass
    return "%s:%r" % (type(x).__name__, x)


def canon_df(df):
    out = ["cols=%r" % list(df.columns),
           "dtypes=%r" % [str(t) for t in df.dtypes],
           "index=%s:%r" % (type(df.index).__name__, list(df.index)),
           "shape=%r" % (df.shape,)]
    for c in df.columns:
        out.append("%s=[%s]" % (c, ",".join(canon_value(v) for v in df[c].tolist())))
    return out


def canon_ms(ms):
    out = ["type=%s" % type(ms).__name__]
    for f in fields(SMMapSetMeta):
        out.append("meta.%s=%s" % (f.name, canon_value(getattr(ms, f.name))))
    out.append("n_maps=%d" % len(ms.maps))
    for i, m in enumerate(ms.maps):
        p = "map%d." % i
        out.append(p + "type=%s" % type(m).__name__)
        for name in ("chart_type", "description", "difficulty",
                     "difficulty_val", "groove_radar"):
            v = getattr(m, name)
            if isinstance(v, list):
                out.append(p + name + "=[" + ",".join(canon_value(x) for x in v) + "]")
            else:
                out.append(p + name + "=" + canon_value(v))
        out.append(p + "objs_keys=%r" % list(m.objs.keys()))
        for ln in LIST_NAMES:
            lst = getattr(m, ln)
            out.append(p + ln + ".class=%s len=%d" % (type(lst).__name__, len(lst)))
            out.extend(p + ln + "." + s for s in canon_df(lst.df))
    return out


def run(label, fn, arg):
    """Calls fn(arg); returns canonical lines of the result or the exception"""
    try:
        ms = fn(arg)
    except BaseException as e:  # noqa
        return ["%s -> EXC %s: %s" % (label, type(e).__name__, e)]
    return ["%s -> OK" % label] + canon_ms(ms)


def main():
    lines = []
    cases = build_cases()
    tmpdir = tempfile.mkdtemp(prefix="c02demo")
    n_inputs = 0
    for label, text in cases:
        # (a) str input
        text_before = str(text)
        res_str = run(label + "/str", SMMapSet.read, text)
        lines.extend(res_str)
        lines.append("%s/str input unchanged=%r" % (label, text == text_before))
        n_inputs += 1

        # (b) list-of-lines input; the list must be left alone
        as_list = text.split("\n")
        list_before = copy.deepcopy(as_list)
        res_list = run(label + "/list", SMMapSet.read, as_list)
        lines.extend(res_list)
        lines.append("%s/list input unchanged=%r len=%d" % (
            label, as_list == list_before, len(as_list)))
        lines.append("%s/list same as str=%r" % (label, res_list[1:] == res_str[1:]))
        n_inputs += 1

        # (c) file input
        path = os.path.join(tmpdir, "c.sm")
        with open(path, "w", encoding="utf8", newline="") as f:
            f.write(text)
        res_file = run(label + "/file", SMMapSet.read_file, path)
        lines.extend(res_file)
        with open(path, "r", encoding="utf8", newline="") as f:
            lines.append("%s/file unchanged=%r" % (label, f.read() == text))
        os.remove(path)
        n_inputs += 1

    # inputs of other types (exception type and message must stay the same)
    odd_inputs = [
        ("bytes", b"#OFFSET:0;\n#BPMS:0=120;"),
        ("none", None),
        ("tuple", ("#OFFSET:0;", "#BPMS:0=120;")),
        ("list-nonstr", ["#OFFSET:0;", 5]),
        ("empty-list", []),
        ("list-one", ["#OFFSET:1;#BPMS:0=120;"]),
        ("int", 7),
    ]
    for label, inp in odd_inputs:
        before = copy.deepcopy(inp)
        lines.extend(run("odd-" + label, SMMapSet.read, inp))
        lines.append("odd-%s input unchanged=%r" % (label, inp == before))
        n_inputs += 1

    os.rmdir(tmpdir)
    lines.append("n_inputs=%d" % n_inputs)
    canonical = "\n".join(lines)
    if os.environ.get("C02_DEMO_DUMP"):
        with open(os.environ["C02_DEMO_DUMP"], "w", encoding="utf8") as f:
            f.write(canonical)
    print("inputs: %d, canonical chars: %d" % (n_inputs, len(canonical)), file=sys.stderr)
    print(hashlib.sha256(canonical.encode("utf8")).hexdigest())


if __name__ == "__main__":
    main()
