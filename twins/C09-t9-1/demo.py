"""Demo for C09 / change 1: OsuToBMS.convert.

Generates several dozen .osu files (text), reads them with OsuMap.read,
converts with OsuToBMS.convert (several move_right_by values), writes the BMS
and reads it back.  Everything observable goes into one canonical text dump:
list frames (values, dtypes, column order, row labels), header fields, the
bytes written, exception types, and the source OsuMap afterwards.
"""
import hashlib
import logging
import os
import random
import warnings

import numpy as np
import pandas as pd

from reamber.algorithms.convert.OsuToBMS import OsuToBMS
from reamber.bms.BMSChannel import BMSChannel
from reamber.bms.BMSMap import BMSMap
from reamber.osu.OsuBpm import OsuBpm
from reamber.osu.OsuHit import OsuHit
from reamber.osu.OsuHold import OsuHold
from reamber.osu.OsuMap import OsuMap
from reamber.osu.lists.OsuBpmList import OsuBpmList
from reamber.osu.lists.notes.OsuHitList import OsuHitList
from reamber.osu.lists.notes.OsuHoldList import OsuHoldList

warnings.simplefilter("ignore")
logging.disable(logging.CRITICAL)
random.seed(90901)

OUT = []


def emit(*a):
    OUT.append(" ".join(str(x) for x in a))


def cell(v):
    if isinstance(v, (float, np.floating)):
        return "f:" + repr(float(v))
    if isinstance(v, (bool, np.bool_)):
        return "b:" + repr(bool(v))
    if isinstance(v, (int, np.integer)):
        return "i:" + repr(int(v))
    return type(v).__name__ + ":" + repr(v)


def dump_df(tag, df: pd.DataFrame):
    emit(tag, "type", type(df).__name__, "shape", df.shape)
    emit(tag, "columns", list(df.columns))
    emit(tag, "dtypes", [str(t) for t in df.dtypes])
    emit(tag, "index", type(df.index).__name__, str(df.index.dtype), list(df.index))
    for row in df.itertuples(index=False, name=None):
        emit(tag, "row", [cell(v) for v in row])


def dump_map(tag, m):
    emit(tag, "class", type(m).__name__, "objs", list(m.objs.keys()))
    for k, v in m.objs.items():
        emit(tag, k, "listclass", type(v).__name__)
        dump_df(f"{tag}.{k}", v.df)
    d = {k: v for k, v in vars(m).items() if k != "objs"}
    for k in sorted(d):
        v = d[k]
        if hasattr(v, "df"):
            dump_df(f"{tag}.meta.{k}", v.df)
        else:
            emit(tag, "meta", k, cell(v))


TITLES = [
    "Gravity",
    "",
    "  spaced  title ",
    "月に叢雲華に風",
    "Café del Mar",
    "emoji \U0001F3B5 song",
    "한국어 제목",
    "ﾊﾝｶｸ ｶﾅ",
    "col:on: inside",
    "Ω≠∞ ～ ‖",
    "a" * 70,
    "tab\there",
]


def x_of(col, keys):
    return int(((512.0 * col) + 256.0) // keys)


def gen_osu(case):
    keys = case["keys"]
    lines = ["osu file format v14", "", "[General]", "AudioFilename: audio.mp3",
             "PreviewTime: %d" % random.randint(-1, 9000), "Mode: 3", "",
             "[Metadata]"]
    t, a, v = (random.choice(TITLES) for _ in range(3))
    lines += ["Title:" + t, "TitleUnicode:" + t, "Artist:" + a,
              "ArtistUnicode:" + a, "Creator:someone", "Version:" + v, "",
              "[Difficulty]", "HPDrainRate:7", "CircleSize:%d" % keys,
              "OverallDifficulty:6", "", "[Events]", "", "[TimingPoints]"]
    bpm_val = random.choice([60.0, 120.0, 150.0, 175.5, 200.0, 240.0])
    first = case["first"]
    t0 = first
    tps = []
    for i in range(case["n_bpm"]):
        metro = case["metros"][i % len(case["metros"])]
        tps.append("%s,%s,%d,1,0,50,1,%d" % (repr(float(t0)), repr(60000.0 / bpm_val), metro, i & 1))
        # next timing point sits on a measure line of this one
        beat = 60000.0 / bpm_val
        t0 = t0 + beat * metro * random.randint(1, 3)
        bpm_val = random.choice([60.0, 90.0, 120.0, 150.0, 180.0, 240.0])
    if case["sv"]:
        tps.append("%s,-50,4,1,0,50,0,0" % repr(float(first)))
    if case["shuffle"]:
        random.shuffle(tps)
    lines += tps + ["", "[HitObjects]"]
    beat = 60000.0 / 120.0
    objs = []
    grid = [first + beat * k / d for k in range(0, 40) for d in (1, 2, 3, 4)]
    for _ in range(case["n_hit"]):
        c = random.randrange(keys)
        o = random.choice(grid) if case["grid"] else first + random.randint(0, 20000)
        objs.append("%d,192,%d,1,%d,0:0:0:%d:%s" % (
            x_of(c, keys), int(o), random.choice([0, 2, 8]), random.choice([0, 40]),
            random.choice(["", "kick.wav"])))
    for _ in range(case["n_hold"]):
        c = random.randrange(keys)
        o = random.choice(grid) if case["grid"] else first + random.randint(0, 20000)
        ln = random.choice([125, 250, 500, 1000, 333])
        objs.append("%d,192,%d,128,0,%d:0:0:0:0:" % (x_of(c, keys), int(o), int(o) + ln))
    if case["ties"] and objs:
        objs += random.sample(objs, min(3, len(objs)))
    if case["shuffle"]:
        random.shuffle(objs)
    else:
        objs.sort(key=lambda s: int(s.split(",")[2]))
    return lines + objs + [""]


def run(tag, osu, moves):
    before = osu.deepcopy()
    for mv in moves:
        t = f"{tag}.mv={mv!r}"
        try:
            bms = OsuToBMS.convert(osu, move_right_by=mv) if mv != "default" else OsuToBMS.convert(osu)
        except Exception as e:
            emit(t, "convert raised", type(e).__name__)
            continue
        dump_map(t + ".bms", bms)
        # the result must not share frames with the source
        emit(t, "shares", any(bms.objs[k].df is osu.objs[k].df for k in ("hits", "holds", "bpms")))
        for cfg_name in ("BME", "BMS"):
            cfg = getattr(BMSChannel, cfg_name)
            try:
                b = bms.write(note_channel_config=cfg)
                emit(t, cfg_name, "written", len(b), hashlib.sha256(b).hexdigest())
                emit(t, cfg_name, "bytes", repr(b))
                try:
                    back = BMSMap.read(b.decode("shift_jis").split("\r\n"), note_channel_config=cfg)
                    dump_map(t + "." + cfg_name + ".back", back)
                except Exception as e:
                    emit(t, cfg_name, "readback raised", type(e).__name__)
            except Exception as e:
                emit(t, cfg_name, "write raised", type(e).__name__)
    # source unchanged
    dump_map(tag + ".src_after", osu)
    same = all(
        osu.objs[k].df.equals(before.objs[k].df)
        and list(osu.objs[k].df.dtypes) == list(before.objs[k].df.dtypes)
        for k in osu.objs
    )
    emit(tag, "src_unchanged", same, osu.title == before.title)


cases = []
for keys in (1, 2, 4, 5, 7, 8, 9, 10):
    for variant in range(4):
        cases.append(dict(
            keys=keys,
            first=random.choice([0, 10, 250, 1000]),
            n_bpm=random.choice([1, 1, 2, 3]),
            metros=random.choice([[4], [4], [3, 4], [4, 5, 4], [7]]),
            sv=variant % 2 == 1,
            shuffle=variant >= 2,
            grid=variant != 3,
            n_hit=random.choice([0, 1, 3, 8, 20]),
            n_hold=random.choice([0, 0, 1, 4, 9]),
            ties=variant == 2,
        ))
# explicit edge cases: nothing but a timing point / hits only / holds only
cases.append(dict(keys=4, first=0, n_bpm=1, metros=[4], sv=False, shuffle=False, grid=True, n_hit=0, n_hold=0, ties=False))
cases.append(dict(keys=7, first=500, n_bpm=2, metros=[4], sv=False, shuffle=False, grid=True, n_hit=25, n_hold=0, ties=True))
cases.append(dict(keys=7, first=500, n_bpm=2, metros=[3], sv=True, shuffle=True, grid=True, n_hit=0, n_hold=12, ties=True))

MOVES = [["default", 1], [0, 2], [1, -1], ["default", 1.0], [3, True]]
for i, case in enumerate(cases):
    lines = gen_osu(case)
    tag = f"file{i:02d}"
    emit(tag, "case", sorted(case.items()))
    try:
        osu = OsuMap.read(lines)
    except Exception as e:
        emit(tag, "read raised", type(e).__name__)
        continue
    run(tag, osu, MOVES[i % len(MOVES)])

# Maps built in memory: odd row labels, unsorted rows, negative / zero offsets
for j in range(8):
    osu = OsuMap()
    n_hit, n_hold = random.choice([(0, 0), (5, 0), (0, 4), (6, 5), (18, 7)])
    osu.hits = OsuHitList([OsuHit(random.choice([-500, 0, 0, 250, 500, 750.5, 1000]) + 500.0 * random.randint(0, 8),
                                  random.randrange(6)) for _ in range(n_hit)])
    osu.holds = OsuHoldList([OsuHold(500.0 * random.randint(0, 8), random.randrange(6),
                                     random.choice([0, 125, 250.0, 1500])) for _ in range(n_hold)])
    osu.bpms = OsuBpmList([OsuBpm(0, 120), OsuBpm(2000, 180, metronome=3), OsuBpm(5000, 90)][: 1 + j % 3])
    if j % 2 and n_hit:
        osu.hits.df.index = [10 * k + 3 for k in range(n_hit)][::-1]
    if j % 3 == 0 and n_hold:
        osu.holds.df.index = list("abcdefghijklmnop")[:n_hold]
    osu.title, osu.artist, osu.version = (random.choice(TITLES) for _ in range(3))
    run(f"mem{j}", osu, [[0, 1], ["default", -2], [2, 0.5]][j % 3])

# Non-string headers: the exception type is part of the behaviour
for bad in (None, b"bytes", 5):
    osu = OsuMap()
    osu.bpms = OsuBpmList([OsuBpm(0, 120)])
    osu.hits = OsuHitList([OsuHit(0, 0)])
    osu.artist = bad
    try:
        bms = OsuToBMS.convert(osu)
        emit("badhdr", repr(bad), "ok", cell(bms.artist))
    except Exception as e:
        emit("badhdr", repr(bad), "raised", type(e).__name__)

# No bpm at all / everything empty
osu = OsuMap()
run("empty", osu, ["default", 1])

text = "\n".join(OUT)
if os.environ.get("DEMO_DUMP"):
    open(os.environ["DEMO_DUMP"], "w", encoding="utf-8", errors="backslashreplace").write(text)
import sys; print("LINES", len(OUT), file=sys.stderr)
print("DIGEST", hashlib.sha256(text.encode("utf-8", "backslashreplace")).hexdigest())
