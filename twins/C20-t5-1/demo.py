"""Differential demo for property C20 (pattern grouping / combinations / filters).

Run as:  cd /tmp/wt6/C20 && PYTHONPATH=/tmp/wt6/C20 /venv/bin/python demo.py
Prints one line ``DIGEST <hex>``: sha256 over a canonical text dump of every
result (values, dtypes, field order, shapes, raised exception types, and the
inputs after the call for non-mutation).
"""
import hashlib
import random
import warnings

import numpy as np
import pandas as pd

warnings.filterwarnings("ignore")

from reamber.algorithms.pattern import Pattern
from reamber.algorithms.pattern.combos import PtnCombo
from reamber.algorithms.pattern.filters import (
    PtnFilterChord,
    PtnFilterCombo,
    PtnFilterType,
)
from reamber.algorithms.pattern.filters.PtnFilter import PtnFilter
from reamber.base.Hit import Hit
from reamber.base.Hold import Hold, HoldTail
from reamber.base.lists.notes.HitList import HitList
from reamber.base.lists.notes.HoldList import HoldList
from reamber.osu.OsuHit import OsuHit
from reamber.osu.OsuHold import OsuHold
from reamber.osu.lists.notes.OsuHitList import OsuHitList
from reamber.osu.lists.notes.OsuHoldList import OsuHoldList

random.seed(20200620)
np.random.seed(20200620)

OUT = []


def emit(*parts):
    OUT.append(" ".join(str(p) for p in parts))


# ---------------------------------------------------------------- canonical
def canon(x):
    """Canonical, address-free text form of any result object."""
    if isinstance(x, type):
        return f"<class {x.__module__}.{x.__qualname__}>"
    if isinstance(x, np.ndarray):
        if x.dtype.names:
            dt = ",".join(f"{n}:{x.dtype[n].str}" for n in x.dtype.names)
        else:
            dt = x.dtype.str
        return (
            f"nd(type={type(x).__name__},dtype=[{dt}],shape={x.shape},"
            f"data={canon(x.tolist())})"
        )
    if isinstance(x, np.generic):
        return f"npscalar({type(x).__name__},{canon(x.item())})"
    if isinstance(x, pd.DataFrame):
        cols = ";".join(
            f"{c}:{x[c].dtype}:{canon(x[c].tolist())}" for c in x.columns
        )
        return f"df(index={canon(list(x.index))},{cols})"
    if isinstance(x, pd.Series):
        return (
            f"series(name={x.name},dtype={x.dtype},"
            f"index={canon(list(x.index))},data={canon(x.tolist())})"
        )
    if isinstance(x, Pattern):
        return f"Pattern({canon(x.df)})"
    if isinstance(x, PtnFilter):
        return (
            f"{type(x).__name__}(ar={canon(x.ar)},keys={canon(x.keys)},"
            f"invert={canon(x.invert_filter)})"
        )
    if isinstance(x, (list, tuple)):
        br = "[]" if isinstance(x, list) else "()"
        return br[0] + ",".join(canon(i) for i in x) + br[1]
    if isinstance(x, np.void):
        return canon(x.tolist())
    if isinstance(x, float):
        return f"f{x!r}"
    if isinstance(x, bool):
        return f"b{x!r}"
    if isinstance(x, int):
        return f"i{x!r}"
    if x is None:
        return "None"
    if isinstance(x, str):
        return f"s{x!r}"
    r = repr(x)
    assert " at 0x" not in r, r
    return f"obj({type(x).__name__}:{r})"


def run(label, fn):
    try:
        res = fn()
        emit(label, "OK", canon(res))
        return res
    except Exception as e:  # noqa
        emit(label, "EXC", type(e).__module__ + "." + type(e).__qualname__)
        return None


# ---------------------------------------------------------------- generators
TYPES = [Hit, Hold, HoldTail, OsuHit, OsuHold]


def gen_notes(n, keys, max_offset, float_offsets=False, grid=None):
    cols, offs, tps = [], [], []
    for _ in range(n):
        cols.append(random.randrange(keys))
        if grid:
            o = random.randrange(0, max_offset + 1, grid)
        else:
            o = random.randint(-50, max_offset)
        if float_offsets:
            o = o + random.choice([0.0, 0.25, 0.5])
        offs.append(o)
        tps.append(random.choice(TYPES))
    return cols, offs, tps


NOTE_SETS = {}
NOTE_SETS["empty"] = ([], [], [])
NOTE_SETS["single"] = ([2], [100], [Hit])
NOTE_SETS["testfix"] = (
    [0, 1, 1, 2, 2, 3, 2],
    [0, 0, 100, 100, 200, 200, 300],
    [Hit, Hit, Hit, Hold, HoldTail, Hit, Hit],
)
NOTE_SETS["all_same_time"] = ([0, 1, 2, 3, 1, 1, 0], [50] * 7, [Hit] * 7)
NOTE_SETS["all_same_col"] = (
    [3] * 6,
    [0, 10, 20, 20, 30, 500],
    [Hit, Hold, HoldTail, Hit, Hit, Hit],
)
NOTE_SETS["unsorted"] = (
    [3, 0, 2, 1, 0, 3, 2],
    [400, 0, 300, 100, 100, 0, 250],
    [Hit, Hold, Hit, HoldTail, Hit, Hit, OsuHit],
)
NOTE_SETS["negative"] = (
    [0, 1, 2, 0, 1],
    [-300, -300, -250, -100, 0],
    [Hit, Hit, Hold, Hit, HoldTail],
)
NOTE_SETS["float"] = (
    [0, 1, 2, 3, 0, 1],
    [0.0, 0.5, 49.999, 50.0, 50.0001, 100.5],
    [Hit, Hit, Hit, Hit, Hold, HoldTail],
)
for k_i, (n, keys, mo, fl, grid) in enumerate(
    [
        (5, 4, 300, False, 50),
        (8, 4, 400, False, 100),
        (10, 4, 500, False, 50),
        (12, 7, 600, False, 25),
        (14, 7, 400, True, None),
        (16, 7, 300, False, 10),
        (9, 10, 300, False, 50),
        (20, 4, 1000, False, 50),
        (20, 4, 200, False, None),
        (11, 1, 400, False, 100),
        (13, 2, 400, True, 50),
        (18, 18, 600, False, 100),
        (7, 5, 0, False, None),
        (15, 9, 800, True, 100),
    ]
):
    NOTE_SETS[f"rnd{k_i}_n{n}_k{keys}"] = gen_notes(n, keys, mo, fl, grid)

KEYS_OF = {}
for name, (c, _, _) in NOTE_SETS.items():
    KEYS_OF[name] = (max(c) + 1) if c else 4

V_WINDOWS = [0, 0.5, 25, 50.0, 100, 1000]
H_WINDOWS = [None, 0, 1, 2, 5]


# ---------------------------------------------------------------- section A
# Pattern construction, group(), partition / window invariants, non-mutation.
GROUPS_FOR_COMBO = []

for name, (c, o, t) in NOTE_SETS.items():
    c0, o0, t0 = list(c), list(o), list(t)
    p = run(f"A.init[{name}]", lambda: Pattern(c, o, t))
    emit(f"A.args_after[{name}]", canon([c, o, t]), c == c0 and o == o0 and t == t0)
    if p is None:
        continue
    emit(f"A.df[{name}]", canon(p.df), len(p))
    for v in V_WINDOWS:
        for h in H_WINDOWS:
            for jack in (True, False):
                df_before = p.df.copy(deep=True)
                lab = f"A.group[{name},v={v},h={h},jack={jack}]"
                gs = run(lab, lambda: p.group(v, h, jack))
                emit(lab, "df_unchanged", p.df.equals(df_before),
                     canon(p.df.dtypes.astype(str).tolist()))
                if gs is None:
                    continue
                # invariants of the property, recorded in the dump as well
                try:
                    total = sum(g.shape[0] for g in gs)
                    ok_v = all(
                        (g["offset"] >= g["offset"][0]).all()
                        and (g["offset"] <= g["offset"][0] + v).all()
                        for g in gs
                    )
                    ok_h = h is None or all(
                        (abs(g["column"] - g["column"][0]) <= h).all() for g in gs
                    )
                    ok_j = (not jack) or all(
                        len(set(g["column"].tolist())) == g.shape[0] for g in gs
                    )
                except Exception as e:  # noqa
                    emit(lab, "inv", "EXC", type(e).__qualname__)
                    continue
                emit(lab, "inv", total == len(p), ok_v, ok_h, ok_j, len(gs))
                if v in (0, 50.0, 100) and h in (None, 1) :
                    GROUPS_FOR_COMBO.append((name, v, h, jack, gs))

# invalid windows / positional & keyword spellings
pt = Pattern(*NOTE_SETS["testfix"])
for args, kwargs in [
    ((-1,), {}),
    ((-0.0001, None, True), {}),
    ((50, -1), {}),
    ((50, -1, False), {}),
    ((-1, -1), {}),
    ((), {"v_window": -5}),
    ((), {"h_window": -2}),
    ((), {"v_window": -5, "h_window": -2}),
    ((), {}),
    ((), {"avoid_jack": False}),
    ((0, 0), {}),
    ((float("inf"),), {}),
    ((float("nan"),), {}),
    (("a",), {}),
    ((50, "a"), {}),
    ((None,), {}),
    ((50, 1.5), {}),
    ((np.float64(75.0), np.int64(1), np.bool_(False)), {}),
]:
    run(f"A.group_args[{canon(list(args))},{sorted(kwargs.items())!r}]",
        lambda: pt.group(*args, **kwargs))
run("A.group_empty", lambda: Pattern([], [], []).group())
run("A.group_empty_neg", lambda: Pattern([], [], []).group(-1))
run("A.init_mismatch", lambda: Pattern([0, 1], [0], [Hit]))

# ---------------------------------------------------------------- section B
# v_mask / h_mask called directly (records, DataFrame, empty, ties)
for name in ["testfix", "all_same_time", "all_same_col", "float", "negative",
             "rnd2_n10_k4", "rnd5_n16_k7", "rnd8_n20_k4", "empty", "single"]:
    p = Pattern(*NOTE_SETS[name])
    ar = p.df.to_records(index=False)
    offs = sorted(set(p.df["offset"].tolist()))
    probes = offs[:4] + [(offs[0] - 10) if offs else -10,
                         (offs[-1] + 10) if offs else 10,
                         (offs[0] + 0.5) if offs else 0.5]
    for src_name, src in (("rec", ar), ("df", p.df)):
        for ref in probes:
            for v in (0, 50, 100.0, 10000):
                for jack in (True, False):
                    before = canon(src)
                    lab = f"B.v_mask[{name},{src_name},ref={ref},v={v},jack={jack}]"
                    run(lab, lambda: Pattern.v_mask(src, ref, v, jack))
                    emit(lab, "unchanged", canon(src) == before)
        for col in (-1, 0, 1, 3, 100):
            for h in (0, 1, 2, 50):
                lab = f"B.h_mask[{name},{src_name},col={col},h={h}]"
                run(lab, lambda: Pattern.h_mask(src, col, h))
# via instance as in the test-suite
run("B.inst_v", lambda: pt.v_mask(pt.df, 100, 100, True))
run("B.inst_h", lambda: pt.h_mask(pt.df, 1, 1))
run("B.v_mask_neg_window", lambda: Pattern.v_mask(pt.df.to_records(index=False), 100, -50, True))
run("B.v_mask_neg_window2", lambda: Pattern.v_mask(pt.df.to_records(index=False), 100, -50, False))
run("B.v_mask_bad", lambda: Pattern.v_mask(pt.df.to_records(index=False), "x", 5, True))
run("B.v_mask_nofield", lambda: Pattern.v_mask(np.zeros(3), 0, 5, True))

# ---------------------------------------------------------------- section C
# from_note_lists, with / without tails
def hits(n, keys, cls=Hit, lcls=HitList):
    return lcls([cls(offset=random.randrange(0, 500, 50), column=random.randrange(keys))
                 for _ in range(n)])


def holds(n, keys, cls=Hold, lcls=HoldList):
    return lcls([cls(offset=random.randrange(0, 500, 50), column=random.randrange(keys),
                     length=random.choice([0, 25, 50, 100, 300]))
                 for _ in range(n)])


NL_CASES = {
    "none": [],
    "empty_lists": [HitList([]), HoldList([])],
    "hits": [hits(6, 4)],
    "holds": [holds(5, 4)],
    "both": [hits(6, 4), holds(4, 4)],
    "both_rev": [holds(4, 7), hits(7, 7)],
    "with_empty": [HitList([]), hits(3, 4), HoldList([]), holds(3, 4)],
    "osu": [hits(5, 4, OsuHit, OsuHitList), holds(5, 4, OsuHold, OsuHoldList)],
    "three": [hits(3, 4), holds(2, 4), hits(4, 4, OsuHit, OsuHitList)],
}
for name, nls in NL_CASES.items():
    for tails in (True, False, None):
        before = [canon(nl.df) for nl in nls]
        lab = f"C.from_nl[{name},tails={tails}]"
        if tails is None:
            p = run(lab, lambda: Pattern.from_note_lists(nls))
        else:
            p = run(lab, lambda: Pattern.from_note_lists(nls, include_tails=tails))
        emit(lab, "inputs_unchanged", before == [canon(nl.df) for nl in nls])
        if p is None:
            continue
        emit(lab, canon(p.df))
        for v, h, jack in [(0, None, True), (50, None, True), (100, 1, False), (50, 0, True)]:
            gs = run(lab + f".group[{v},{h},{jack}]", lambda: p.group(v, h, jack))
            if gs is not None and v == 50:
                GROUPS_FOR_COMBO.append((f"nl_{name}_{tails}", v, h, jack, gs))
run("C.from_nl_bad", lambda: Pattern.from_note_lists([1, 2]))
run("C.from_nl_iter", lambda: Pattern.from_note_lists(iter([hits(2, 4)])).df)

# ---------------------------------------------------------------- section D
# filters: create() with every option combination, and filter()
FILTERS_CHORD, FILTERS_COMBO, FILTERS_TYPE = {}, {}, {}

for keys in (1, 2, 4, 7):
    for base in ([[1, 1]], [[2, 1]], [[1, 2]], [[3, 2]], [[2, 2, 1]], [[1, 2], [3, 1]],
                 [[1, 1, 1, 1]], [2, 1], [[4, 4]]):
        for opt in range(8):
            for exc in (False, True):
                lab = f"D.chord.create[{base},k={keys},opt={opt},exc={exc}]"
                f = run(lab, lambda: PtnFilterChord.create(base, keys, opt, exc))
                if f is not None:
                    FILTERS_CHORD[lab] = f
    for base in ([[0, 0]], [[0, 1]], [[1, 0]], [[0, 2]], [[0, 1, 2]], [[0, 0, 0]],
                 [[0, 1], [2, 0]], [[0, 0, 0, 0]], [[0, 1, 0, 1]], [0, 1], [[3, 0]]):
        for opt in range(8):
            for exc in (False, True):
                lab = f"D.combo.create[{base},k={keys},opt={opt},exc={exc}]"
                f = run(lab, lambda: PtnFilterCombo.create(base, keys, opt, exc))
                if f is not None:
                    FILTERS_COMBO[lab] = f
run("D.combo.create_nd", lambda: PtnFilterCombo.create(np.array([[0, 1]]), 4, 7, False))
run("D.combo.create_empty", lambda: PtnFilterCombo.create([], 4, 1, False))
run("D.combo.create_default", lambda: PtnFilterCombo.create([[0, 1]], 4))
run("D.chord.create_default", lambda: PtnFilterChord.create([[2, 1]], 4))
run("D.chord.create_empty", lambda: PtnFilterChord.create([], 4, 1))

for base in ([[Hit, Hit]], [[Hit, Hold]], [[HoldTail, object]], [[Hold, HoldTail, Hit]],
             [[HoldTail, object, object]], [[HoldTail, object, object, object]],
             [[Hit, Hold], [Hold, Hit]], [[OsuHit, Hit]], [Hit, Hold], [[object, object]]):
    for opt in range(4):
        for exc in (False, True):
            lab = f"D.type.create[{canon(base)},opt={opt},exc={exc}]"
            f = run(lab, lambda: PtnFilterType.create(base, opt, exc))
            if f is not None:
                FILTERS_TYPE[lab] = f
run("D.type.create_default", lambda: PtnFilterType.create([[Hit, Hold]]))

# chord filter() on every plausible chord-size vector
for lab, f in FILTERS_CHORD.items():
    w = f.ar.shape[1]
    res = []
    for _ in range(12):
        d = np.array([random.randint(1, 5) for _ in range(w)])
        d0 = d.copy()
        ar0 = f.ar.copy()
        try:
            r = f.filter(d)
            res.append(canon(r))
        except Exception as e:  # noqa
            res.append("EXC " + type(e).__qualname__)
        res.append(str(np.array_equal(d, d0) and np.array_equal(f.ar, ar0)))
    # list input and wrong width
    for d in ([1] * w, [2] * (w + 1), []):
        try:
            res.append(canon(f.filter(d)))
        except Exception as e:  # noqa
            res.append("EXC " + type(e).__qualname__)
    emit(lab.replace("create", "filter"), ";".join(res))

# combo filter() on random column matrices (several dtypes, empty)
for lab, f in FILTERS_COMBO.items():
    w = f.ar.shape[1]
    res = []
    for n, dt in ((0, "int64"), (1, "int64"), (9, "int64"), (9, "int32"), (6, "float64"),
                  (5, "uint8")):
        d = np.array([[random.randrange(0, max(f.keys, 1) + 1) for _ in range(w)]
                      for _ in range(n)], dtype=dt).reshape(n, w)
        d0 = d.copy()
        ar0 = f.ar.copy()
        try:
            res.append(canon(f.filter(d)))
        except Exception as e:  # noqa
            res.append("EXC " + type(e).__qualname__)
        res.append(str(np.array_equal(d, d0) and np.array_equal(f.ar, ar0)
                       and d.dtype == d0.dtype))
    for d in (np.zeros((3, w + 1), dtype=int), np.zeros(3, dtype=int), [[0] * w]):
        try:
            res.append(canon(f.filter(d)))
        except Exception as e:  # noqa
            res.append("EXC " + type(e).__qualname__)
    emit(lab.replace("create", "filter"), ";".join(res))

# type filter() on random type matrices
for lab, f in FILTERS_TYPE.items():
    w = f.ar.shape[1]
    res = []
    for n in (0, 1, 4, 11):
        d = np.empty((n, w), dtype=object)
        for i in range(n):
            for j in range(w):
                d[i, j] = random.choice(TYPES)
        d0 = d.copy()
        ar0 = f.ar.copy()
        try:
            res.append(canon(f.filter(d)))
        except Exception as e:  # noqa
            res.append("EXC " + type(e).__qualname__)
        res.append(str(bool((d == d0).all()) and bool((f.ar == ar0).all())))
    for d in (np.full((2, w + 1), Hit, dtype=object), np.full((2, max(w - 1, 0)), Hit, dtype=object),
              np.array([[1] * w], dtype=object)):
        try:
            res.append(canon(f.filter(d)))
        except Exception as e:  # noqa
            res.append("EXC " + type(e).__qualname__)
    emit(lab.replace("create", "filter"), ";".join(res))

# filter algebra (& and |)
fa = PtnFilterCombo.create([[0, 1]], 4, PtnFilterCombo.Option.REPEAT)
fb = PtnFilterCombo.create([[0, 1]], 4, PtnFilterCombo.Option.VMIRROR)
run("D.and", lambda: fa & fb)
run("D.or", lambda: fa | fb)
run("D.and_nd", lambda: fa & np.array([[0, 1], [2, 3], [3, 3]]))
run("D.or_nd", lambda: fa | np.array([[0, 1], [3, 3]]))

# ---------------------------------------------------------------- section E
# combinations(): sizes, make_size2, every filter kind, completeness oracle
def oracle(groups, size, chord_f, combo_f, type_f):
    """Brute-force: sequences taking one note of each of `size` consecutive groups."""
    import itertools
    out = []
    for i in range(len(groups) - size + 1):
        chunk = groups[i:i + size]
        if chord_f is not None and not chord_f(np.array([g.shape[0] for g in chunk])):
            continue
        seqs = []
        for tup in itertools.product(*[g.tolist() for g in chunk]):
            cols = np.array([[t[0] for t in tup]])
            tps = np.empty((1, size), dtype=object)
            for j, t in enumerate(tup):
                tps[0, j] = t[2]
            if combo_f is not None and not combo_f(cols)[0]:
                continue
            if type_f is not None and not type_f(tps)[0]:
                continue
            seqs.append(tup)
        if seqs:
            out.append(sorted(canon(list(s)) for s in seqs))
    return out


random.shuffle(GROUPS_FOR_COMBO)
emit("E.n_group_sets", len(GROUPS_FOR_COMBO))
for gi, (name, v, h, jack, gs) in enumerate(GROUPS_FOR_COMBO):
    keys = KEYS_OF.get(name, 7)
    gs_before = canon(gs)
    pc = PtnCombo(gs)
    for size in (2, 3, 4):
        chord_opts = [None,
                      PtnFilterChord.create([[1] * size], keys, 0, False).filter,
                      PtnFilterChord.create([[2] + [1] * (size - 1)], keys,
                                            PtnFilterChord.Option.ANY_ORDER
                                            | PtnFilterChord.Option.AND_LOWER, False).filter,
                      PtnFilterChord.create([[1] * size], keys, 0, True).filter]
        combo_opts = [None,
                      PtnFilterCombo.create([[0] * size], keys,
                                            PtnFilterCombo.Option.REPEAT, False).filter,
                      PtnFilterCombo.create([[0] * size], keys,
                                            PtnFilterCombo.Option.REPEAT, True).filter,
                      PtnFilterCombo.create([list(range(size))], max(keys, size),
                                            PtnFilterCombo.Option.REPEAT
                                            | PtnFilterCombo.Option.HMIRROR, False).filter]
        type_opts = [None,
                     PtnFilterType.create([[HoldTail] + [object] * (size - 1)],
                                          PtnFilterType.Option.ANY_ORDER, True).filter,
                     PtnFilterType.create([[Hit] * size], 0, False).filter,
                     PtnFilterType.create([[Hold] + [Hit] * (size - 1)],
                                          PtnFilterType.Option.MIRROR, False).filter]
        # pick a deterministic random subset of the 64 option triples
        triples = [(a, b, c) for a in range(4) for b in range(4) for c in range(4)]
        chosen = [(0, 0, 0)] + random.sample(triples, 5)
        for a, b, c in chosen:
            for ms2 in (False, True):
                lab = (f"E.comb[{gi}:{name},v={v},h={h},j={jack},size={size},"
                       f"chord={a},combo={b},type={c},ms2={ms2}]")
                res = run(lab, lambda: pc.combinations(
                    size=size, make_size2=ms2, chord_filter=chord_opts[a],
                    combo_filter=combo_opts[b], type_filter=type_opts[c]))
                if res is not None and not ms2 and len(gs) <= 12:
                    got = [sorted(canon(list(r)) for r in ar.tolist()) for ar in res]
                    want = oracle(gs, size, chord_opts[a], combo_opts[b], type_opts[c])
                    emit(lab, "oracle_equal", got == want)
    emit(f"E.groups_unchanged[{gi}]", canon(gs) == gs_before, canon(pc.groups) == gs_before)

# odd sizes / defaults / empty
pc = PtnCombo(pt.group())
for size in (0, 1, 5, 6, 7, 100, -1, 2.0, None, "2"):
    for ms2 in (False, True):
        run(f"E.size[{size!r},ms2={ms2}]", lambda: pc.combinations(size=size, make_size2=ms2))
run("E.default", lambda: pc.combinations())
run("E.empty_groups", lambda: PtnCombo([]).combinations(2))
run("E.default_ctor", lambda: PtnCombo().combinations(2, True))
run("E.default_ctor_groups", lambda: PtnCombo().groups)
run("E.repr_fields", lambda: [f.name for f in __import__("dataclasses").fields(PtnCombo)])
run("E.public_attrs", lambda: sorted(a for a in dir(PtnCombo) if not a.startswith("_")))


# stateful filters: order of calls is observable
def make_logging_filters():
    log = []

    def chord(sizes):
        log.append(("chord", canon(sizes)))
        return int(sizes.sum()) % 2 == 0 or sizes[0] == 1

    def combo(cols):
        log.append(("combo", canon(cols)))
        return cols[:, 0] <= cols[:, -1]

    def tf(tps):
        log.append(("type", canon(tps)))
        return np.array([not issubclass(t, HoldTail) for t in tps[:, 0]], dtype=bool)

    return log, chord, combo, tf


for size in (2, 3, 4):
    for ms2 in (False, True):
        log, chord, combo, tf = make_logging_filters()
        run(f"E.logging[{size},{ms2}]", lambda: PtnCombo(pt.group()).combinations(
            size, ms2, chord, combo, tf))
        emit(f"E.logging.calls[{size},{ms2}]", canon(log))


# filters that raise: which exception wins
class E1(Exception):
    pass


class E2(Exception):
    pass


def chord_raise_third():
    n = [0]

    def f(s):
        n[0] += 1
        if n[0] == 3:
            raise E1()
        return True
    return f


def combo_raise(c):
    raise E2()


run("E.raise_order", lambda: PtnCombo(pt.group()).combinations(
    2, False, chord_raise_third(), combo_raise, None))
run("E.raise_combo", lambda: PtnCombo(pt.group()).combinations(2, False, None, combo_raise))
run("E.falsy_filter", lambda: PtnCombo(pt.group()).combinations(2, False, None, 0, 0))

# ---------------------------------------------------------------- section F
# templates
for gi, (name, v, h, jack, gs) in enumerate(GROUPS_FOR_COMBO[:40]):
    keys = KEYS_OF.get(name, 7)
    pc = PtnCombo(gs)
    gs_before = canon(gs)
    for prim, sec in ((1, 1), (2, 1), (3, 2), (2, 2)):
        for lower in (False, True):
            for ij in (False, True):
                run(f"F.cs[{gi}:{name},{prim},{sec},{keys},{lower},{ij}]",
                    lambda: pc.template_chord_stream(prim, sec, keys, lower, ij))
    for ml in (2, 3, 4):
        run(f"F.jack[{gi}:{name},{ml},{keys}]", lambda: pc.template_jacks(ml, keys))
    emit(f"F.groups_unchanged[{gi}]", canon(gs) == gs_before)
for ml in (1, 0, -3):
    run(f"F.jack_bad[{ml}]", lambda: PtnCombo(pt.group()).template_jacks(ml, 4))
run("F.cs_defaults", lambda: PtnCombo(pt.group()).template_chord_stream(2, 1, 4))

text = "\n".join(OUT)
if __import__("os").environ.get("DEMO_DUMP"):
    with open(__import__("os").environ["DEMO_DUMP"], "w") as fh:
        fh.write(text)
print("DIGEST", hashlib.sha256(text.encode("utf-8")).hexdigest())
