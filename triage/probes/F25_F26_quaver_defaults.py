from reamber.quaver.QuaMap import QuaMap
base = """AudioFile: a.mp3
Mode: Keys4
Title: t
TimingPoints:
- StartTime: 0
  Bpm: 120
SliderVelocities: []
HitObjects:
%s
"""
def tryit(name, body):
    try:
        m = QuaMap.read(base % body)
        print(name, "hits", m.hits.df.to_dict("records"), "holds", m.holds.df.to_dict("records"))
        w = m.write()
        print("   written:", [l for l in w.splitlines() if "KeySounds" in l or "EndTime" in l or "StartTime" in l])
    except Exception as e:
        print(name, "EXC", type(e).__name__, e)
tryit("no keysounds", "- StartTime: 100\n  Lane: 1\n- StartTime: 200\n  Lane: 2")
tryit("some keysounds", "- StartTime: 100\n  Lane: 1\n  KeySounds: []\n- StartTime: 200\n  Lane: 2")
tryit("hold no StartTime (all)", "- EndTime: 500\n  Lane: 1\n  KeySounds: []")
tryit("hold no StartTime (one)", "- EndTime: 500\n  Lane: 1\n  KeySounds: []\n- StartTime: 100\n  EndTime: 700\n  Lane: 2\n  KeySounds: []")
tryit("hit no StartTime", "- Lane: 1\n  KeySounds: []\n- StartTime: 100\n  Lane: 2\n  KeySounds: []")
