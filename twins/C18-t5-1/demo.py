"""Digest of hitsound_copy (and the OsuMap / OsuSample code it leans on) over a
broad, deterministic set of osu chart pairs.

Run:  cd /tmp/wt6/C18 && PYTHONPATH=/tmp/wt6/C18 /venv/bin/python demo.py
Prints one line: DIGEST <sha256>
"""
import hashlib
import logging
import random
import sys
from copy import deepcopy
from pathlib import Path

import numpy as np
import pandas as pd

from reamber.algorithms.osu.hitsound_copy import hitsound_copy
from reamber.osu.OsuHit import OsuHit
from reamber.osu.OsuHold import OsuHold
from reamber.osu.OsuMap import OsuMap
from reamber.osu.OsuSample import OsuSample
from reamber.osu.lists.OsuSampleList import OsuSampleList
from reamber.osu.lists.notes.OsuHitList import OsuHitList
from reamber.osu.lists.notes.OsuHoldList import OsuHoldList

random.seed(180018)

OUT: list[str] = []


def emit(*parts):
    OUT.append(" ".join(str(p) for p in parts))


# --------------------------------------------------------------------------
# capture of the module's log records (they are observable output too)
class _Capture(logging.Handler):
    def __init__(self):
        super().__init__(level=logging.DEBUG)
        self.records: list[str] = []

    def emit(self, record):
        self.records.append(f"{record.levelname}:{record.getMessage()}")


CAPTURE = _Capture()
_hs_log = logging.getLogger("reamber.algorithms.osu.hitsound_copy")
_hs_log.setLevel(logging.DEBUG)
_hs_log.addHandler(CAPTURE)
_hs_log.propagate = False


# --------------------------------------------------------------------------
# canonical dumps
def dump_value(v):
    return f"{type(v).__module__}.{type(v).__qualname__}:{v!r}"


def dump_df(name, df: pd.DataFrame):
    emit(f"  [{name}] class={type(df).__qualname__} shape={df.shape}")
    emit(f"   columns={list(df.columns)!r}")
    emit(f"   dtypes={[str(d) for d in df.dtypes]!r}")
    emit(f"   index={type(df.index).__qualname__}:{df.index.dtype}:{list(df.index)!r}")
    for label, row in zip(df.index, df.itertuples(index=False, name=None)):
        emit(f"   {label!r}: " + " | ".join(dump_value(v) for v in row))


def dump_map(name, m: OsuMap):
    emit(f" <{name}> class={type(m).__qualname__}")
    emit(f"  objs_keys={list(m.objs.keys())!r}")
    for key, lst in m.objs.items():
        emit(f"  objs[{key}] listclass={type(lst).__qualname__}")
        dump_df(f"{name}.{key}", lst.df)
    emit(f"  samples listclass={type(m.samples).__qualname__}")
    dump_df(f"{name}.samples", m.samples.df)
    meta = {
        k: v for k, v in vars(m).items() if k not in ("objs", "samples")
    }
    emit(f"  meta={sorted((k, dump_value(v)) for k, v in meta.items())!r}")
    try:
        emit("  written=" + repr(m.write()))
    except Exception as e:  # noqa
        emit(f"  written=EXC {type(e).__qualname__}")


def run_case(label, src: OsuMap, tgt: OsuMap):
    emit(f"CASE {label}")
    src_before, tgt_before = deepcopy(src), deepcopy(tgt)
    CAPTURE.records.clear()
    try:
        res = hitsound_copy(src, tgt)
    except Exception as e:  # noqa
        emit(f" RAISED {type(e).__module__}.{type(e).__qualname__}")
        res = None
    else:
        emit(f" RETURNED is_tgt={res is tgt} is_src={res is src}")
        dump_map("result", res)
    emit(f" LOG n={len(CAPTURE.records)}")
    for r in CAPTURE.records:
        emit("  " + r)
    # the inputs afterwards (must be what they were before)
    dump_map("src_after", src)
    dump_map("tgt_after", tgt)
    emit(
        " src_unchanged="
        + str(_same(src, src_before))
        + " tgt_unchanged="
        + str(_same(tgt, tgt_before))
    )


def _same(a: OsuMap, b: OsuMap) -> bool:
    try:
        for k in a.objs:
            pd.testing.assert_frame_equal(a.objs[k].df, b.objs[k].df)
        pd.testing.assert_frame_equal(a.samples.df, b.samples.df)
        return True
    except AssertionError:
        return False


# --------------------------------------------------------------------------
# generators
FILES = ["kick.wav", "snare.ogg", "hat.wav", "a b.wav", "clap2.wav", "x.wav"]
VOLS = [0, 0, 10, 20, 20, 30, 50, 70, 100]


def rand_sound(rng, p_sound, p_file, odd=False):
    d = {}
    if rng.random() < p_sound:
        # any subset of normal(1) / whistle(2)... bits, including bit 1
        d["hitsound_set"] = rng.choice([0, 1, 2, 4, 8, 6, 10, 12, 14, 15, 3, 5, 9])
    if rng.random() < p_file:
        d["hitsound_file"] = rng.choice(FILES)
    if rng.random() < 0.25:
        d["sample_set"] = rng.randint(0, 3)
    if rng.random() < 0.25:
        d["addition_set"] = rng.randint(0, 3)
    if rng.random() < 0.15:
        d["custom_set"] = rng.randint(0, 2)
    d["volume"] = rng.choice(VOLS)
    if odd and rng.random() < 0.15:
        d["volume"] = rng.choice([-5, -1, 101, 250])
    if odd and rng.random() < 0.1:
        d["hitsound_file"] = rng.choice(["a;b.wav", ";", "p.wav;q.wav", ";;z.wav"])
    return d


def rand_map(rng, keys, times, n_hits, n_holds, p_sound, p_file, odd=False,
             shuffle=True, samples=0):
    hits = [
        OsuHit(
            offset=rng.choice(times),
            column=rng.randrange(keys),
            **rand_sound(rng, p_sound, p_file, odd),
        )
        for _ in range(n_hits)
    ]
    holds = [
        OsuHold(
            offset=rng.choice(times),
            column=rng.randrange(keys),
            length=rng.choice([0, 0.5, 25, 100, 333.25, 1000]),
            **rand_sound(rng, p_sound, p_file, odd),
        )
        for _ in range(n_holds)
    ]
    if shuffle:
        rng.shuffle(hits)
        rng.shuffle(holds)
    m = OsuMap()
    m.circle_size = float(keys)
    m.hits = OsuHitList(hits)
    m.holds = OsuHoldList(holds)
    if samples:
        m.samples = OsuSampleList(
            [
                OsuSample(
                    offset=rng.choice(times),
                    sample_file=rng.choice(FILES),
                    volume=rng.choice(VOLS),
                )
                for _ in range(samples)
            ]
        )
    return m


def time_pool(rng, n, odd=False):
    base = [float(t) for t in rng.sample(range(0, 4000, 125), n)]
    if odd:
        base += rng.sample([-500.0, -0.5, 0.0, 0.25, 1e6, 333.3333333], 3)
    return base


# --------------------------------------------------------------------------
def main():
    rng = random.Random(180018)

    # --- hand-written edge cases -------------------------------------------
    def mk(hits=(), holds=(), keys=4, samples=()):
        m = OsuMap()
        m.circle_size = float(keys)
        m.hits = OsuHitList(list(hits))
        m.holds = OsuHoldList(list(holds))
        if samples:
            m.samples = OsuSampleList(list(samples))
        return m

    H, L, S = OsuHit, OsuHold, OsuSample

    plain_tgt = mk(
        [H(0, 0), H(0, 1), H(100, 2), H(200, 3), H(200, 0)],
        [L(0, 2, 50), L(100, 3, 100), L(300, 1, 20)],
    )
    edge = {
        "empty_both": (mk(), mk()),
        "empty_src": (mk(), plain_tgt),
        "empty_tgt": (mk([H(0, 0, hitsound_set=2, volume=20)]), mk()),
        "src_no_sounds": (mk([H(0, 0), H(100, 1)], [L(0, 1, 10)]), plain_tgt),
        "hits_only_both": (
            mk([H(0, 0, hitsound_set=2), H(0, 1, hitsound_file="k.wav", volume=30)]),
            mk([H(0, 0), H(0, 3), H(10, 1)]),
        ),
        "holds_only_both": (
            mk((), [L(0, 0, 5, hitsound_set=14, volume=40), L(0, 1, 5, hitsound_set=2, volume=40)]),
            mk((), [L(0, 0, 100), L(0, 1, 200), L(0, 2, 300)]),
        ),
        "src_holds_tgt_hits": (
            mk((), [L(100, 0, 5, hitsound_set=8, volume=40)]),
            mk([H(100, 2)]),
        ),
        "overflow_named": (
            mk(
                [
                    H(0, 0, hitsound_file="a.wav", volume=20),
                    H(0, 1, hitsound_file="b.wav", volume=20),
                    H(0, 2, hitsound_file="c.wav", volume=20),
                    H(0, 3, hitsound_file="d.wav", volume=60),
                    H(0, 0, hitsound_file="e.wav", volume=0),
                ]
            ),
            mk([H(0, 0)], [L(5, 1, 10)]),
        ),
        "overflow_defaults": (
            mk(
                [
                    H(0, 0, hitsound_set=2, volume=20),
                    H(0, 1, hitsound_set=2, volume=20),
                    H(0, 2, hitsound_set=4, volume=20),
                    H(0, 3, hitsound_set=8, volume=30),
                    H(0, 0, hitsound_set=14, volume=30),
                ]
            ),
            mk([H(0, 0), H(0, 1)]),
        ),
        "no_slot_at_all": (
            mk(
                [
                    H(50, 0, hitsound_set=2, volume=20),
                    H(50, 1, hitsound_file="a.wav", volume=20),
                    H(50, 2, hitsound_file="b.wav", volume=-3),
                ]
            ),
            plain_tgt,
        ),
        "mixed_file_and_default_same_note": (
            mk([H(0, 0, hitsound_set=6, hitsound_file="m.wav", volume=25)]),
            plain_tgt,
        ),
        "only_set_fields": (
            mk([H(0, 0, sample_set=2), H(100, 1, addition_set=1), H(200, 2, custom_set=3)]),
            plain_tgt,
        ),
        "normal_bit_only": (
            mk([H(0, 0, hitsound_set=1, volume=15), H(100, 0, hitsound_set=3, volume=15)]),
            plain_tgt,
        ),
        "negative_and_zero_volume": (
            mk(
                [
                    H(0, 0, hitsound_set=2, volume=-10),
                    H(0, 1, hitsound_set=4, volume=0),
                    H(100, 0, hitsound_file="z.wav", volume=-1),
                    H(200, 0, hitsound_file="y.wav", volume=0),
                ]
            ),
            plain_tgt,
        ),
        "semicolon_names": (
            mk(
                [
                    H(0, 0, hitsound_file="a;b.wav", volume=20),
                    H(0, 1, hitsound_file=";", volume=20),
                    H(200, 1, hitsound_file="p.wav;q.wav;r.wav", volume=20),
                ]
            ),
            plain_tgt,
        ),
        "tgt_already_sounded_and_sampled": (
            mk([H(0, 0, hitsound_set=2, volume=33)]),
            mk(
                [H(0, 0, hitsound_set=12, volume=99, hitsound_file="old.wav", sample_set=2)],
                [L(0, 1, 10, hitsound_set=2, addition_set=3, custom_set=1, volume=5)],
                samples=[S(0, "stale.wav", 10), S(10, "stale2.wav", 20)],
            ),
        ),
        "src_with_event_samples": (
            mk([H(0, 0, hitsound_set=2, volume=33)], samples=[S(0, "srcsample.wav", 10)]),
            plain_tgt,
        ),
        "unsorted_duplicate_notes": (
            mk(
                [
                    H(200, 0, hitsound_set=8, volume=10),
                    H(0, 0, hitsound_set=2, volume=10),
                    H(200, 0, hitsound_set=8, volume=10),
                    H(0, 0, hitsound_set=2, volume=10),
                ]
            ),
            mk([H(200, 3), H(0, 3), H(200, 3), H(0, 3), H(0, 3)], [L(200, 3, 1), L(0, 3, 1)]),
        ),
        "float_and_negative_times": (
            mk(
                [H(-100.5, 0, hitsound_set=2, volume=10), H(0.25, 0, hitsound_file="f.wav")],
                [L(1e6, 0, 0, hitsound_set=4, volume=10)],
            ),
            mk([H(-100.5, 0), H(0.25, 1), H(0.2500001, 1)], [L(1e6, 6, 0)], keys=7),
        ),
        "same_map_both_sides": None,
    }
    for label, pair in edge.items():
        if pair is None:
            m = mk(
                [H(0, 0, hitsound_set=2, volume=20), H(0, 1, hitsound_file="s.wav", volume=20)],
                [L(0, 2, 10, hitsound_set=12, volume=30)],
                samples=[S(0, "keep.wav", 10)],
            )
            run_case("edge:" + label, m, m)
        else:
            run_case("edge:" + label, *pair)

    # --- bundled test charts ------------------------------------------------
    d = Path("tests/algorithm_tests/osu/hitsound_copy")
    if (d / "source.osu").exists():
        src = OsuMap.read_file(d / "source.osu")
        tgt = OsuMap.read_file(d / "target.osu")
        run_case("bundled", src, tgt)
        run_case("bundled:reversed", tgt, src)
        s2, t2 = deepcopy(src), deepcopy(tgt)
        s2.holds = OsuHoldList([])
        t2.holds = OsuHoldList([])
        run_case("bundled:nolns", s2, t2)

    # --- generated pairs ----------------------------------------------------
    n = 0
    for keys in (1, 4, 7, 10):
        for density in ("sparse", "dense", "overflow", "files", "odd"):
            for rep in range(3):
                n += 1
                odd = density == "odd"
                times = time_pool(rng, rng.choice([2, 3, 6]), odd)
                if density == "sparse":
                    src = rand_map(rng, keys, times, 4, 2, 0.5, 0.2)
                    tgt = rand_map(rng, keys, times + [9999.0], 6, 3, 0.3, 0.1)
                elif density == "dense":
                    src = rand_map(rng, keys, times, 14, 6, 0.8, 0.3)
                    tgt = rand_map(rng, keys, times, 16, 8, 0.5, 0.2, samples=2)
                elif density == "overflow":
                    src = rand_map(rng, keys, times[:2], 16, 8, 0.9, 0.6)
                    tgt = rand_map(rng, keys, times, 3, 2, 0.0, 0.0)
                elif density == "files":
                    src = rand_map(rng, keys, times[:2], 10, 5, 0.1, 1.0)
                    tgt = rand_map(rng, keys, times, 4, rep, 0.0, 0.0)
                else:
                    src = rand_map(rng, keys, times, 10, 5, 0.7, 0.5, odd=True, samples=1)
                    tgt = rand_map(rng, keys, times, 8, 4, 0.2, 0.2, odd=True)
                if rep == 1:
                    # one side without holds / without hits
                    src.holds = OsuHoldList([])
                    tgt.hits = OsuHitList([])
                if rep == 2 and density in ("sparse", "files"):
                    tgt.holds = OsuHoldList([])
                run_case(f"gen:{n}:k{keys}:{density}:{rep}", src, tgt)

    # --- OsuMap.reset_samples on its own (all flag combinations) -----------
    for i in range(6):
        times = time_pool(rng, 3, odd=(i % 2 == 1))
        base = rand_map(rng, rng.choice([4, 7]), times, i * 2, (5 - i), 0.8, 0.5,
                        odd=(i % 2 == 1), samples=i % 3)
        for args, kwargs in (
            ((), {}),
            ((True, False), {}),
            ((False, True), {}),
            ((False, False), {}),
            ((), dict(of_samples=False)),
            ((), dict(of_notes=False)),
            ((0, 1), {}),
        ):
            m = deepcopy(base)
            hits_df, holds_df, samples_obj = m.hits.df, m.holds.df, m.samples
            emit(f"RESET {i} args={args!r} kwargs={kwargs!r}")
            try:
                ret = m.reset_samples(*args, **kwargs)
            except Exception as e:  # noqa
                emit(f" RAISED {type(e).__qualname__}")
            else:
                emit(f" RETURNED {ret!r}")
            emit(
                f" same_hits_df={m.hits.df is hits_df}"
                f" same_holds_df={m.holds.df is holds_df}"
                f" same_samples={m.samples is samples_obj}"
            )
            dump_map("reset", m)
        # twice in a row is the same as once
        m = deepcopy(base)
        m.reset_samples()
        m.reset_samples()
        dump_map("reset_twice", m)

    # --- a target whose frame has no 'length' column at all ----------------
    src = mk([H(0, 0, hitsound_set=2, volume=20), H(0, 1, hitsound_file="n.wav", volume=20)])
    tgt = mk([H(0, 0), H(0, 1), H(0, 2)])
    try:
        tgt.objs["holds"].df = tgt.objs["holds"].df.drop(columns="length")
        src2 = deepcopy(src)
        src2.objs["holds"].df = src2.objs["holds"].df.drop(columns="length")
    except Exception as e:  # noqa
        emit(f"NOLENGTH setup RAISED {type(e).__qualname__}")
    else:
        run_case("nolength:tgt", src, tgt)
        run_case("nolength:both", src2, tgt)

    # --- OsuSample / OsuSampleList text round trip --------------------------
    for line in (
        "Sample,100,0,\"kick.wav\",70",
        "Sample,-5,0,\"a b.wav\",0",
        "Sample,12.5,0,\"x.wav\"",
        "Sample,1,0",
        "Sample",
        "",
    ):
        try:
            smp = OsuSample.read_string(line)
            emit("SAMPLE", repr(line), dump_value(smp.offset), dump_value(smp.sample_file),
                 dump_value(smp.volume), repr(smp.write_string()),
                 repr(OsuSample.read_string(line, as_dict=True)))
        except Exception as e:  # noqa
            emit("SAMPLE", repr(line), "RAISED", type(e).__qualname__, repr(e.args))
    emit("SAMPLE default", repr(OsuSample(5).write_string()), repr(OsuSample(5.9, "q.wav", 3).write_string()))

    text = "\n".join(OUT)
    if "--dump" in sys.argv:
        print(text)
    print("DIGEST " + hashlib.sha256(text.encode("utf8")).hexdigest())


if __name__ == "__main__":
    main()
