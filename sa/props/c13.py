"""C13 — rate change scales time uniformly, composes, and survives a write (DESIGN §5 C13)."""
from __future__ import annotations

import ast
from typing import Dict, List, Optional, Tuple

from ..model import AnalysisError, walk_no_nested, params_of, MAP, MAPSET
from .. import report as R
from ..report import RuleSpec
from .. import codec as C
from .. import cmp as P
from .common import fn_loc, short, unparse, returns_of, attr_chain

RATES = ["reamber.base.Map.Map.rate", "reamber.base.MapSet.MapSet.rate", "reamber.osu.OsuMap.OsuMap.rate",
         "reamber.sm.SMMapSet.SMMapSet.rate"]
SM_META = "reamber.sm.SMMapSetMeta.SMMapSetMeta"


def _by(fn) -> str:
    ps = [p for p in params_of(fn.node) if p != "self"]
    if len(ps) != 1:
        raise AnalysisError(f"{fn.qual}: expected exactly one rate parameter")
    return ps[0]


def rule_r1(ctx) -> List[R.Inst]:
    M, E = ctx.M, ctx.E
    insts = []
    for q in RATES:
        fn = M.fn(q)
        file, line = fn_loc(M, q)
        s = E.summary(q)
        key = short(q)
        if s.mut:
            (p, f), sites = sorted(s.mut.items())[0]
            st = sites[0]
            insts.append(R.viol("C13.R1", key, file, st.line,
                                f"rate modifies its input '{p}' instead of a copy: {st.text} {('(' + st.via + ')') if st.via else ''}",
                                construct=st.text))
        elif s.ret.all():
            insts.append(R.viol("C13.R1", key, file, line,
                                "the returned chart shares storage with the input", construct=f"{key} returns alias"))
        else:
            insts.append(R.ok("C13.R1", key, file, line, idiom="every write is rooted in a deep copy; the copy is returned"))
    return insts


def rule_r2(ctx) -> List[R.Inst]:
    M = ctx.M
    q = RATES[0]
    fn = M.fn(q)
    ty = ctx.W.typer(q, None)
    file, line = fn_loc(M, q)
    by = _by(fn)
    insts = []
    if P.rebinds(fn.node, by):
        n = P.rebinds(fn.node, by)[0]
        insts.append(R.viol("C13.R2", "rate-parameter", file, n.lineno,
                            f"the rate parameter '{by}' is modified before / between the scalings", construct=unparse(n)))
    # the stack must cover all lists of the copy
    stack_vars = {}
    for n in walk_no_nested(fn.node):
        if isinstance(n, ast.Assign) and isinstance(n.targets[0], ast.Name) and isinstance(n.value, ast.Call) and \
                isinstance(n.value.func, ast.Attribute) and n.value.func.attr == "stack":
            stack_vars[n.targets[0].id] = n
    ops: Dict[str, List[Tuple[str, ast.AST]]] = {}
    for n in walk_no_nested(fn.node):
        if not isinstance(n, (ast.Assign, ast.AugAssign)):
            continue
        sc = P.scaling(n, by)
        tgt = n.target if isinstance(n, ast.AugAssign) else n.targets[0]
        if isinstance(tgt, ast.Attribute) and ty.kind(tgt.value)[0] == "stacker":
            ops.setdefault(tgt.attr, []).append((sc[1] if sc else "other", n))
            sv = tgt.value
            if isinstance(sv, ast.Name) and sv.id in stack_vars:
                call = stack_vars[sv.id].value
                if call.args or call.keywords:
                    insts.append(R.viol("C13.R2", f"stack-scope:{tgt.attr}", file, call.lineno,
                                        "the stack used for scaling is restricted to some list types: the other lists keep "
                                        "their old times", construct=unparse(call)))
        elif isinstance(tgt, ast.Subscript) and ty.kind(tgt.value)[0] in ("stacker",):
            nm = C.const_str(tgt.slice)
            ops.setdefault(nm or "?", []).append((sc[1] if sc else "other", n))
    want = {"offset": "div", "length": "div", "bpm": "mul"}
    for name, op in want.items():
        got = ops.get(name, [])
        key = f"Map.rate:{name}"
        if len(got) == 1 and got[0][0] == op:
            insts.append(R.ok("C13.R2", key, file, got[0][1].lineno,
                              idiom=f"{name} {'/' if op == 'div' else '*'}= {by} on the stack of all lists"))
        elif not got:
            insts.append(R.viol("C13.R2", key, file, line, f"'{name}' is never scaled by the rate",
                                construct=f"Map.rate does not scale {name}"))
        else:
            n = got[0][1]
            insts.append(R.viol("C13.R2", key, file, n.lineno,
                                f"'{name}' must be {'divided' if op == 'div' else 'multiplied'} by the unmodified rate exactly once",
                                construct="; ".join(unparse(g[1]) for g in got)))
    for name in sorted(set(ops) - set(want)):
        n = ops[name][0][1]
        insts.append(R.viol("C13.R2", f"Map.rate:{name}", file, n.lineno,
                            f"rate also rewrites '{name}', which is neither a time nor a tempo", construct=unparse(n)))
    return insts


def _calls_rate_with(fn, by: str, ty) -> List[ast.Call]:
    out = []
    for n in walk_no_nested(fn.node):
        if isinstance(n, ast.Call) and isinstance(n.func, ast.Attribute) and n.func.attr == "rate":
            args = list(n.args) + [k.value for k in n.keywords if k.arg in (None, "by")]
            if len(args) == 1 and isinstance(args[0], ast.Name) and args[0].id == by:
                out.append(n)
            else:
                out.append(None)
    return out


def rule_r3(ctx) -> List[R.Inst]:
    M = ctx.M
    insts = []
    # MapSet.rate rates every chart
    q = RATES[1]
    fn = M.fn(q)
    file, line = fn_loc(M, q)
    by = _by(fn)
    good = False
    why = "no per-chart rate call over all charts found"
    for n in walk_no_nested(fn.node):
        if isinstance(n, ast.ListComp) and len(n.generators) == 1 and not n.generators[0].ifs:
            e = n.elt
            g = n.generators[0]
            if isinstance(e, ast.Call) and isinstance(e.func, ast.Attribute) and e.func.attr == "rate" and \
                    isinstance(e.func.value, ast.Name) and isinstance(g.target, ast.Name) and \
                    e.func.value.id == g.target.id:
                args = list(e.args) + [k.value for k in e.keywords]
                if len(args) == 1 and isinstance(args[0], ast.Name) and args[0].id == by:
                    it = unparse(g.iter)
                    if it.endswith(".maps") or it in ("self", "copy"):
                        good = True
                    else:
                        why = f"charts are taken from '{it}'"
                else:
                    why = "charts are rated by something other than the rate parameter"
        if isinstance(n, ast.ListComp) and n.generators[0].ifs and "rate" in unparse(n.elt):
            why = "some charts are filtered out of the rate change"
    if P.rebinds(fn.node, by):
        good, why = False, f"'{by}' is modified"
    insts.append(R.ok("C13.R3", "MapSet.rate", file, line, idiom=f"[m.rate({by}) for m in <copy>.maps]") if good else
                 R.viol("C13.R3", "MapSet.rate", file, line, why, construct="MapSet.rate propagation"))
    # overrides call the base with the same rate
    for q in RATES[2:]:
        fn = M.fn(q)
        file, line = fn_loc(M, q)
        by = _by(fn)
        sup = [n for n in walk_no_nested(fn.node) if isinstance(n, ast.Call) and isinstance(n.func, ast.Attribute) and
               n.func.attr == "rate" and isinstance(n.func.value, ast.Call) and unparse(n.func.value.func) == "super"]
        key = short(q)
        if len(sup) != 1:
            insts.append(R.viol("C13.R3", key, file, line, "override does not call the base rate exactly once",
                                construct=f"{key}: {len(sup)} super().rate calls"))
            continue
        args = list(sup[0].args) + [k.value for k in sup[0].keywords]
        if len(args) == 1 and isinstance(args[0], ast.Name) and args[0].id == by and not P.rebinds(fn.node, by):
            insts.append(R.ok("C13.R3", key, file, sup[0].lineno, idiom=f"super().rate({by})"))
        else:
            insts.append(R.viol("C13.R3", key, file, sup[0].lineno,
                                "the base rate is called with something other than the unmodified rate parameter",
                                construct=unparse(sup[0])))
    return insts


def sm_time_fields(ctx) -> List[str]:
    """SM header fields whose reader chain converts seconds to milliseconds."""
    M = ctx.M
    fn = M.fn(SM_META + "._read_metadata")
    out = []
    for n in walk_no_nested(fn.node):
        if isinstance(n, ast.Assign) and C.self_attr(n.targets[0]) and any(
                isinstance(x, ast.Attribute) and x.attr == "sec_to_msec" for x in ast.walk(n.value)):
            out.append(C.self_attr(n.targets[0]))
    return out


def _field_scalings(fn, by: str) -> Dict[str, Tuple[str, ast.AST]]:
    out = {}
    for n in walk_no_nested(fn.node):
        if isinstance(n, (ast.Assign, ast.AugAssign)):
            sc = P.scaling(n, by)
            if sc:
                ch = attr_chain(sc[0])
                if ch:
                    out[".".join(ch[1:])] = (sc[1], n)
    return out


def rule_r4(ctx) -> List[R.Inst]:
    M = ctx.M
    insts = []
    q = RATES[2]
    fn = M.fn(q)
    file, line = fn_loc(M, q)
    by = _by(fn)
    sc = _field_scalings(fn, by)
    for f in ("preview_time", "samples.offset"):
        key = f"OsuMap.rate:{f}"
        if f in sc and sc[f][0] == "div":
            insts.append(R.ok("C13.R4", key, file, sc[f][1].lineno, idiom=f"{f} /= {by}"))
        else:
            insts.append(R.viol("C13.R4", key, file, line,
                                f"file-level time '{f}' is not divided by the rate: it no longer matches the rated chart",
                                construct=f"OsuMap.rate leaves {f}" + (": " + unparse(sc[f][1]) if f in sc else "")))
    q = RATES[3]
    fn = M.fn(q)
    file, line = fn_loc(M, q)
    by = _by(fn)
    sc = _field_scalings(fn, by)
    fields = sm_time_fields(ctx)
    if len(fields) < 3:
        raise AnalysisError(f"SM header time fields derived from the reader: {fields} (expected offset, sample_start, sample_length)")
    for f in fields:
        key = f"SMMapSet.rate:{f}"
        if f in sc and sc[f][0] == "div":
            insts.append(R.ok("C13.R4", key, file, sc[f][1].lineno, idiom=f"{f} /= {by}"))
        else:
            insts.append(R.viol("C13.R4", key, file, line,
                                f"header time '{f}' (read through sec_to_msec) is not divided by the rate: the written file "
                                f"no longer matches the rated chart",
                                construct=f"SMMapSet.rate leaves {f}" + (": " + unparse(sc[f][1]) if f in sc else "")))
    return insts


SPECS = [
    RuleSpec("C13.R1", rule_r1, 4, "A3", "copy first: every mutation is rooted in a deep copy, the copy is returned"),
    RuleSpec("C13.R2", rule_r2, 3, "A7", "operator table: offset/length divided, bpm multiplied by the unmodified rate, on all lists"),
    RuleSpec("C13.R3", rule_r3, 3, "A8", "per-chart propagation with the same rate; overrides call the base"),
    RuleSpec("C13.R4", rule_r4, 5, "A1", "file-level time fields of osu and StepMania scale with the rate"),
]

META = dict(
    explanation=(
        "Rate change: the four rate functions mutate only a deep copy and return it (A3); Map.rate applies exactly the "
        "operator table {offset / by, length / by, bpm * by} through a stack over all lists with the unmodified "
        "parameter (so rate 1 is the identity and rate a then b equals a*b up to float rounding); MapSet.rate rates "
        "every chart with the same value and the overrides call the base; every file-level time field (osu preview "
        "and sample events; the StepMania header fields whose reader converts seconds to milliseconds) is divided by "
        "the rate."),
    not_decided="float rounding of composition",
)
