"""Demonstration for C19 / k=2: scroll_speed(m, override_bpm) is unchanged.

Run as:  cd /tmp/r15/C19 && PYTHONPATH=/tmp/r15/C19 /venv/bin/python demo.py
Prints one line on stdout: sha256 over a canonical text of every result
(values as float.hex, dtype, index values/dtype/name, series name), exception
types, warnings, and the state of the inputs afterwards.
"""
import copy
import hashlib
import random
import sys
import warnings

import numpy as np
import pandas as pd

import reamber
from reamber.algorithms.analysis import scroll_speed
from reamber.base import Map, MapSet
from reamber.base.lists import BpmList
from reamber.base.lists.notes import HitList, HoldList
from reamber.bms import BMSMap
from reamber.bms.lists import BMSBpmList
from reamber.bms.lists.notes import BMSHitList, BMSHoldList
from reamber.o2jam import O2JMap, O2JMapSet
from reamber.o2jam.lists import O2JBpmList
from reamber.o2jam.lists.notes import O2JHitList, O2JHoldList
from reamber.osu import OsuMap
from reamber.osu.lists import OsuBpmList, OsuSvList
from reamber.osu.lists.notes import OsuHitList, OsuHoldList
from reamber.quaver import QuaMap
from reamber.quaver.lists import QuaBpmList, QuaSvList
from reamber.quaver.lists.notes import QuaHitList, QuaHoldList
from reamber.sm import SMMap, SMMapSet
from reamber.sm.lists import SMBpmList
from reamber.sm.lists.notes import SMHitList, SMHoldList

print(reamber.__file__, file=sys.stderr)

RNG = random.Random(2915)
GAMES = {
    "osu": (OsuMap, OsuBpmList, OsuSvList, OsuHitList, OsuHoldList),
    "qua": (QuaMap, QuaBpmList, QuaSvList, QuaHitList, QuaHoldList),
    "sm": (SMMap, SMBpmList, None, SMHitList, SMHoldList),
    "o2j": (O2JMap, O2JBpmList, None, O2JHitList, O2JHoldList),
    "bms": (BMSMap, BMSBpmList, None, BMSHitList, BMSHoldList),
    "base": (Map, BpmList, None, HitList, HoldList),
}
BPM_POOL = [60.0, 90.0, 120.0, 120.5, 180.0, 240.0, 33.3, 1000.0]


def cell(v):
    if isinstance(v, (float, np.floating)):
        return "f:" + float(v).hex()
    if isinstance(v, (bool, np.bool_)):
        return "b:" + str(bool(v))
    if isinstance(v, (int, np.integer)):
        return "i:" + str(int(v))
    return type(v).__name__ + ":" + repr(v)


def frame_text(df):
    if isinstance(df, pd.Series):
        return "S|%r|%s|%s|%r|%s|%s|%s" % (
            df.name, df.dtype, type(df.index).__name__, df.index.name, df.index.dtype,
            [cell(i) for i in df.index], [cell(v) for v in df.tolist()])
    cols = list(df.columns)
    return "D|%s|%s|%s|%s|%s|%s" % (
        cols, [str(t) for t in df.dtypes], type(df.index).__name__, df.index.dtype,
        [cell(i) for i in df.index],
        [[cell(v) for v in df[c].tolist()] if cols.count(c) == 1 else "dup" for c in cols])


def map_text(m):
    if isinstance(m, MapSet):
        return "%s[%s]" % (type(m).__name__, " || ".join(map_text(x) for x in m.maps))
    return "%s{%s}" % (type(m).__name__, ";".join(
        "%s=%s:%s" % (k, type(v).__name__, frame_text(v.df)) for k, v in m.objs.items()))


def shuffle_rows(lst):
    df = lst.df
    order = list(range(len(df)))
    RNG.shuffle(order)
    lst.df = df.iloc[order]


def relabel_by_filter(lst, junk_offset=987654.25):
    """Row labels with gaps: append junk rows in between, then filter them out."""
    df = lst.df.reset_index(drop=True)
    if len(df) == 0:
        return
    rows = []
    for i in range(len(df)):
        rows.append(df.iloc[[i]])
        if RNG.random() < 0.6:
            junk = df.iloc[[i]].copy()
            junk["offset"] = junk_offset
            rows.append(junk)
    big = pd.concat(rows, ignore_index=True)
    lst.df = big[big["offset"] != junk_offset]


def gen_map(game, i):
    Map_, BpmL, SvL, HitL, HoldL = GAMES[game]
    m = Map_()
    scale = RNG.choice([1.0, 1.0, 0.25, 1000.0, 1 / 3])
    shift = RNG.choice([0.0, -5000.0, 0.5, -0.125, 1234.5678])
    t = lambda x: x * scale + shift
    n_bpm = RNG.choice([1, 1, 2, 3, 4, 6, 9])
    bpm_times = sorted(RNG.sample(range(0, 60), n_bpm))
    bpm_vals = [RNG.choice(BPM_POOL[: RNG.choice([2, 4, 8])]) for _ in range(n_bpm)]
    # objects: first object at or after the first tempo point; some on tempo points
    n_hit = RNG.choice([0, 1, 2, 5, 12])
    n_hold = RNG.choice([0, 0, 1, 3]) if n_hit else RNG.choice([1, 2])
    keys = RNG.choice([1, 4, 4, 7, 10])
    first = bpm_times[0]
    hit_times = [RNG.choice(bpm_times) if RNG.random() < 0.25 else
                 first + RNG.choice([0, 0.5, 1, 7, 20, 61, 90]) + RNG.random() * RNG.choice([0, 30])
                 for _ in range(n_hit)]
    hold_times = [first + RNG.choice([0, 2, 33, 70]) for _ in range(n_hold)]
    hold_len = [RNG.choice([0.0, 0.0, 1.5, 40.0]) * scale for _ in range(n_hold)]
    bd = {"offset": [t(x) for x in bpm_times], "bpm": bpm_vals}
    if RNG.random() < 0.5:
        bd["metronome"] = [RNG.choice([3.0, 4.0, 7.0]) for _ in range(n_bpm)]
    m.bpms = BpmL.from_dict(bd)
    m.hits = HitL.from_dict({"offset": [t(x) for x in hit_times],
                             "column": [RNG.randrange(keys) for _ in range(n_hit)]})
    m.holds = HoldL.from_dict({"offset": [t(x) for x in hold_times],
                               "column": [RNG.randrange(keys) for _ in range(n_hold)],
                               "length": hold_len})
    lists = [m.bpms, m.hits, m.holds]
    if SvL is not None:
        # svs: anywhere, before the first tempo point, after the last object,
        # on tempo points, on objects, several on one time
        n_sv = RNG.choice([0, 0, 1, 3, 6, 10])
        sv_times = []
        for _ in range(n_sv):
            r = RNG.random()
            if r < 0.3:
                sv_times.append(RNG.choice(bpm_times))
            elif r < 0.45 and sv_times:
                sv_times.append(RNG.choice(sv_times))
            elif r < 0.6:
                sv_times.append(first - RNG.choice([1, 2.5, 30]))
            elif r < 0.7 and hit_times:
                sv_times.append(RNG.choice(hit_times))
            else:
                sv_times.append(RNG.choice(range(0, 200)) + RNG.choice([0, 0.5]))
        sv_vals = [RNG.choice([1.0, 0.5, 2.0, 0.01, 10.0, 1.25, -1.0, 0.0]) for _ in range(n_sv)]
        m.svs = SvL.from_dict({"offset": [t(x) for x in sv_times], "multiplier": sv_vals})
        lists.append(m.svs)
    mode = i % 4
    for lst in lists:
        if mode in (1, 3):
            relabel_by_filter(lst)
        if mode in (2, 3):
            shuffle_rows(lst)
    return m


OVERRIDES = [None, None, 0, 150.0, 0.5, np.float64(200.0), 100, 1e-3, 7]


def special_cases():
    out = []
    for game in GAMES:
        Map_, BpmL, SvL, HitL, HoldL = GAMES[game]
        # empty bpm list (outside the quantifier): with and without override
        m = Map_()
        m.hits = HitL.from_dict({"offset": [0.0, 10.0], "column": [0, 1]})
        out.append(("empty-bpms-" + game, m, None))
        out.append(("empty-bpms-ov-" + game, copy.deepcopy(m), 120.0))
        # a completely empty chart
        out.append(("empty-map-" + game, Map_(), None))
        out.append(("empty-map-ov-" + game, Map_(), 120.0))
        # no objects at all, only tempo points
        m = Map_()
        m.bpms = BpmL.from_dict({"offset": [0.0, 50.0, 70.0], "bpm": [100.0, 200.0, 100.0]})
        out.append(("no-objects-" + game, m, None))
        # objects before the first tempo point (outside the quantifier)
        m = Map_()
        m.bpms = BpmL.from_dict({"offset": [10.0, 50.0], "bpm": [100.0, 200.0]})
        m.hits = HitL.from_dict({"offset": [-100.0, 400.0], "column": [0, 0]})
        if SvL is not None:
            m.svs = SvL.from_dict({"offset": [-200.0, 10.0, 10.0, 500.0], "multiplier": [3.0, 2.0, 4.0, 9.0]})
        out.append(("early-object-" + game, m, None))
        # bpm 0 / nan / negative, negative override, bad override types
        m = Map_()
        m.bpms = BpmL.from_dict({"offset": [0.0, 5.0, 9.0, 12.0], "bpm": [0.0, float("nan"), -60.0, 60.0]})
        m.hits = HitL.from_dict({"offset": [20.0], "column": [0]})
        if SvL is not None:
            m.svs = SvL.from_dict({"offset": [5.0, 6.0], "multiplier": [float("nan"), float("inf")]})
        out.append(("odd-bpms-" + game, m, None))
        out.append(("odd-bpms-negov-" + game, copy.deepcopy(m), -90.0))
        out.append(("odd-bpms-strov-" + game, copy.deepcopy(m), "fast"))
        out.append(("odd-bpms-arrov-" + game, copy.deepcopy(m), np.array([1.0, 2.0])))
        # integer-typed columns everywhere
        m = Map_()
        b = BpmL.from_dict({"offset": [0.0, 100.0, 300.0], "bpm": [100.0, 200.0, 100.0]})
        b.df = b.df.astype({"offset": "int64", "bpm": "int64"})
        m.bpms = b
        h = HitL.from_dict({"offset": [0.0, 1000.0], "column": [0, 3]})
        h.df = h.df.astype({"offset": "int64"})
        m.hits = h
        ho = HoldL.from_dict({"offset": [5.0], "column": [1], "length": [0.0]})
        ho.df = ho.df.astype({"offset": "int64"})
        m.holds = ho
        if SvL is not None:
            s = SvL.from_dict({"offset": [50.0, 100.0], "multiplier": [2.0, 3.0]})
            s.df = s.df.astype({"offset": "int64", "multiplier": "int64"})
            m.svs = s
        if all(v.df["offset"].dtype == "int64" or len(v.df) == 0 for v in m.objs.values()):
            pass
        out.append(("int-cols-" + game, m, None))
        # two tempo points on one time, identical and different (outside the quantifier)
        m = Map_()
        m.bpms = BpmL.from_dict({"offset": [0.0, 40.0, 40.0, 80.0, 80.0], "bpm": [90.0, 180.0, 180.0, 60.0, 70.0]})
        m.hits = HitL.from_dict({"offset": [10.0, 100.0], "column": [0, 1]})
        out.append(("coincident-bpms-" + game, m, None))
        # duplicated row labels in the bpm frame
        m = Map_()
        b = BpmL.from_dict({"offset": [0.0, 40.0, 60.0], "bpm": [90.0, 180.0, 90.0]})
        b.df.index = [7, 7, -1]
        m.bpms = b
        m.hits = HitL.from_dict({"offset": [10.0, 100.0], "column": [0, 1]})
        out.append(("dup-labels-" + game, m, None))
        # bpm frame without a bpm column
        m = Map_()
        m.bpms = BpmL(pd.DataFrame({"offset": [0.0, 10.0]}))
        m.hits = HitL.from_dict({"offset": [10.0, 100.0], "column": [0, 1]})
        out.append(("no-bpm-col-" + game, m, 100.0))
    # several charts in a set: every chart, and the set itself
    sm_set = SMMapSet()
    sm_set.maps = [gen_map("sm", 100 + j) for j in range(3)]
    o2j_set = O2JMapSet()
    o2j_set.maps = [gen_map("o2j", 200 + j) for j in range(3)]
    base_set = MapSet([gen_map("base", 300 + j) for j in range(2)])
    for nm, st in (("smset", sm_set), ("o2jset", o2j_set), ("baseset", base_set)):
        for j, x in enumerate(st.maps):
            out.append(("%s-chart%d" % (nm, j), x, OVERRIDES[j]))
        out.append((nm + "-whole", st, None))
        out.append((nm + "-whole-ov", st, 90.0))
    return out


def run_case(name, m, override, use_kw):
    before = map_text(m)
    snapshot = copy.deepcopy(m)
    lines = ["CASE %s override=%s kw=%s" % (
        name, cell(override) if not isinstance(override, np.ndarray) else "arr", use_kw)]
    with warnings.catch_warnings(record=True) as w:
        warnings.simplefilter("always")
        try:
            if override is None and not use_kw:
                res = scroll_speed(m)
            elif use_kw:
                res = scroll_speed(m, override_bpm=override)
            else:
                res = scroll_speed(m, override)
            lines.append("RES %s %s" % (type(res).__name__, frame_text(res)))
            # using the result afterwards must not reach back into the map
            res.iloc[:] = 5.0
            res.index = res.index + 1
        except Exception as e:  # noqa
            lines.append("EXC %s" % type(e).__name__)
    lines.append("WARN %s" % sorted(x.category.__name__ for x in w))
    after = map_text(m)
    lines.append("INPUT-UNCHANGED %s %s" % (before == after, map_text(snapshot) == after))
    lines.append("AFTER " + after)
    return lines


def main():
    text = []
    n = 0
    order = ["osu", "qua", "osu", "qua", "sm", "osu", "qua", "o2j", "bms", "base"]
    for i in range(70):
        game = order[i % len(order)]
        m = gen_map(game, i // 2)
        ov = OVERRIDES[i % len(OVERRIDES)]
        text += run_case("gen%02d-%s" % (i, game), m, ov, use_kw=(i % 3 == 0))
        n += 1
    for name, m, ov in special_cases():
        text += run_case(name, m, ov, use_kw=False)
        n += 1
    blob = "\n".join(text)
    print("cases:", n, "exceptions:", blob.count("\nEXC "), file=sys.stderr)
    if "--dump" in sys.argv:
        sys.stderr.write(blob + "\n")
    print(hashlib.sha256(blob.encode()).hexdigest())


main()
