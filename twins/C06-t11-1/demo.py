"""Exercises the Quaver reader / writer (metadata, sections, lists) on a broad,
deterministic set of documents and in-memory charts and prints one digest.

Run:  cd /tmp/wt7/C06 && PYTHONPATH=/tmp/wt7/C06 /venv/bin/python demo.py
"""
import copy
import hashlib
import random
import warnings
from dataclasses import fields
from pathlib import Path

import numpy as np
import pandas as pd
import yaml

import reamber
from reamber.quaver import QuaMap
from reamber.quaver.QuaMapMeta import QuaMapMeta
from reamber.quaver.QuaBpm import QuaBpm
from reamber.quaver.QuaHit import QuaHit
from reamber.quaver.QuaHold import QuaHold
from reamber.quaver.QuaSv import QuaSv
from reamber.quaver.lists.QuaBpmList import QuaBpmList
from reamber.quaver.lists.QuaSvList import QuaSvList
from reamber.quaver.lists.notes.QuaHitList import QuaHitList
from reamber.quaver.lists.notes.QuaHoldList import QuaHoldList

warnings.simplefilter("ignore")
random.seed(60612)

ROOT = Path(reamber.__file__).resolve().parents[1]
MAPS = ROOT / "rsc" / "maps"
META_FIELDS = [f.name for f in fields(QuaMapMeta)]

OUT = []


def emit(*parts):
    OUT.append(" | ".join(str(p) for p in parts))


def cell(v):
    if isinstance(v, float) and v != v:
        return "float:nan"
    return f"{type(v).__name__}:{v!r}"


def dump_df(df):
    lines = [
        "cols=" + repr(list(df.columns)),
        "dtypes=" + repr([str(t) for t in df.dtypes]),
        "index=" + repr(list(df.index)),
    ]
    for row in df.itertuples(index=False, name=None):
        lines.append("  " + ", ".join(cell(v) for v in row))
    return "\n".join(lines)


def dump_meta(m):
    return "\n".join(f"{n}={cell(getattr(m, n))}" for n in META_FIELDS)


def dump_map(m):
    parts = [type(m).__name__, dump_meta(m)]
    for k, v in m.objs.items():
        parts.append(f"[{k}] {type(v).__name__}")
        parts.append(dump_df(v.df))
    return "\n".join(parts)


def attempt(label, fn):
    """Runs fn, records its text result or the type of what it raised"""
    try:
        res = fn()
    except Exception as e:  # noqa
        emit(label, "RAISED", type(e).__name__)
        return None
    emit(label, "OK")
    return res


# ---------------------------------------------------------------------------
# Generators
# ---------------------------------------------------------------------------
STRINGS = [
    "", "plain", "with space", "colon: inside", "# hash", "- dash", "'single'",
    '"double"', "it's", "yes", "no", "null", "~", "123", "1.5", "true", "[x]",
    "{a: b}", "trailing ", " leading", "multi\nline", "tab\there", "日本語 タイトル",
    "émoji ♥", "a" * 120, "@at", "`tick`", "%pct", "&amp", "*star", "!bang", "|pipe",
    ">gt", "?q", "back\\slash", "0x1F", "1e3", "2020-01-01", "=", "<<",
]

META_KEYS = {
    "AudioFile": "str", "SongPreviewTime": "int", "BackgroundFile": "str",
    "BannerFile": "str", "Genre": "str", "BPMDoesNotAffectScrollVelocity": "bool",
    "InitialScrollVelocity": "float", "HasScratchKey": "bool", "MapId": "int",
    "MapSetId": "int", "Mode": "mode", "Title": "str", "Artist": "str",
    "Source": "str", "Tags": "tags", "Creator": "str", "DifficultyName": "str",
    "Description": "str", "EditorLayers": "layers", "CustomAudioSamples": "samples",
    "SoundEffects": "effects",
}


def rand_value(kind):
    r = random.random()
    if r < 0.06:
        return None
    if kind == "str":
        return random.choice(STRINGS)
    if kind == "int":
        return random.choice([0, -1, 1, 169955, -5000, 2 ** 40, 12.5, "17"])
    if kind == "bool":
        return random.choice([True, False, 0, 1, "true"])
    if kind == "float":
        return random.choice([1.0, 0.0, -2.5, 3, 1e-9, 2.55999994, float("inf")])
    if kind == "mode":
        return random.choice(["Keys4", "Keys7", "Keys8", "Keys5", "", "keys4", 4])
    if kind == "tags":
        return random.choice(
            ["", "a", "a b c", "  a   b  ", "a\tb c", "タグ tag", 123, 0, 4.5, True,
             "a\nb c", ["x", "y"], " "]
        )
    if kind == "layers":
        return random.choice(
            [[], [{"Name": "Layer 1", "ColorRgb": "255,0,0"}],
             [{"Name": "L: 2", "Hidden": True}, {"Name": "l3"}], ["plain"]]
        )
    if kind == "samples":
        return random.choice([[], [{"Path": "kick.wav"}], [{"Path": "a b.wav", "UnaffectedByRate": True}]])
    if kind == "effects":
        return random.choice([[], [{"StartTime": 100, "Sample": 1, "Volume": 80}], [{"StartTime": 5.5}]])
    raise AssertionError(kind)


def rand_meta_dict(p_keep):
    d = {}
    keys = list(META_KEYS)
    if random.random() < 0.5:
        random.shuffle(keys)
    for k in keys:
        if random.random() < p_keep:
            d[k] = rand_value(META_KEYS[k])
    if random.random() < 0.3:
        d["UnknownKey"] = random.choice(STRINGS)
    if random.random() < 0.2:
        d["audio_file"] = "lowercase key is not a .qua key"
    if random.random() < 0.1:
        d[7] = "int key"
    return d


def rand_time():
    return random.choice(
        [0, 1, -341, 344, 1030, 99999, random.randint(-2000, 200000),
         random.randint(0, 5000) + random.random(), -0.5, 2 ** 33]
    )


def rand_keysounds():
    return random.choice(
        [[], [{"Sample": 1, "Volume": 100}], [{"Sample": 2}, {"Sample": 3, "Volume": 50}]]
    )


def rand_note(keys, hold, p_omit):
    n = {}
    if random.random() >= p_omit:
        n["StartTime"] = rand_time()
    n["Lane"] = random.randint(1, keys)
    if hold:
        n["EndTime"] = (n.get("StartTime", 0)) + random.choice(
            [0, 1, 50, 1000, 0.25, random.randint(1, 9000)]
        )
    if random.random() >= p_omit:
        n["KeySounds"] = rand_keysounds()
    elif random.random() < 0.2:
        n["KeySounds"] = None
    if random.random() < 0.1:
        n["EditorLayer"] = random.randint(0, 3)
    if random.random() < 0.5:
        n = dict(random.sample(list(n.items()), len(n)))
    return n


def rand_doc():
    doc = rand_meta_dict(random.choice([0.0, 0.3, 0.7, 1.0]))
    keys = random.choice([1, 4, 4, 5, 7, 7, 8, 10, 18])
    p_omit = random.choice([0.0, 0.0, 0.3, 0.6, 1.0])
    shape = random.choice(["both", "both", "hits", "holds", "none", "null", "absent"])
    if shape in ("both", "hits", "holds"):
        n_hits = 0 if shape == "holds" else random.randint(1, 8)
        n_holds = 0 if shape == "hits" else random.randint(1, 6)
        notes = [rand_note(keys, False, p_omit) for _ in range(n_hits)]
        notes += [rand_note(keys, True, p_omit) for _ in range(n_holds)]
        random.shuffle(notes)
        doc["HitObjects"] = notes
    elif shape == "none":
        doc["HitObjects"] = []
    elif shape == "null":
        doc["HitObjects"] = None
    for section, key, vals in (
        ("TimingPoints", "Bpm", [120, 175.0, 60.5, 0, -30, 1e6, 222.22]),
        ("SliderVelocities", "Multiplier", [1.0, 0, -1.5, 4.54000664, 10, 0.01]),
    ):
        shape = random.choice(["some", "some", "one", "none", "null", "absent"])
        if shape in ("some", "one"):
            rows = []
            for _ in range(1 if shape == "one" else random.randint(2, 7)):
                row = {}
                if random.random() >= p_omit:
                    row["StartTime"] = rand_time()
                if random.random() >= p_omit:
                    row[key] = random.choice(vals)
                if key == "Bpm" and random.random() < 0.1:
                    row["Signature"] = 3
                rows.append(row)
            doc[section] = rows
        elif shape == "none":
            doc[section] = []
        elif shape == "null":
            doc[section] = None
    if random.random() < 0.4:
        items = list(doc.items())
        random.shuffle(items)
        doc = dict(items)
    return doc


HANDWRITTEN = [
    # flow style, quoted scalars, comments
    "Title: 'it''s: quoted'\nArtist: \"dq \\\" \\u00e9\"\nMode: Keys4 # comment\n"
    "Tags: a  b   c\nHitObjects: [{StartTime: 10, Lane: 1}, {Lane: 4, EndTime: 30}]\n"
    "TimingPoints:\n- {Bpm: 100}\nSliderVelocities: []\n",
    # only sections
    "HitObjects:\n- Lane: 2\n- Lane: 3\n  KeySounds: []\n",
    "HitObjects:\n- StartTime: 5\n  Lane: 1\n  EndTime: 5\n",
    # only metadata
    "Title: only meta\nTags: one\n",
    # multi-document-free block scalars
    "Description: |\n  line one\n  line two\nTitle: >\n  folded\n  text\n",
    # anchors / aliases sharing one list
    "EditorLayers: &l []\nCustomAudioSamples: *l\nSoundEffects: *l\n",
    "EditorLayers: &l [{Name: a}]\nCustomAudioSamples: *l\n",
    # no lane anywhere
    "HitObjects:\n- StartTime: 5\n- StartTime: 9\n",
    "HitObjects:\n- StartTime: 5\n  EndTime: 9\n",
    # notes that are not mappings
    "HitObjects:\n- 5\n- 6\n",
    "HitObjects:\n- abc\n",
    "TimingPoints:\n- 5\n",
    "SliderVelocities: 7\n",
    "HitObjects: {StartTime: 1, Lane: 1}\n",
    # documents that are not mappings
    "", "\n", "- a\n- b\n", "just a scalar\n", "42\n", "null\n", "[]\n", "{}\n",
    # broken yaml
    "Title: [unclosed\n", "a: b: c\n", "\tTitle: tab\n",
    # duplicated keys, last wins
    "Title: first\nTitle: second\n",
    # python-specific tag refused by the safe loader
    "Title: !!python/object/apply:os.getcwd []\n",
    # float times
    "HitObjects:\n- StartTime: 10.75\n  Lane: 1\n- StartTime: 20.5\n  Lane: 2\n  EndTime: 30.25\n"
    "TimingPoints:\n- StartTime: 0.9\n  Bpm: 150\nSliderVelocities:\n- StartTime: -0.9\n  Multiplier: 2\n",
    # strings where numbers are expected
    "HitObjects:\n- StartTime: '10'\n  Lane: 1\n",
    "TimingPoints:\n- StartTime: x\n  Bpm: y\n",
    "SongPreviewTime: soon\nMapId: none\nTags: 2020-01-01\n",
]


# ---------------------------------------------------------------------------
# 1. documents -> chart -> document -> chart -> document
# ---------------------------------------------------------------------------
def cycle(label, text_or_lines):
    m = attempt(label + " read", lambda: QuaMap.read(text_or_lines))
    if m is None:
        return
    emit(dump_map(m))
    before = dump_map(m)
    out = attempt(label + " write", lambda: m.write())
    emit(label + " write leaves chart", dump_map(m) == before)
    if out is None:
        return
    emit(out)
    m2 = attempt(label + " reread", lambda: QuaMap.read(out))
    if m2 is None:
        return
    emit(dump_map(m2))
    out2 = attempt(label + " rewrite", lambda: m2.write())
    emit(label + " fixpoint", out2 == out)
    # the same document as a list of lines
    m3 = attempt(label + " read lines", lambda: QuaMap.read(out.split("\n")))
    if m3 is not None:
        emit(label + " lines same", dump_map(m3) == dump_map(m2))


for i, text in enumerate(HANDWRITTEN):
    cycle(f"hand{i}", text)

for i in range(70):
    doc = rand_doc()
    kept = copy.deepcopy(doc)
    try:
        text = yaml.safe_dump(
            doc, sort_keys=False, allow_unicode=random.random() < 0.5,
            default_flow_style=random.choice([False, False, None]),
        )
    except Exception as e:  # noqa
        emit(f"doc{i}", "undumpable", type(e).__name__)
        continue
    emit(f"doc{i} source", text)
    cycle(f"doc{i}", text if i % 3 else text.split("\n"))
    assert doc == kept or any(v != v for v in [0])

# other kinds of `lines`
base = "Title: t\nHitObjects:\n- StartTime: 1\n  Lane: 1\n"
for label, arg in (
    ("tuple", tuple(base.split("\n"))),
    ("generator", (l for l in base.split("\n"))),
    ("bytes", base.encode()),
    ("list of bytes", [l.encode() for l in base.split("\n")]),
    ("empty list", []),
    ("none", None),
    ("int", 5),
    ("lines with newline", base.splitlines(keepends=True)),
):
    m = attempt("lines " + label, lambda: QuaMap.read(arg))
    if m is not None:
        emit(dump_map(m))

# ---------------------------------------------------------------------------
# 2. _read_metadata / _write_meta directly, on fresh and on filled charts
# ---------------------------------------------------------------------------
def rand_filled(cls):
    m = cls()
    for k, kind in META_KEYS.items():
        if random.random() < 0.6:
            pass
    m.audio_file = random.choice(STRINGS)
    m.song_preview_time = random.randint(-5, 10 ** 6)
    m.background_file = random.choice(STRINGS)
    m.banner_file = random.choice(STRINGS)
    m.genre = random.choice(STRINGS)
    m.bpm_does_not_affect_scroll_velocity = random.random() < 0.5
    m.initial_scroll_velocity = random.choice([1.0, 2.5, 0.0])
    m.has_scratch_key = random.random() < 0.5
    m.map_id = random.randint(-1, 99999)
    m.map_set_id = random.randint(-1, 99999)
    m.mode = random.choice(["Keys4", "Keys7", "Keys8", ""])
    m.title = random.choice(STRINGS)
    m.artist = random.choice(STRINGS)
    m.source = random.choice(STRINGS)
    m.tags = random.choice([[], ["a"], ["a", "b c", ""], ["タグ"], ["x"] * 5])
    m.creator = random.choice(STRINGS)
    m.difficulty_name = random.choice(STRINGS)
    m.description = random.choice(STRINGS)
    m.editor_layers = random.choice([[], [{"Name": "kept"}]])
    m.custom_audio_samples = random.choice([[], [{"Path": "kept.wav"}]])
    m.sound_effects = random.choice([[], [{"StartTime": 1}]])
    return m


for i in range(60):
    cls = QuaMap if i % 2 else QuaMapMeta
    m = rand_filled(cls) if i % 3 else cls()
    d = rand_meta_dict(random.choice([0.0, 0.2, 0.5, 0.9, 1.0]))
    d_before = repr(d)
    ids_before = {k: id(v) for k, v in d.items()}
    attempt(f"meta{i} read", lambda: m._read_metadata(d))
    emit(dump_meta(m))
    emit(f"meta{i} dict kept", repr(d) == d_before, {k: id(v) for k, v in d.items()} == ids_before)
    # containers are taken over by reference, not copied
    emit(
        f"meta{i} same objects",
        [k for k, a in (("EditorLayers", "editor_layers"),
                        ("CustomAudioSamples", "custom_audio_samples"),
                        ("SoundEffects", "sound_effects")) if k in d and getattr(m, a) is d[k]],
    )
    if i % 5 == 0:
        m.tags = random.choice([["ok", 5], None, "abc", ("t", "u")])
    state = dump_meta(m)
    w = attempt(f"meta{i} write", lambda: m._write_meta())
    emit(f"meta{i} write leaves meta", dump_meta(m) == state)
    if w is not None:
        emit(type(w).__name__, [(k, cell(v)) for k, v in w.items()])
        emit(
            f"meta{i} written objects",
            w["EditorLayers"] is m.editor_layers,
            w["CustomAudioSamples"] is m.custom_audio_samples,
            w["SoundEffects"] is m.sound_effects,
        )
        w["Title"] = "changing the written dict does not reach the chart"
        emit(dump_meta(m) == state)
    if cls is QuaMap:
        emit(f"meta{i} lists untouched", dump_map(m).count("\n"))

# _read_metadata called twice keeps what the second document omits
m = QuaMap()
m._read_metadata({"Title": "one", "Tags": "a b", "MapId": 3})
m._read_metadata({"Artist": "two"})
emit("twice", dump_meta(m))

# ---------------------------------------------------------------------------
# 3. in-memory charts, also from the converters
# ---------------------------------------------------------------------------
def rand_chart(i):
    m = rand_filled(QuaMap) if i % 2 else QuaMap()
    keys = random.choice([1, 4, 7, 8, 12])
    kind = i % 6
    n_hits = 0 if kind in (0, 2) else random.randint(1, 10)
    n_holds = 0 if kind in (0, 1) else random.randint(1, 8)
    offs = lambda: random.choice(  # noqa
        [random.randint(-500, 90000), random.uniform(-500, 90000), 0, 0.999, -0.999, 1234.5]
    )
    m.hits = QuaHitList(
        [QuaHit(offs(), random.randint(0, keys - 1), rand_keysounds()) for _ in range(n_hits)]
    )
    m.holds = QuaHoldList(
        [
            QuaHold(offs(), random.randint(0, keys - 1), random.choice([0, 0.4, 1, 250.75, 3000]), rand_keysounds())
            for _ in range(n_holds)
        ]
    )
    m.bpms = QuaBpmList(
        [QuaBpm(offs(), random.choice([120, 175.5, 0, -60, 1e5])) for _ in range(random.randint(0, 4))]
    )
    m.svs = QuaSvList(
        [QuaSv(offs(), random.choice([1, 0, -2.5, 4.54000664])) for _ in range(random.randint(0, 6))]
    )
    return m


def chart_cycle(label, m):
    before = dump_map(m)
    emit(label, before)
    for name in ("hits", "holds", "bpms", "svs"):
        lst = getattr(m, name)
        y = attempt(f"{label} {name}.to_yaml", lambda: lst.to_yaml())
        if y is not None:
            emit(repr([[(k, cell(v)) for k, v in r.items()] for r in y]))
    out = attempt(label + " write", lambda: m.write())
    emit(label + " write leaves chart", dump_map(m) == before)
    if out is None:
        return
    emit(out)
    m2 = attempt(label + " read back", lambda: QuaMap.read(out))
    if m2 is None:
        return
    emit(dump_map(m2))
    emit(label + " fixpoint", attempt(label + " rewrite", lambda: m2.write()) == out)


for i in range(36):
    chart_cycle(f"chart{i}", rand_chart(i))

# a chart with a NaN / infinite time cannot be written as integers
bad = rand_chart(3)
bad.hits.offset = [float("nan")] * len(bad.hits)
chart_cycle("nan chart", bad)
bad = rand_chart(5)
bad.svs = QuaSvList([QuaSv(float("inf"), 1.0)])
chart_cycle("inf chart", bad)

from reamber.algorithms.convert import OsuToQua, SMToQua, BMSToQua, O2JToQua, QuaToOsu  # noqa
from reamber.bms.BMSMap import BMSMap  # noqa
from reamber.o2jam import O2JMapSet  # noqa
from reamber.osu import OsuMap  # noqa
from reamber.sm import SMMapSet  # noqa


def head(m, n=25):
    """Keeps the converted charts small: the first n rows of every list"""
    for k in list(m.objs):
        lst = m.objs[k]
        lst.df = lst.df.iloc[:n].reset_index(drop=True)
    return m


for name in ("Gravity.osu", "Escapes.osu", "LNDan14.osu", "AvengerHitsoundable.osu"):
    q = attempt("osu " + name, lambda: OsuToQua.convert(OsuMap.read_file(MAPS / "osu" / name), raise_bad_mode=False))
    if q is not None:
        chart_cycle("osu " + name, head(q))
for name in ("Escapes.sm", "Gravity.sm"):
    qs = attempt("sm " + name, lambda: SMToQua.convert(SMMapSet.read_file(MAPS / "sm" / name), raise_bad_mode=False))
    for j, q in enumerate(qs or []):
        chart_cycle(f"sm {name} {j}", head(q))
for name in ("coldBreath.bme", "searoad.bml"):
    q = attempt("bms " + name, lambda: BMSToQua.convert(BMSMap.read_file(MAPS / "bms" / name), raise_bad_mode=False))
    if q is not None:
        chart_cycle("bms " + name, head(q))
qs = attempt("o2j", lambda: O2JToQua.convert(O2JMapSet.read_file(MAPS / "o2jam" / "o2ma178.ojn")))
for j, q in enumerate(qs or []):
    chart_cycle(f"o2j {j}", head(q))

# the shipped .qua files, whole
for name in ("CarryMeAway.qua", "NeuroCloud.qua"):
    text = (MAPS / "qua" / name).read_text(encoding="utf-8")
    m = attempt("file " + name, lambda: QuaMap.read_file(MAPS / "qua" / name))
    if m is not None:
        emit(hashlib.sha256(dump_map(m).encode()).hexdigest())
        out = m.write()
        emit("file " + name, "identical text", out == text, hashlib.sha256(out.encode()).hexdigest())
        emit("file " + name, "metadata()", m.metadata())

blob = "\n".join(OUT)
import os
if os.environ.get("DEMO_DUMP"):
    Path(os.environ["DEMO_DUMP"]).write_text(blob, encoding="utf-8", errors="backslashreplace")
import sys
print("LINES", len(OUT), file=sys.stderr)
print("DIGEST", hashlib.sha256(blob.encode("utf-8", "backslashreplace")).hexdigest())
