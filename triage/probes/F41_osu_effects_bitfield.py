"""F41 (C01): timing-point 'effects' is a bit field, kiai is bit 0.
Run:  cd /repo && /venv/bin/python /verif/triage/probes/F41_osu_effects_bitfield.py   (pinned tree: kiai read as True for effects=8)"""
from reamber.osu.OsuBpm import OsuBpm
from reamber.osu.OsuSv import OsuSv
b = OsuBpm.read_string("565.0,363.63,4,2,1,60,1,8")
s = OsuSv.read_string("565.0,-100,4,2,1,60,0,8")
k = OsuBpm.read_string("565.0,363.63,4,2,1,60,1,9")
assert (b.kiai, s.kiai, k.kiai) == (False, False, True), (b.kiai, s.kiai, k.kiai)
print("ok")
