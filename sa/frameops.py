"""Straight-line DataFrame pipelines (A2 SCHEMA helper).

Flattens a function whose body manipulates one frame variable into an ordered list
of operations — method-chain links and column stores — so that a rule can
interpret it abstractly (column set, per-column provenance, default fills).
Only the shapes the repository uses are accepted; anything else yields an
``("?", node)`` op, which the caller must treat as *undecided*.
"""
from __future__ import annotations

import ast
from dataclasses import dataclass
from typing import Any, Dict, List, Optional, Tuple


@dataclass
class Op:
    kind: str                  # root | call | store | augstore | return | ?
    name: str = ""             # method name / column name
    node: Any = None
    args: Any = None           # call node for 'call'; value expr for stores
    op: Any = None             # operator for augstore


def _is_frame(e: ast.AST, var: str) -> bool:
    """the frame variable, or (for var 'df') the list's own frame `self.df`"""
    if isinstance(e, ast.Name) and e.id == var:
        return True
    return var == "df" and isinstance(e, ast.Attribute) and e.attr == "df" and isinstance(e.value, ast.Name) and e.value.id == "self"


def _col_of_target(t: ast.AST, var: str) -> Optional[str]:
    if isinstance(t, ast.Attribute) and not isinstance(t.value, ast.Name) and _is_frame(t.value, var):
        return t.attr
    if isinstance(t, ast.Subscript) and not isinstance(t.value, ast.Name) and _is_frame(t.value, var) and \
            isinstance(t.slice, ast.Constant) and isinstance(t.slice.value, str):
        return t.slice.value
    if isinstance(t, ast.Attribute) and isinstance(t.value, ast.Name) and t.value.id == var:
        return t.attr
    if isinstance(t, ast.Subscript) and isinstance(t.value, ast.Name) and t.value.id == var and \
            isinstance(t.slice, ast.Constant) and isinstance(t.slice.value, str):
        return t.slice.value
    return None


def col_ref(e: ast.AST, var: str) -> Optional[str]:
    """df.col / df['col'] -> 'col'"""
    return _col_of_target(e, var)


def unchain(e: ast.AST) -> Tuple[ast.AST, List[ast.Call]]:
    """x.a(..).b(..) -> (x, [call a, call b])"""
    calls = []
    while isinstance(e, ast.Call) and isinstance(e.func, ast.Attribute) and not (
            e.func.attr == "DataFrame" and isinstance(e.func.value, ast.Name)):
        calls.insert(0, e)
        e = e.func.value
    return e, calls


def pipeline(fn: ast.FunctionDef, var: str = "df") -> List[Op]:
    ops: List[Op] = []

    def chain(e: ast.AST, node) -> bool:
        root, calls = unchain(e)
        if isinstance(root, ast.Name) and root.id == var:
            pass
        elif isinstance(root, ast.Attribute) and isinstance(root.value, ast.Name) and root.value.id == "self" and root.attr == "df":
            ops.append(Op("root", "self.df", node))
        elif isinstance(root, ast.Call) and isinstance(root.func, ast.Attribute) and root.func.attr == "DataFrame":
            ops.append(Op("root", "DataFrame", node, root))
        elif isinstance(root, ast.Call) and isinstance(root.func, ast.Name):
            # Constructor(df) at the end of a reader; Constructor(df.m(..).n(..)): the methods apply first
            if len(root.args) == 1 and not calls:
                r2, c2 = unchain(root.args[0])
                if isinstance(r2, ast.Name) and r2.id == var:
                    for c in c2:
                        ops.append(Op("call", c.func.attr, c, c))
            ops.append(Op("construct", root.func.id, node, root))
            return True
        else:
            return False
        for c in calls:
            ops.append(Op("call", c.func.attr, c, c))
        return True

    for s in fn.body:
        if isinstance(s, ast.Expr) and isinstance(s.value, ast.Constant):
            continue
        if isinstance(s, ast.Assign) and len(s.targets) == 1:
            t = s.targets[0]
            if isinstance(t, ast.Name) and t.id == var:
                if not chain(s.value, s):
                    ops.append(Op("?", "", s))
                continue
            c = _col_of_target(t, var)
            if c is not None:
                ops.append(Op("store", c, s, s.value))
                continue
            ops.append(Op("?", "", s))
        elif isinstance(s, ast.AugAssign):
            c = _col_of_target(s.target, var)
            if c is not None:
                ops.append(Op("augstore", c, s, s.value, s.op))
            else:
                ops.append(Op("?", "", s))
        elif isinstance(s, ast.Return) and s.value is not None:
            if not chain(s.value, s):
                ops.append(Op("?", "", s))
            ops.append(Op("return", "", s))
        else:
            ops.append(Op("?", "", s))
    return ops


def dict_arg(call: ast.Call, lit) -> Optional[Dict]:
    """first positional dict(...) / {...} argument as a Python dict (values literal or type names)."""
    if not call.args:
        return None
    a = call.args[0]
    if isinstance(a, ast.Call) and isinstance(a.func, ast.Name) and a.func.id == "dict" and not a.args:
        out = {}
        for k in a.keywords:
            v = k.value
            out[k.arg] = v.id if isinstance(v, ast.Name) else lit(v)
        return out
    if isinstance(a, ast.Dict):
        out = {}
        for k, v in zip(a.keys, a.values):
            out[lit(k)] = v.id if isinstance(v, ast.Name) else lit(v)
        return out
    return None


def axis_is_columns(call: ast.Call) -> bool:
    for k in call.keywords:
        if k.arg == "axis" and isinstance(k.value, ast.Constant) and k.value.value in (1, "columns"):
            return True
        if k.arg == "columns":
            return True
    return False
