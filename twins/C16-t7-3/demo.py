import hashlib
import importlib
import pkgutil
import random
import warnings

import numpy as np
import pandas as pd

import reamber
from reamber.base.lists.TimedList import TimedList
from reamber.base.lists.notes.HoldList import HoldList

for _m in pkgutil.walk_packages(reamber.__path__, "reamber."):
    try:
        importlib.import_module(_m.name)
    except Exception:  # optional sub-packages
        pass

OUT = []


def emit(*parts):
    OUT.append(" | ".join(str(p) for p in parts))


def subclasses(c):
    out = set()
    for s in c.__subclasses__():
        out.add(s)
        out |= subclasses(s)
    return out


LIST_CLASSES = [TimedList] + sorted(
    (c for c in subclasses(TimedList) if c.__module__.startswith("reamber.")),
    key=lambda c: (c.__module__, c.__qualname__),
)


def _instantiable(c):
    try:
        c([])
        return True
    except TypeError:  # abstract list classes
        return False


ABSTRACT = [c.__name__ for c in LIST_CLASSES if not _instantiable(c)]
LIST_CLASSES = [c for c in LIST_CLASSES if _instantiable(c)]


def rv(v):
    """canonical text of one value, with its type"""
    if isinstance(v, float) and v != v:
        return f"{type(v).__name__}:nan"
    return f"{type(v).__name__}:{v!r}"


def dump_series(s):
    if not isinstance(s, pd.Series):
        return rv(s)
    return (
        f"Series(name={s.name!r}, dtype={s.dtype}, index={[rv(i) for i in s.index]}, "
        f"values={[rv(v) for v in s.tolist()]})"
    )


def dump_df(df):
    if not isinstance(df, pd.DataFrame):
        return rv(df)
    cols = [rv(c) for c in df.columns]
    dts = [str(d) for d in df.dtypes]
    idx = [rv(i) for i in df.index]
    rows = [[rv(v) for v in df.iloc[i].tolist()] for i in range(len(df))]
    percol = [[rv(v) for v in df.iloc[:, j].tolist()] for j in range(df.shape[1])]
    return f"DF(cols={cols}, dtypes={dts}, index={type(df.index).__name__}{idx}, rows={rows}, percol={percol})"


def dump_list(tl):
    if isinstance(tl, TimedList):
        try:
            return f"{type(tl).__name__}<{dump_df(tl.df)}>"
        except Exception as e:
            return f"{type(tl).__name__}<!{type(e).__name__}:{e}>"
    return dump_any(tl)


def dump_item(it):
    from reamber.base.Series import Series

    if isinstance(it, Series):
        return f"{type(it).__name__}<{dump_series(it.data)}>"
    return dump_any(it)


def dump_any(x):
    from reamber.base.Series import Series

    if isinstance(x, TimedList):
        return dump_list(x)
    if isinstance(x, Series):
        return dump_item(x)
    if isinstance(x, pd.DataFrame):
        return dump_df(x)
    if isinstance(x, pd.Series):
        return dump_series(x)
    if isinstance(x, np.ndarray):
        return f"ndarray({x.dtype}, {[rv(v) for v in x.tolist()]})"
    if isinstance(x, (tuple, list)):
        return f"{type(x).__name__}[{', '.join(dump_any(v) for v in x)}]"
    return rv(x)


def run(label, fn, *inputs_to_recheck):
    """run fn, record result or exception and warnings, then the inputs afterwards"""
    with warnings.catch_warnings(record=True) as w:
        warnings.simplefilter("always")
        try:
            res = fn()
            if hasattr(res, "__next__"):
                res = list(res)
            text = dump_any(res)
        except Exception as e:  # noqa
            res = None
            text = f"RAISED {type(e).__name__}: {e}"
    ws = sorted(f"{x.category.__name__}:{x.message}" for x in w)
    emit(label, text, f"warnings={ws}")
    for k, inp in enumerate(inputs_to_recheck):
        emit(label, f"input{k}-after", dump_any(inp))
    return res


OFFSETS = [-1000.0, -0.5, 0.0, 0.0, 0.25, 1.0, 1.0, 1.5, 100.0, 1000.0, 2500.75, 1e6]


def rand_value(rng, name, dtype, default):
    if name == "offset":
        return rng.choice(OFFSETS)
    if name == "length":
        return rng.choice([0.0, 0.5, 1.0, 100.0, 250.25, -50.0, 1000.0])
    if dtype == "float":
        return rng.choice([0.0, 0.5, 1.0, 4.0, 120.0, 187.5, -3.0])
    if dtype == "int":
        return rng.randint(-1, 9)
    if dtype == "bool":
        return rng.random() < 0.5
    if isinstance(default, bytes):
        return rng.choice([b"", b"0A", b"ZZ"])
    if isinstance(default, list):
        return [f"k{rng.randint(0, 3)}" for _ in range(rng.randint(0, 2))]
    return rng.choice(["", "a.wav", "b.ogg"])


def rand_kwargs(rng, item_cls):
    return {k: rand_value(rng, k, t, d) for k, (t, d) in item_cls._props.items()}


def rand_items(rng, list_cls, n):
    ic = list_cls._item_class()
    return [ic(**rand_kwargs(rng, ic)) for _ in range(n)]


def rand_list(rng, list_cls, n):
    if n == 0:
        return list_cls([])
    return list_cls(rand_items(rng, list_cls, n))


def digest():
    emit("abstract list classes", ABSTRACT)
    emit("list classes", [c.__name__ for c in LIST_CLASSES])
    h = hashlib.sha256("\n".join(OUT).encode("utf-8")).hexdigest()
    print(f"DIGEST {h}")


def generic_ops(rng, tag, tl):
    """One random operation on a list; returns the resulting list (or the same)."""
    is_hold = isinstance(tl, HoldList)
    op = rng.choice(
        ["sorted", "sorted_r", "slice", "after", "before", "between", "append", "append_s", "mask"]
    )
    off = rng.choice(OFFSETS)
    off2 = rng.choice(OFFSETS)
    inc = rng.choice([True, False])
    inc2 = rng.choice([True, False, (True, False), (False, True), (True, True), (False, False)])
    if op == "sorted":
        return op, run(f"{tag}:{op}", lambda: tl.sorted(), tl)
    if op == "sorted_r":
        return op, run(f"{tag}:{op}", lambda: tl.sorted(reverse=True), tl)
    if op == "slice":
        a = rng.choice([None, 0, 1, 2, -1, -2, 5])
        b = rng.choice([None, 0, 1, 3, -1, 10])
        c = rng.choice([None, None, 1, 2, -1])
        return op, run(f"{tag}:{op}[{a}:{b}:{c}]", lambda: tl[a:b:c], tl)
    if op == "after":
        if is_hold:
            it = rng.choice([True, False])
            return op, run(f"{tag}:{op}({off},{inc},tail={it})", lambda: tl.after(off, inc, include_tail=it), tl)
        return op, run(f"{tag}:{op}({off},{inc})", lambda: tl.after(off, inc), tl)
    if op == "before":
        if is_hold:
            ih = rng.choice([True, False])
            return op, run(f"{tag}:{op}({off},{inc},head={ih})", lambda: tl.before(off, inc, include_head=ih), tl)
        return op, run(f"{tag}:{op}({off},{inc})", lambda: tl.before(off, inc), tl)
    if op == "between":
        lo, hi = min(off, off2), max(off, off2)
        if is_hold:
            ih = rng.choice([True, False])
            it = rng.choice([True, False])
            return op, run(
                f"{tag}:{op}({lo},{hi},{inc2},{ih},{it})",
                lambda: tl.between(lo, hi, inc2, include_head=ih, include_tail=it),
                tl,
            )
        return op, run(f"{tag}:{op}({lo},{hi},{inc2})", lambda: tl.between(lo, hi, inc2), tl)
    if op in ("append", "append_s"):
        kind = rng.choice(["item", "list", "series", "df"])
        extra = rand_items(rng, type(tl), rng.randint(1, 3))
        if kind == "item":
            val = extra[0]
        elif kind == "list":
            val = type(tl)(extra)
        elif kind == "series":
            val = extra[0].data
        else:
            val = type(tl)(extra).df
        return op, run(f"{tag}:{op}:{kind}", lambda: tl.append(val, sort=(op == "append_s")), tl, val)
    if op == "mask":
        return op, run(f"{tag}:{op}", lambda: tl[tl.offset != off], tl)


def observe(tag, tl):
    """All read-only observations of a list."""
    run(f"{tag}:dump", lambda: tl)
    run(f"{tag}:len", lambda: len(tl))
    n = len(tl) if isinstance(tl, TimedList) and hasattr(tl, "_df") else 0
    for i in [0, 1, -1, n - 1, n, -n - 1, np.int64(0), np.int32(-1)]:
        run(f"{tag}:getitem[{i!r}]", lambda: tl[i])
    run(f"{tag}:iter", lambda: list(tl))
    run(f"{tag}:first", lambda: tl.first_offset())
    run(f"{tag}:last", lambda: tl.last_offset())
    run(f"{tag}:first_last", lambda: tl.first_last_offset())
    run(f"{tag}:offset", lambda: tl.offset)
    run(f"{tag}:to_numpy", lambda: tl.to_numpy().tolist())


def common_walk(seed, sizes=(0, 1, 4, 9), steps=4):
    rng = random.Random(seed)
    for lc in LIST_CLASSES:
        for n in sizes:
            tag = f"{lc.__name__}/n{n}"
            tl = run(f"{tag}:build", lambda: rand_list(rng, lc, n))
            observe(tag, tl)
            cur = tl
            for s in range(steps):
                op, res = generic_ops(rng, f"{tag}/s{s}", cur)
                if isinstance(res, TimedList):
                    cur = res
                observe(f"{tag}/s{s}:{op}", cur)
            # declared fields: empty(n), from_dict
            e = run(f"{tag}:empty", lambda: lc.empty(n))
            observe(f"{tag}:empty", e)
            recs = [rand_kwargs(rng, lc._item_class()) for _ in range(n)]
            fd = run(f"{tag}:from_dict-records", lambda: lc.from_dict(recs), recs)
            observe(f"{tag}:from_dict-records", fd)
            cols = {"offset": [r["offset"] for r in recs]}
            fd2 = run(f"{tag}:from_dict-partial", lambda: lc.from_dict(cols), cols)
            observe(f"{tag}:from_dict-partial", fd2)
            run(f"{tag}:from_dict-bad", lambda: lc.from_dict({"offset": [1.0], "nope": [2]}))


def main():
    random.seed(1603)
    common_walk(1603, sizes=(0, 2, 6), steps=3)
    rng = random.Random(16033)
    from typing import Generic, TypeVar
    from reamber.base.Series import Series
    from reamber.base.Property import item_props, list_props

    def class_report(tag, c, prop_name="_props"):
        run(f"{tag}:props", lambda: [(k, list(v) if isinstance(v, (list, tuple)) else v) for k, v in getattr(c, prop_name).items()])
        run(f"{tag}:own-props", lambda: prop_name in vars(c))
        run(f"{tag}:allowed", lambda: c._from_series_allowed_names())
        run(f"{tag}:properties", lambda: sorted(k for k in dir(c) if isinstance(getattr(c, k, None), property)))
        run(f"{tag}:property-owners", lambda: [(k, [b.__name__ for b in c.__mro__ if k in vars(b)]) for k in getattr(c, prop_name)])

    # 1. every decorated class of the library (meta mix-ins included)
    seen = []
    for m in sorted(k for k in list(__import__("sys").modules) if k.startswith("reamber.")):
        mod = __import__("sys").modules[m]
        for name in sorted(vars(mod)):
            c = vars(mod)[name]
            if isinstance(c, type) and c.__module__ == m and hasattr(c, "_from_series_allowed_names") and hasattr(c, "_props"):
                if c not in seen and isinstance(getattr(c, "_props"), dict):
                    seen.append(c)
    for c in seen:
        class_report(f"lib/{c.__module__}.{c.__name__}", c)
        if issubclass(c, Series):
            kw = rand_kwargs(rng, c)
            it = run(f"lib/{c.__name__}:build", lambda: c(**kw))
            run(f"lib/{c.__name__}:getters", lambda: [(k, getattr(it, k)) for k in c._props])

            def set_all():
                for k in c._props:
                    setattr(it, k, rand_value(rng, k, *c._props[k]))
                return it

            run(f"lib/{c.__name__}:setters", set_all)

    # 2. generated hierarchies: single, multiple, diamond inheritance, classes
    #    without their own table, Generic bases, overriding keys, other prop_name
    T = TypeVar("T")
    names = ["offset", "column", "length", "bpm", "a", "b"]
    for trial in range(60):
        created = []
        pname = "_props" if trial % 5 else "_other"
        for j in range(rng.randint(3, 9)):
            if created:
                k = rng.randint(1, min(3, len(created)))
                picked = rng.sample(created, k)
                if trial % 4:  # newest first: mostly a consistent MRO
                    picked.sort(key=created.index, reverse=True)
                if rng.random() < 0.15:
                    picked.append(Series)
                bases = tuple(picked)
            else:
                bases = (Series,)
            if trial % 7 == 0 and rng.random() < 0.3:
                bases = bases + (Generic[T],)
            body = {}
            if rng.random() < 0.8 or not created:
                own = {}
                for nm in rng.sample(names, rng.randint(0, 4)):
                    own[nm] = [rng.choice(["float", "int", "object"]), rng.choice([0, 1.5, "", None])]
                body[pname] = own
            cname = f"G{trial}_{j}"
            tag = f"gen/{trial}/{cname}({','.join(getattr(b, '__name__', str(b)) for b in bases)})"
            try:
                raw = type(cname, bases, body)
            except TypeError as e:  # inconsistent MRO
                emit(tag, "type() failed", type(e).__name__)
                continue
            before = {k: [list(v) for v in d.values()] for k, d in ((b.__name__, getattr(b, pname, {})) for b in raw.__mro__ if hasattr(b, pname))}
            dec = run(f"{tag}:decorate", lambda: item_props(pname)(raw) if pname != "_props" else item_props()(raw))
            if dec is None:
                continue
            emit(f"{tag}:same-class", dec is raw)
            class_report(tag, dec, pname)
            after = {k: [list(v) for v in d.values()] for k, d in ((b.__name__, getattr(b, pname, {})) for b in raw.__mro__[1:] if hasattr(b, pname))}
            emit(f"{tag}:bases-untouched", all(before.get(k) == v for k, v in after.items()))
            created.append(dec)
            # the generated item works like a row
            kw = {k: rng.choice([1, 2.5, "v"]) for k in getattr(dec, pname)}
            it = run(f"{tag}:build", lambda: dec(**kw))
            run(f"{tag}:getters", lambda: [(k, getattr(it, k)) for k in getattr(dec, pname)])
            run(f"{tag}:from_series", lambda: dec.from_series(pd.Series({**kw, "junk": 1})))
            if pname == "_props" and "offset" in dec._props:
                lst = run(f"{tag}:list_props", lambda: list_props(dec)(type(cname + "List", (TimedList,), {})))
                if lst is not None:
                    for lbl, mk in (("empty3", lambda: lst.empty(3)), ("[]", lambda: lst([]))):
                        made = run(f"{tag}:{lbl}", mk)
                        if made is not None:
                            observe(f"{tag}:list-{lbl}", made)
    # a class with no table anywhere in its ancestry, and one below ``object`` only
    run("noprops/Series-child", lambda: item_props()(type("NoProps", (Series,), {})))
    run("noprops/plain", lambda: item_props()(type("Plain", (), {})))
    run("noprops/other-name", lambda: item_props("_zzz")(type("Other", (Series,), {"_props": {"a": ["int", 0]}})))
    plain = run("plain-with-props", lambda: item_props()(type("PlainP", (), {"_props": {"a": ["int", 0]}})))
    class_report("plain-with-props", plain)
    digest()


main()
