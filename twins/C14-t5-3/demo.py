"""Demo for refactoring 3: sv_normalize (copy + column assignment -> DataFrame.assign).

Runs sv_normalize on generated osu! and Quaver maps (and, for the exception
types, on maps of the games without SVs), records the returned SV list, the
warnings, the exception type and the whole input map afterwards, and prints
one sha256 over the canonical dump.
"""
import hashlib
import random
import sys
import warnings

import numpy as np
import pandas as pd

from reamber.algorithms.generate import sv_normalize
from reamber.base.Map import Map
from reamber.bms.BMSMap import BMSMap
from reamber.o2jam.O2JMap import O2JMap
from reamber.osu.OsuMap import OsuMap
from reamber.quaver.QuaMap import QuaMap
from reamber.sm.SMMap import SMMap

random.seed(140003)
np.random.seed(140003)

OUT = []


def emit(*parts):
    OUT.append(" | ".join(str(p) for p in parts))


def dump_df(df: pd.DataFrame) -> str:
    return (
        f"cols={list(df.columns)!r} dtypes={[str(t) for t in df.dtypes]!r} "
        f"ixtype={type(df.index).__name__}:{df.index.dtype} ix={df.index.tolist()!r} "
        f"vals={df.to_numpy(dtype=object).tolist()!r}"
    )


def dump_list(v) -> str:
    return f"{type(v).__name__}<{dump_df(v.df)}>"


def dump_map(m) -> str:
    return f"{type(m).__name__}{{" + "; ".join(
        f"{k}:{dump_list(v)}" for k, v in m.objs.items()
    ) + "}"


def make_bpms(m, kind, n):
    b = type(m.bpms).empty(n)
    if n == 0:
        m.bpms.df = b.df
        return
    if kind == "ties":
        offsets = [float(random.choice([0, 1000, 1000, 2000, 2000, 4000])) for _ in range(n)]
    elif kind == "neg":
        offsets = [float(random.randint(-3000, 3000)) for _ in range(n)]
    else:
        offsets = [round(random.uniform(0, 8000), 1) for _ in range(n)]
    if kind in ("sorted", "labels", "intbpm", "special", "filtered", "extra"):
        offsets.sort()
    if kind == "special":
        bpms = [random.choice([0.0, -120.0, float("inf"), float("nan"), 150.0, 1e-9])
                for _ in range(n)]
    elif kind == "intbpm":
        bpms = [random.choice([60, 120, 180, 240]) for _ in range(n)]
    else:
        bpms = [random.choice([90.0, 120.0, 120.0, 174.5, 200.0, 333.33]) for _ in range(n)]
    b.offset = offsets
    b.bpm = bpms
    b.metronome = [random.choice([3.0, 4.0, 4.0, 7.0]) for _ in range(n)]
    if isinstance(m, OsuMap):
        b.volume = [random.randint(0, 100) for _ in range(n)]
        b.kiai = [random.random() < 0.3 for _ in range(n)]
        b.sample_set = [random.randint(0, 3) for _ in range(n)]
        b.sample_set_index = [random.randint(0, 5) for _ in range(n)]
    if kind == "labels":
        b.df.index = pd.Index([random.choice([4, 8, 8, 1, 20]) + 3 * i * (i % 2)
                               for i in range(n)])
    if kind == "extra":
        # a user-added column that collides with the computed one
        b.df["multiplier"] = [7.0] * n
    if kind == "filtered":
        # a list that is itself the result of a query (a filtered frame)
        b = b.after(b.offset.min() - 1).before(b.offset.max() + 1)
    m.bpms.df = b.df


def make_map(M, kind, n_bpm, n_notes, n_sv):
    m = M()
    make_bpms(m, kind, n_bpm)
    h = type(m.hits).empty(n_notes)
    if n_notes:
        h.offset = [round(random.uniform(-500, 9000), 1) for _ in range(n_notes)]
        h.column = [random.randrange(7) for _ in range(n_notes)]
    m.hits.df = h.df
    nh = n_notes // 2
    ho = type(m.holds).empty(nh)
    if nh:
        ho.offset = [round(random.uniform(0, 9000), 1) for _ in range(nh)]
        ho.column = [random.randrange(7) for _ in range(nh)]
        ho.length = [round(random.uniform(10, 800), 1) for _ in range(nh)]
    m.holds.df = ho.df
    if hasattr(m, "svs"):
        s = type(m.svs).empty(n_sv)
        if n_sv:
            s.offset = [round(random.uniform(0, 8000), 1) for _ in range(n_sv)]
            s.multiplier = [random.choice([0.5, 1.0, 2.0, -1.0, 0.0]) for _ in range(n_sv)]
        m.svs.df = s.df
    return m


OVERRIDES = [
    "absent", None, 0, 0.0, 120, 120.0, -60.0, 174.5, float("nan"), float("inf"),
    np.float32(99.5), np.int64(200), True, "x", [120.0],
]

CASES = [
    ("sorted", 0, 0, 0),
    ("sorted", 0, 4, 2),
    ("sorted", 1, 0, 0),
    ("sorted", 1, 5, 0),
    ("sorted", 3, 6, 3),
    ("sorted", 6, 10, 0),
    ("unsorted", 5, 8, 2),
    ("ties", 6, 8, 1),
    ("neg", 5, 8, 0),
    ("special", 6, 8, 2),
    ("intbpm", 4, 6, 0),
    ("labels", 5, 6, 2),
    ("extra", 3, 6, 0),
    ("filtered", 4, 6, 1),
]


def run(tag, m, *args):
    before = dump_map(m)
    ids = {k: id(v.df) for k, v in m.objs.items()}
    with warnings.catch_warnings(record=True) as ws:
        warnings.simplefilter("always")
        try:
            r = sv_normalize(m, *args)
            out = dump_list(r)
            if len(r) and len(m.bpms):
                out += " shares_memory=" + str(any(
                    np.shares_memory(r.df[c].to_numpy(), m.bpms.df[c].to_numpy())
                    for c in r.df.columns if c in m.bpms.df.columns
                ))
            # change the result afterwards, both by assignment and in its buffer
            if len(r):
                r.multiplier = r.multiplier * 2
                r.offset += 3.0
                arr = r.df["offset"].to_numpy()
                if arr.flags.writeable:
                    arr += 5.0
                out += " mutated=" + dump_list(r)
        except Exception as e:  # noqa
            out = f"EXC {type(e).__name__}"
    wdump = sorted({w.category.__name__ for w in ws})
    after = dump_map(m)
    same = before == after and ids == {k: id(v.df) for k, v in m.objs.items()}
    emit(tag, [repr(a) for a in args], out, wdump,
         "INPUT_SAME" if same else "INPUT_CHANGED", after)


case = 0
for M in (OsuMap, QuaMap):
    for kind, nb, nn, ns in CASES:
        case += 1
        m = make_map(M, kind, nb, nn, ns)
        tag = f"{case}:{M.__name__}:{kind}:{nb}:{nn}:{ns}"
        for ov in OVERRIDES:
            if isinstance(ov, str) and ov == "absent":
                run(tag, m)
            else:
                run(tag, m, ov)
        # in sequence, as the docstring suggests: append the result and go again
        try:
            m2 = m.deepcopy()
            m2.svs = m2.svs.append(sv_normalize(m2, 150.0))
            run(tag + ":seq", m2)
            run(tag + ":seq", m2, 90.0)
        except Exception as e:  # noqa
            emit(tag, "seq", f"EXC {type(e).__name__}")

# games without SVs: only the exception type is of interest
for M in (Map, SMMap, BMSMap, O2JMap):
    for kind, nb, nn, ns in CASES[:5]:
        case += 1
        m = make_map(M, kind, nb, nn, ns)
        tag = f"{case}:{M.__name__}:{kind}:{nb}:{nn}"
        run(tag, m)
        run(tag, m, 120.0)

text = "\n".join(OUT)
print(f"lines {len(OUT)} changed {sum('INPUT_CHANGED' in l for l in OUT)} "
      f"exc {sum('| EXC ' in l for l in OUT)}", file=sys.stderr)
print("DIGEST", hashlib.sha256(text.encode()).hexdigest())
