"""Demo for the BMSMap.read refactoring (header / data line partition).

Generates a broad, deterministic set of BMS / BME / PMS texts, reads each with
every shipped channel layout and prints one sha256 digest over a canonical dump
of everything observable (objects, dtypes, meta, exceptions, inputs afterwards).
"""
import copy
import hashlib
import logging
import os
import random
import sys
import tempfile

import numpy as np

from reamber.bms.BMSChannel import BMSChannel
from reamber.bms.BMSMap import BMSMap

logging.disable(logging.CRITICAL)

LAYOUTS = ["BMS", "BME", "PMS", "PMS_BME", "PMS_5B"]
B36 = "0123456789ABCDEFGHIJKLMNOPQRSTUVWXYZ"
TITLES = [
    "plain",
    "two words",
    "three  spaced   words",
    "searoad tracks =side blue= (LN-Applied)",
    "海の道",  # kanji / kana, Shift-JIS encodable
    "１２３ full width",
    "#hash in title",
    "12:34 colon",
    "アルファ ベータ",
]


def b36(n):
    return B36[n // 36] + B36[n % 36]


def note_channels(layout):
    cfg = getattr(BMSChannel, layout)
    return [k.decode() for k, v in cfg.items() if isinstance(v, int)]


def gen_text(rng, layout, case):
    """One BMS text of the quantified domain (4/4 only, no channel 02)."""
    lines = []
    n_wav = rng.choice([0, 1, 3, 8, 20])
    wav_ids = rng.sample(range(1, 36 * 36 - 1), n_wav)
    ln_obj = rng.choice([None, "ZZ", "ZZ", b36(rng.randrange(1, 1295))])
    ids = [b36(i) for i in wav_ids if b36(i) != ln_obj] or ["01"]
    n_ex = rng.choice([0, 0, 1, 4])
    ex_ids = [b36(i) for i in rng.sample(range(1, 300), n_ex)]

    head = []
    head.append("#TITLE " + rng.choice(TITLES))
    head.append("#ARTIST " + rng.choice(["x", "sasakure.UK / obj:moya", "a b c"]))
    head.append("#PLAYLEVEL " + str(rng.randrange(0, 30)))
    head.append(
        "#BPM " + rng.choice(["120", "150", "90.5", "222.22", "60", "1000", "133"])
    )
    if ln_obj:
        head.append("#LNOBJ " + ln_obj)
    for k in rng.sample(["GENRE", "PLAYER", "RANK", "TOTAL", "STAGEFILE"], rng.randrange(0, 5)):
        head.append("#%s %s" % (k, rng.choice(["1", "Intelligence(7-OriginalEdit)", "a  b", "300.5"])))
    for i in wav_ids:
        head.append("#WAV%s %s.wav" % (b36(i), rng.choice(["kick", "snare 01", "a b  c", b36(i)])))
    for e in ex_ids:
        head.append("#BPM%s %s" % (e, rng.choice(["133.5", "200", "87.25", "310.125", "64"])))
    # unfilled headers and odd commands: ignored by the reader
    for k in rng.sample(["#SUBTITLE", "#BANNER", "#ENDIF", "#RANDOM"], rng.randrange(0, 3)):
        head.append(k)

    data = []
    n_meas = rng.choice([0, 1, 2, 5, 12])
    chans = note_channels(layout)
    for _ in range(rng.randrange(0, 4 * n_meas + 1) if n_meas else 0):
        measure = rng.randrange(0, n_meas)
        div = rng.choice([1, 2, 3, 4, 4, 5, 6, 7, 8, 12, 16, 24, 32, 48])
        r = rng.random()
        if r < 0.10:
            # integer tempo change, hex pairs
            ch = "03"
            objs = [
                "%02X" % rng.randrange(30, 256) if rng.random() < 0.3 else "00"
                for _ in range(div)
            ]
            if rng.random() < 0.3:
                objs = [o.lower() for o in objs]
        elif r < 0.20 and ex_ids:
            ch = "08"
            objs = [rng.choice(ex_ids) if rng.random() < 0.3 else "00" for _ in range(div)]
        elif r < 0.27:
            # channels no layout maps (BGM, BGA ...): skipped
            ch = rng.choice(["01", "04", "06", "07", "1A", "51", "D1"])
            objs = [rng.choice(ids) if rng.random() < 0.4 else "00" for _ in range(div)]
        else:
            ch = rng.choice(chans)
            objs = []
            open_head = False
            for _ in range(div):
                p = rng.random()
                if ln_obj and open_head and p < 0.35:
                    objs.append(ln_obj)
                    open_head = False
                elif ln_obj and p < (0.03 if case % 7 else 0.0):
                    objs.append(ln_obj)  # possibly an unmatched tail
                elif p < 0.55:
                    objs.append(rng.choice(ids) if rng.random() < 0.9 else b36(rng.randrange(1, 1295)))
                    open_head = True
                else:
                    objs.append("00")
        data.append("#%03d%s:%s" % (measure, ch, "".join(objs)))
    if rng.random() < 0.3 and n_meas:
        # a tempo change on measure 0 beat 0 overrides the header tempo
        data.insert(rng.randrange(0, len(data) + 1), "#00003:%02X" % rng.randrange(40, 250))

    order = rng.random()
    if order < 0.4:
        rng.shuffle(data)
    elif order < 0.6:
        data.sort()
    elif order < 0.7:
        data.sort(reverse=True)

    body = head + data
    if rng.random() < 0.4:
        # headers and data interleaved, headers after data ...
        rng.shuffle(body)
    for line in body:
        deco = rng.random()
        if deco < 0.08:
            line = "  " + line + " \t"
        elif deco < 0.14:
            line = line + "\r\n"
        elif deco < 0.18:
            line = "　" + line + "　"
        lines.append(line)
        if rng.random() < 0.12:
            lines.append(rng.choice(["", "   ", "*---------------------- HEADER FIELD", "; comment", "%URL x", "\t"]))
    return lines


EXTRA_TEXTS = [
    # no data at all
    ["#BPM 120"],
    ["#TITLE t", "#BPM 120", "", ""],
    # a repeated header: the last one wins
    ["#BPM 100", "#BPM 200", "#TITLE a", "#TITLE b c", "#00111:01"],
    # header value with leading spaces after the separating one
    ["#BPM 120", "#TITLE   three leading", "#ARTIST a", "#00111:0101"],
    # missing initial tempo
    ["#TITLE t", "#00111:01"],
    # empty text
    [],
    # only comments
    ["comment", "* x"],
    # lone command characters and malformed data lines (not BMS, kept as a guard)
    ["#BPM 120", "#"],
    ["#BPM 120", "#00111"],
    ["#BPM 120", "#00111:01:02"],
    ["#BPM 120", "#0"],
    ["#BPM 120", "#００111:01"],
    ["#BPM 120", "#TITLE\tx", "#00111:01"],
    ["#BPM 120", "#TITLE é"],
    ["#BPM 120", "#00111:01", "#é"],
]


def fmt(v):
    if isinstance(v, (float, np.floating)):
        return "f:" + float(v).hex() + ":" + type(v).__name__
    return type(v).__name__ + ":" + repr(v)


def dump_df(name, df, out):
    out.append("%s columns=%r index=%r" % (name, list(df.columns), df.index))
    out.append("%s dtypes=%r" % (name, [str(t) for t in df.dtypes]))
    for label, row in zip(df.index, df.itertuples(index=False, name=None)):
        out.append("%s %r %s" % (name, label, " | ".join(fmt(v) for v in row)))


def dump_map(m, out):
    for k in ("hits", "holds", "bpms"):
        out.append("%s type=%s" % (k, type(getattr(m, k)).__name__))
        dump_df(k, getattr(m, k).df, out)
    out.append("objs keys=%r" % list(m.objs.keys()))
    for k in ("title", "artist", "version", "ln_end_channel"):
        out.append("%s=%s" % (k, fmt(getattr(m, k))))
    out.append("exbpms=%r" % [(k, fmt(v)) for k, v in m.exbpms.items()])
    out.append("samples=%r" % list(m.samples.items()))
    out.append("misc=%r" % list(m.misc.items()))


def run(lines, layout, out, via_file=False):
    cfg = getattr(BMSChannel, layout)
    cfg_before = copy.deepcopy(cfg)
    before = list(lines)
    try:
        if via_file:
            with tempfile.TemporaryDirectory() as d:
                path = os.path.join(d, "x.bms")
                with open(path, "wb") as f:
                    f.write("\r\n".join(lines).encode("shift_jis"))
                m = BMSMap.read_file(path, note_channel_config=cfg)
        else:
            m = BMSMap.read(lines, note_channel_config=cfg)
        dump_map(m, out)
    except Exception as e:  # noqa
        out.append("RAISED %s %r" % (type(e).__name__, e.args))
    out.append("input unchanged=%r same=%r" % (lines == before, [type(x).__name__ for x in lines] == ["str"] * len(lines)))
    out.append("input=%r" % (lines,))
    out.append("config unchanged=%r" % (cfg == cfg_before and list(cfg) == list(cfg_before)))


def main():
    rng = random.Random(20261001)
    out = []
    n_ok = n_err = 0
    case = 0
    for layout in LAYOUTS:
        for _ in range(24):
            case += 1
            lines = gen_text(rng, layout, case)
            out.append("=== case %d layout %s" % (case, layout))
            run(lines, layout, out, via_file=(case % 6 == 0 and all("\r" not in x and "\n" not in x for x in lines)))
    for layout in LAYOUTS:
        for text in EXTRA_TEXTS:
            case += 1
            out.append("=== extra %d layout %s" % (case, layout))
            run(list(text), layout, out)
    # default layout argument, tuple / generator of lines
    for text in (EXTRA_TEXTS[2], EXTRA_TEXTS[3]):
        for wrap in (tuple, iter):
            try:
                m = BMSMap.read(wrap(text))
                out.append("=== default layout %s" % wrap.__name__)
                dump_map(m, out)
            except Exception as e:  # noqa
                out.append("RAISED %s %r" % (type(e).__name__, e.args))
    n_err = sum(1 for x in out if x.startswith("RAISED"))
    n_ok = sum(1 for x in out if x.startswith("hits type"))
    text = "\n".join(out)
    if os.environ.get("DEMO_VERBOSE"):
        # the full dump and the counts go to stderr: stdout is the digest only
        print(text, file=sys.stderr)
        print("cases read=%d raised=%d lines=%d" % (n_ok, n_err, len(out)), file=sys.stderr)
    print("DIGEST " + hashlib.sha256(text.encode("utf-8")).hexdigest())


if __name__ == "__main__":
    main()
