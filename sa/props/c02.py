"""C02 — StepMania reading places every object at the time its beat and tempos imply (DESIGN §5 C02)."""
from __future__ import annotations

import ast
from typing import Dict, List, Optional, Tuple

from ..model import AnalysisError, walk_no_nested, params_of, HOLDLIST
from .. import report as R
from ..report import RuleSpec
from .. import codec as C
from .. import noneflow
from .common import fn_loc, unparse, returns_of, as_dict_call
from . import sm_common as S
from . import c03

READ_NOTES = S.SMMAP + "._read_notes"


def _enum_t(st, nm, pos, over):
    return isinstance(st, ast.For) and isinstance(st.iter, ast.Call) and isinstance(st.iter.func, ast.Name) and st.iter.func.id == "enumerate" and \
        st.iter.args and unparse(st.iter.args[0]) == over and isinstance(st.target, ast.Tuple) and len(st.target.elts) == 2 and \
        isinstance(st.target.elts[pos], ast.Name) and st.target.elts[pos].id == nm


# roles of the locals of SMMap._read_notes (sa/normal.py: with_roles): the rules below name them by role
SM_READ_ROLES = (
    ("measure", lambda n, v, st: _enum_t(st, n, 0, "note_data")),
    ("measure_str", lambda n, v, st: _enum_t(st, n, 1, "note_data")),
    ("beat", lambda n, v, st: isinstance(st, ast.For) and isinstance(st.target, ast.Name) and st.target.id == n and
     isinstance(st.iter, ast.Call) and call_name_(st.iter) == "range" and unparse(st.iter.args[-1]) == "METRONOME"),
    ("beat_str", lambda n, v, st: isinstance(v, ast.Subscript) and isinstance(v.slice, ast.Slice) and unparse(v.value) == "measure_str"),
    ("snap", lambda n, v, st: _enum_t(st, n, 0, "beat_str")),
    ("snap_str", lambda n, v, st: _enum_t(st, n, 1, "beat_str")),
    ("col", lambda n, v, st: _enum_t(st, n, 0, "snap_str")),
    ("col_char", lambda n, v, st: _enum_t(st, n, 1, "snap_str")),
    ("snap_obj", lambda n, v, st: isinstance(v, ast.Call) and call_name_(v) == "Snap" and len(v.args) == 3),
    ("snap_set", lambda n, v, st: isinstance(v, ast.Call) and call_name_(v) == "set" and not v.args),
)


def _read_notes_fn(ctx):
    from ..normal import with_roles
    return with_roles(ctx.M.nfn(READ_NOTES), SM_READ_ROLES)



def reader_dispatch(ctx):
    """symbol constant name -> ('append', accumulator) | ('tail', [accumulators tried in order])"""
    M = ctx.M
    fn = _read_notes_fn(ctx)
    var = None
    # the character variable: compared against SMConst.* in an if/elif chain
    branches = []
    for n in ast.walk(fn.node):
        if isinstance(n, ast.If) and isinstance(n.test, ast.Compare) and isinstance(n.test.left, ast.Name) and \
                isinstance(n.test.comparators[0], ast.Attribute) and unparse(n.test.comparators[0].value).endswith("SMConst"):
            var = n.test.left.id
            break
    if var is None:
        raise AnalysisError("SMMap._read_notes: symbol dispatch chain not found")
    chain_body = None
    for n in ast.walk(fn.node):
        if isinstance(n, (ast.For,)) and any(isinstance(s, ast.If) and isinstance(s.test, ast.Compare) and
                                             isinstance(s.test.left, ast.Name) and s.test.left.id == var and
                                             isinstance(s.test.comparators[0], ast.Attribute) for s in n.body):
            chain_body = n.body
    if chain_body is None:
        raise AnalysisError("SMMap._read_notes: dispatch loop body not found")
    out = {}
    skip = None
    for const, body, ifn in C.eq_chain(chain_body, lambda x: isinstance(x, ast.Name) and x.id == var):
        if isinstance(const, ast.Constant):
            if any(isinstance(s, ast.Continue) for s in body):
                skip = const.value
            continue
        name = const.attr if isinstance(const, ast.Attribute) else None
        if name is None:
            continue
        appends = [n for s in body for n in ast.walk(s) if isinstance(n, ast.Call) and isinstance(n.func, ast.Attribute)
                   and n.func.attr == "append" and isinstance(n.func.value, ast.Subscript)]
        if len(body) == 1 and len(appends) == 1:
            sub = appends[0].func.value
            out[name] = ("append", unparse(sub.value), unparse(sub.slice), ifn)
        else:
            # tail: if acc[col] and isinstance(acc[col][-1], Snap): acc[col][-1] = acc[col][-1], snap ... elif ...
            tried = []
            for s in body:
                cur = s
                while isinstance(cur, ast.If):
                    stores = [x for b in cur.body for x in ast.walk(b) if isinstance(x, ast.Assign) and
                              isinstance(x.targets[0], ast.Subscript)]
                    if len(stores) == 1:
                        t = stores[0].targets[0]
                        # acc[col][-1] = acc[col][-1], snap
                        inner = t.value
                        if isinstance(inner, ast.Subscript):
                            same = unparse(t) in unparse(stores[0].value)
                            tried.append((unparse(inner.value), unparse(inner.slice), unparse(t.slice), same,
                                          unparse(inner.value) in unparse(cur.test)))
                    cur = cur.orelse[0] if len(cur.orelse) == 1 and isinstance(cur.orelse[0], ast.If) else (
                        cur.orelse if False else None)
            raises = any(isinstance(x, ast.Raise) for s in body for x in ast.walk(s))
            out[name] = ("tail", tried, raises, ifn)
    return out, skip, var, fn


def slot_assignments(ctx):
    """slot -> (list class, expander name, accumulator name, node) from
    ``self.<slot> = <List>.from_dict(<expander>(<acc>))``."""
    M = ctx.M
    fn = _read_notes_fn(ctx)
    out = {}
    for n in walk_no_nested(fn.node):
        if isinstance(n, ast.Assign) and C.self_attr(n.targets[0]) and isinstance(n.value, ast.Call) and \
                isinstance(n.value.func, ast.Attribute) and n.value.func.attr == "from_dict" and n.value.args and \
                isinstance(n.value.args[0], ast.Call) and isinstance(n.value.args[0].func, ast.Name) and \
                n.value.args[0].args and isinstance(n.value.args[0].args[0], ast.Name):
            r = M.resolve_expr(fn.mod, n.value.func.value, fn.cls)
            out[C.self_attr(n.targets[0])] = (r[1] if r and r[0] == "class" else None,
                                              n.value.args[0].func.id, n.value.args[0].args[0].id, n)
    return out, fn


def rule_r1(ctx) -> List[R.Inst]:
    M = ctx.M
    disp, skip, var, fn = reader_dispatch(ctx)
    slots, _ = slot_assignments(ctx)
    file = M.mods[fn.mod].rel
    symbols = S.sm_symbols(ctx)
    declared = M.map_slots(S.SMMAP)
    holds = S.hold_slots(ctx)
    insts = []
    acc_to_slot = {acc: s for s, (_, _, acc, _) in slots.items()}
    # every symbol constant is dispatched
    covered_values = {}
    for name, val in sorted(symbols.items()):
        key = f"symbol:{name}"
        d = disp.get(name)
        if d is None:
            # a constant sharing its value with a dispatched one (HOLD tail / ROLL tail) is covered by it
            twin = [n for n in disp if symbols.get(n) == val]
            if twin:
                insts.append(R.ok("C02.R1", key, file, disp[twin[0]][-1].lineno, idiom=f"same symbol {val!r} as {twin[0]}"))
            else:
                insts.append(R.viol("C02.R1", key, file, fn.node.lineno,
                                    f"symbol {val!r} ({name}) has no branch in the reader: such notes are silently dropped",
                                    construct=f"undispatched {name}"))
            continue
        if val in covered_values and covered_values[val] != name:
            insts.append(R.viol("C02.R1", key, file, d[-1].lineno,
                                f"symbol {val!r} is dispatched twice ({covered_values[val]} and {name}): the second branch is dead",
                                construct=f"duplicate {val}"))
            continue
        covered_values[val] = name
        if d[0] == "append":
            acc, ix = d[1], d[2]
            slot = acc_to_slot.get(acc)
            if slot is None:
                insts.append(R.viol("C02.R1", key, file, d[-1].lineno,
                                    f"{name} is collected in '{acc}', which is never turned into a list", construct=f"{name}->{acc}"))
                continue
            insts.append(R.ok("C02.R1", key, file, d[-1].lineno, idiom=f"{val!r} -> {acc}[{ix}] -> {slot}"))
        else:
            tried, raises = d[1], d[2]
            accs = [t[0] for t in tried]
            order_ok = [acc_to_slot.get(a) for a in accs] == holds or sorted(
                a for a in (acc_to_slot.get(a) for a in accs) if a) == sorted(holds)
            same_ix = all(t[1] == tried[0][1] for t in tried) if tried else False
            last = all(t[2] in ("-1",) for t in tried)
            keeps_head = all(t[3] for t in tried)
            guarded = all(t[4] for t in tried)
            if tried and order_ok and same_ix and last and keeps_head and guarded and raises:
                insts.append(R.ok("C02.R1", key, file, d[-1].lineno,
                                  idiom=f"closes the open head of the same column in {accs} (most recent entry)"))
            else:
                why = []
                if not tried:
                    why.append("tail branch shape not recognised")
                if tried and not same_ix:
                    why.append("head is looked up under a different column index than the tail's")
                if tried and not last:
                    why.append("the tail does not close the most recent head")
                if tried and not keeps_head:
                    why.append("the stored pair does not keep the head")
                if tried and not order_ok:
                    why.append(f"tails close {accs}, hold-typed lists are {holds}")
                if not raises:
                    why.append("an unmatched tail is ignored silently")
                insts.append(R.viol("C02.R1", key, file, d[-1].lineno, "; ".join(why), construct=f"tail: {tried}"))
    if skip != "0":
        insts.append(R.viol("C02.R1", "symbol:empty", file, fn.node.lineno,
                            f"the empty cell is {skip!r}, expected '0'", construct=f"skip {skip}"))
    # accumulators -> declared list classes, hold-typed through the head/tail expander
    expanders = {s[1] for s in slots.values()}
    for slot, (lc, exp, acc, node) in sorted(slots.items()):
        key = f"slot:{slot}"
        probs = []
        if slot not in declared:
            probs.append(f"'{slot}' is not a list of SMMap")
        elif lc != declared[slot]:
            probs.append(f"built as {lc.split('.')[-1] if lc else '?'} but SMMap.{slot} holds {declared[slot].split('.')[-1]}")
        is_hold = slot in holds
        hold_exp = "hold" in exp
        if is_hold != hold_exp:
            probs.append(f"{'hold-typed' if is_hold else 'tap-typed'} list goes through '{exp}'")
        if probs:
            insts.append(R.viol("C02.R1", key, file, node.lineno, "; ".join(probs), construct=unparse(node)[:120]))
        else:
            insts.append(R.ok("C02.R1", key, file, node.lineno, idiom=f"{acc} -> {exp} -> {lc.split('.')[-1]}"))
    for s in S.note_slots(ctx):
        if s not in slots:
            insts.append(R.viol("C02.R1", f"slot:{s}", file, fn.node.lineno,
                                f"note list '{s}' is never assigned by the reader", construct=f"{s} unassigned"))
    # inverse of the writer's table
    seqs, target, wfn = S.writer_parallel_lists(ctx)
    for slot, name, node in seqs[2]:
        if "TAIL" in name:
            continue
        key = f"inverse:{slot}"
        d = disp.get(name) or next((disp[n] for n in disp if symbols.get(n) == symbols.get(name)), None)
        back = acc_to_slot.get(d[1]) if d and d[0] == "append" else None
        if back == slot:
            insts.append(R.ok("C02.R1", key, file, node.lineno, idiom=f"write {slot}->{symbols.get(name)!r}, read back into {back}"))
        else:
            insts.append(R.viol("C02.R1", key, file, node.lineno,
                                f"'{slot}' is written as {symbols.get(name)!r} ({name}) but that symbol is read into '{back}'",
                                construct=f"{slot}->{name}->{back}"))
    return insts


def rule_r2(ctx) -> List[R.Inst]:
    return c03.rule_r5(ctx, rid="C02.R2")


def rule_r3(ctx) -> List[R.Inst]:
    insts = c03.rule_r1(ctx)
    for i in insts:
        i.rule = "C02.R3"
    return insts


def _reseat_arg(call: ast.Call):
    for k in call.keywords:
        if k.arg == "reseat":
            return k.value
    if len(call.args) > 2:
        return call.args[2]
    return None


def rule_r4(ctx) -> List[R.Inst]:
    M = ctx.M
    fn = _read_notes_fn(ctx)
    file = M.mods[fn.mod].rel
    insts = []
    tms = {}
    for n in walk_no_nested(fn.node):
        if isinstance(n, ast.Assign) and isinstance(n.targets[0], ast.Name) and isinstance(n.value, ast.Call) and \
                isinstance(n.value.func, ast.Attribute) and n.value.func.attr == "from_bpm_changes_snap":
            r = _reseat_arg(n.value)
            reseat = True if r is None else (r.value if isinstance(r, ast.Constant) else None)
            tms[n.targets[0].id] = (reseat, [unparse(a) for a in n.value.args[:2]], n)
    offs = [n for n in walk_no_nested(fn.node) if isinstance(n, ast.Call) and isinstance(n.func, ast.Attribute) and
            n.func.attr == "offsets" and isinstance(n.func.value, ast.Name)]
    if not offs:
        return [R.undec("C02.R4", "note-timing", file, fn.node.lineno, "no .offsets(...) call found")]
    for o in offs:
        v = o.func.value.id
        key = f"note-timing:{v}"
        if v not in tms:
            insts.append(R.undec("C02.R4", key, file, o.lineno, f"'{v}' is not built by from_bpm_changes_snap here"))
        elif tms[v][0] is False:
            insts.append(R.ok("C02.R4", key, file, o.lineno, idiom="notes timed by the un-reseated map (reseat=False)"))
        else:
            insts.append(R.viol("C02.R4", key, file, o.lineno,
                                "notes are timed through a reseated timing map: reseating moves tempo changes onto measure "
                                "lines and renumbers measures, so beat positions of the file no longer index it",
                                construct=unparse(tms[v][2])))
    # tempo list from a reseated map built from the same two arguments
    bp = [n for n in walk_no_nested(fn.node) if isinstance(n, ast.Assign) and C.self_attr(n.targets[0]) == "bpms"]
    if len(bp) != 1:
        insts.append(R.undec("C02.R4", "tempo-list", file, fn.node.lineno, "tempo list assignment not found"))
    else:
        used = [x.value.id for x in ast.walk(bp[0].value) if isinstance(x, ast.Attribute) and x.attr == "bpm_changes_offset"
                and isinstance(x.value, ast.Name)]
        if len(used) == 1 and used[0] in tms:
            reseat, args, node = tms[used[0]]
            others = [a for v, (r, a, _) in tms.items() if v != used[0]]
            if reseat is True and all(a == args for a in others):
                insts.append(R.ok("C02.R4", "tempo-list", file, bp[0].lineno, idiom="tempo list from the reseated map, same inputs"))
            elif reseat is not True:
                insts.append(R.viol("C02.R4", "tempo-list", file, bp[0].lineno,
                                    "the tempo list is built from a map whose changes may lie off measure lines "
                                    "(the writers and the timing engine require seated tempo points)",
                                    construct=unparse(node)))
            else:
                insts.append(R.viol("C02.R4", "tempo-list", file, bp[0].lineno,
                                    f"the two timing maps are built from different inputs: {args} vs {others}",
                                    construct=unparse(node)))
        else:
            insts.append(R.undec("C02.R4", "tempo-list", file, bp[0].lineno, "source of the tempo list not recognised"))
    # initial offset = the field the #OFFSET branch assigns
    rm = M.nfn(S.SMSET + "._read_maps")
    rt, _ = S.header_reader_table(ctx)
    off_field = rt.get("#OFFSET", (None, None))[1]
    passed = None
    for n in ast.walk(rm.node):
        if isinstance(n, ast.Call) and isinstance(n.func, ast.Attribute) and n.func.attr == "read":
            for k in n.keywords:
                if k.arg == "initial_offset":
                    passed = k.value
            if passed is None and len(n.args) > 2:
                passed = n.args[2]
    f2 = M.mods[rm.mod].rel
    if passed is not None and C.self_attr(passed) == off_field and off_field:
        insts.append(R.ok("C02.R4", "initial-offset", f2, rm.node.lineno, idiom=f"initial_offset = self.{off_field} (#OFFSET)"))
    else:
        insts.append(R.viol("C02.R4", "initial-offset", f2, rm.node.lineno,
                            f"charts are timed from '{unparse(passed) if passed is not None else '?'}', not from the field "
                            f"'#OFFSET' is read into ({off_field})", construct=f"initial_offset={unparse(passed) if passed is not None else '?'}"))
    return insts


def rule_r5(ctx) -> List[R.Inst]:
    M = ctx.M
    insts = []
    from .. import seqexpr as SE
    fn = M.nfn(S.SMSET + ".read", comps=True)
    file = M.mods[fn.mod].rel
    env = SE.Env(fn.node)
    # the two token sequences: what is handed to the chart reader and what is handed to the header reader
    charts_e = meta_e = None
    for n in walk_no_nested(fn.node):
        if isinstance(n, ast.Call) and call_name_(n) == "_read_maps":
            charts_e = next((k.value for k in n.keywords if k.arg == "maps"), n.args[0] if n.args else None)
        if isinstance(n, ast.Call) and call_name_(n) == "_read_metadata":
            meta_e = n.args[0] if n.args else next((k.value for k in n.keywords if k.arg in ("lines", "metadata")), None)
    A = env.of(charts_e) if charts_e is not None else None
    B = env.of(meta_e) if meta_e is not None else None

    def complement(f1: str, f2: str) -> bool:
        try:
            a, b = ast.parse(f1, mode="eval").body, ast.parse(f2, mode="eval").body
        except SyntaxError:
            return False
        if isinstance(b, ast.UnaryOp) and isinstance(b.op, ast.Not):
            return unparse(b.operand) == unparse(a)
        if isinstance(a, ast.UnaryOp) and isinstance(a.op, ast.Not):
            return unparse(a.operand) == unparse(b)
        if isinstance(a, ast.Compare) and isinstance(b, ast.Compare) and len(a.ops) == len(b.ops) == 1 and \
                unparse(a.left) == unparse(b.left) and unparse(a.comparators[0]) == unparse(b.comparators[0]):
            pairs = {(ast.In, ast.NotIn), (ast.NotIn, ast.In), (ast.Eq, ast.NotEq), (ast.NotEq, ast.Eq), (ast.Lt, ast.GtE), (ast.GtE, ast.Lt),
                     (ast.Gt, ast.LtE), (ast.LtE, ast.Gt)}
            return (type(a.ops[0]), type(b.ops[0])) in pairs
        return False

    good = False
    if A and B and len(A) == 1 and len(B) == 1:
        a, b = next(iter(A)), next(iter(B))
        if a.base == b.base and a.elt == b.elt and len(a.filters) == 1 and len(b.filters) == 1 and \
                complement(a.filters[0], b.filters[0]):
            good = True
            t = ast.parse(a.filters[0], mode="eval").body
            tok = a.elt            # '_' or the same element-wise mapping on both sides ('_.strip()')
            contains = (isinstance(t, ast.Compare) and isinstance(t.ops[0], ast.In) and C.const_str(t.left) == "#NOTES:" and
                        unparse(t.comparators[0]) == tok) or \
                       (isinstance(t, ast.Compare) and isinstance(t.left, ast.Call) and call_name_(t.left) == "find" and
                        unparse(t.left.func.value) == tok and t.left.args and C.const_str(t.left.args[0]) == "#NOTES:") or \
                       (isinstance(t, ast.Call) and call_name_(t) == "count" and unparse(t.func.value) == tok)
            prefix = any(isinstance(x, ast.Call) and call_name_(x) in ("startswith", "endswith", "match", "fullmatch")
                         for x in ast.walk(t))
            tl = getattr(charts_e, "lineno", fn.node.lineno)
            ttxt = a.filters[0].replace("_", "token")
            if not contains and prefix:
                insts.append(R.viol("C02.R5", "chart-token-predicate", file, tl,
                                    f"chart tokens are selected by a positional test ('{ttxt}'): a chart token whose tag is "
                                    f"not at the tested position (leading '//' comment lines, or a '#' inside a free-text header "
                                    f"field such as the description) is treated as metadata and the chart is silently dropped",
                                    construct=ttxt))
            elif not contains:
                insts.append(R.undec("C02.R5", "chart-token-predicate", file, tl,
                                     f"chart tokens are selected by '{ttxt}'; only the containment test "
                                     f"'\"#NOTES:\" in token' (or find/count) is known to select every chart token"))
            else:
                insts.append(R.ok("C02.R5", "chart-token-predicate", file, tl, idiom="'#NOTES:' in token"))
    if good:
        insts.append(R.ok("C02.R5", "token-partition", file, fn.node.lineno, idiom="every token goes to charts or to metadata"))
    elif A is None or B is None:
        insts.append(R.undec("C02.R5", "token-partition", file, fn.node.lineno,
                             "the token sequences handed to the chart reader and the header reader are not recognised sequence expressions"))
    else:
        insts.append(R.viol("C02.R5", "token-partition", file, fn.node.lineno,
                            "tokens of the file are not partitioned exhaustively into charts and metadata",
                            construct=f"SMMapSet.read partition: charts {sorted(map(str, A))} / headers {sorted(map(str, B))}"))
    rm = M.nfn(S.SMSET + "._read_maps")
    comps = [n for n in ast.walk(rm.node) if isinstance(n, (ast.ListComp, ast.GeneratorExp))]
    good = False
    if len(comps) == 1:
        g = comps[0].generators[0]
        ps = [p for p in params_of(rm.node) if p != "self"]
        good = not g.ifs and isinstance(g.iter, ast.Name) and g.iter.id == ps[0] and "read" in unparse(comps[0].elt) and \
            any(C.self_attr(t) == "maps" for n in ast.walk(rm.node) if isinstance(n, ast.Assign) for t in n.targets)
    insts.append(R.ok("C02.R5", "every-chart", file, rm.node.lineno, idiom="self.maps = [SMMap.read(...) for every chart token]") if good else
                 (R.viol if len(comps) == 1 else R.undec)("C02.R5", "every-chart", file, rm.node.lineno,
                        "not every chart token of the file becomes a chart of the mapset", **({"construct": "SMMapSet._read_maps"} if len(comps) == 1 else {})))
    return insts


def call_name_(n):
    if isinstance(n, ast.Call) and isinstance(n.func, ast.Attribute):
        return n.func.attr
    if isinstance(n, ast.Call) and isinstance(n.func, ast.Name):
        return n.func.id
    return None


def rule_r7(ctx) -> List[R.Inst]:
    """expanders: the column of every object is the index of its per-column buffer; times come from the snap table"""
    from ..flow import Flow, SeqV, ExprV, show, ctor_kwargs
    M = ctx.M
    rid = "C02.R7"
    fn = _read_notes_fn(ctx)
    file = M.mods[fn.mod].rel
    insts = []
    from ..normal import loopify_return_comp
    nested = [loopify_return_comp(n) for n in fn.node.body if isinstance(n, ast.FunctionDef)]
    for nf in nested:
        if not nf.args.args:
            continue
        param = nf.args.args[0].arg
        loops = [n for n in nf.body if isinstance(n, ast.For)]
        key = f"{nf.name}:column"
        if len(loops) != 1:
            insts.append(R.undec(rid, key, file, nf.lineno, "single per-column loop expected"))
            continue
        lp = loops[0]
        F = Flow()
        it = F.eval(lp.iter)
        F.bind(lp.target, ExprV(it.elem) if isinstance(it, SeqV) else it)
        dicts = [as_dict_call(n) for n in ast.walk(lp) if as_dict_call(n) is not None and
                 any(k.arg == "column" for k in as_dict_call(n).keywords)]
        if len(dicts) != 1:
            insts.append(R.undec(rid, key, file, lp.lineno, "object dict(...) not found"))
            continue
        col = next(k.value for k in dicts[0].keywords if k.arg == "column")
        got = show(F._subst_all(col)).replace(" ", "")
        want = f"@index({param})"
        if got == want:
            insts.append(R.ok(rid, key, file, lp.lineno, idiom=f"column = enumerate index over the per-column buffers '{param}'"))
        elif got.startswith("@index("):
            insts.append(R.viol(rid, key, file, lp.lineno,
                                f"the column is the running index over '{got[7:-1]}', not over the per-column buffers themselves: "
                                f"filtering or re-ordering the buffers renumbers the columns", construct=f"{nf.name}: column <- {got}"))
        else:
            insts.append(R.undec(rid, key, file, lp.lineno, f"provenance of the column not resolved: {got}"))
        # skipping empty buffers must not renumber: a `continue` is fine, slicing the iterable is not (covered above)
        # totality: every collected position yields an object — no filter on a per-object value (a time of 0.0 ms is falsy)
        key2 = f"{nf.name}:total"
        perobj = set()
        for x in ast.walk(lp):
            if x is not lp and isinstance(x, ast.For):
                perobj |= {y.id for y in ast.walk(x.target) if isinstance(y, ast.Name)}
            if isinstance(x, (ast.ListComp, ast.GeneratorExp)):
                for g in x.generators:
                    perobj |= {y.id for y in ast.walk(g.target) if isinstance(y, ast.Name)}
        # names assigned from per-object names are per-object too
        for _ in range(3):
            for x in ast.walk(lp):
                if isinstance(x, ast.Assign) and any(isinstance(y, ast.Name) and y.id in perobj for y in ast.walk(x.value)):
                    perobj |= {y.id for t in x.targets for y in ast.walk(t) if isinstance(y, ast.Name)}
        filt = []
        for x in ast.walk(lp):
            if isinstance(x, (ast.ListComp, ast.GeneratorExp)):
                for g in x.generators:
                    for c in g.ifs:
                        if any(isinstance(y, ast.Name) and y.id in perobj for y in ast.walk(c)):
                            filt.append(c)
            if isinstance(x, ast.If) and any(isinstance(y, ast.Name) and y.id in perobj for y in ast.walk(x.test)):
                filt.append(x.test)
        # ... and every per-column buffer is visited: the loop over the buffers has no early exit (a `break` / `return` at the first
        # empty buffer drops every column to its right; empty buffers are skipped with `continue`)
        def _exits(stmts, own=True):
            for st in stmts:
                if isinstance(st, ast.Return) or (own and isinstance(st, ast.Break)):
                    yield st
                elif isinstance(st, (ast.For, ast.While)):
                    yield from _exits(st.body, False)
                    yield from _exits(st.orelse, own)
                elif not isinstance(st, (ast.FunctionDef, ast.ClassDef)):
                    for fld in ("body", "orelse", "finalbody"):
                        yield from _exits(getattr(st, fld, []) or [], own)
                    for h in getattr(st, "handlers", []) or []:
                        yield from _exits(h.body, own)
        early = list(_exits(lp.body))
        if early:
            insts.append(R.viol(rid, key2, file, early[0].lineno,
                                f"the loop over the per-column buffers of {nf.name} leaves at '{unparse(early[0])}': the buffers of every column "
                                f"after that one are never expanded — a chart whose holds (rolls) do not start in column 0, or skip a column, "
                                f"loses the ones to the right", construct=f"{nf.name}: early exit from the per-column loop"))
        elif filt:
            insts.append(R.viol(rid, key2, file, filt[0].lineno,
                                f"objects are kept or dropped by a test on their own value ('{unparse(filt[0])}'): every collected position "
                                f"must yield an object — in particular a time of exactly 0.0 ms is falsy", construct=f"{nf.name}: filter {unparse(filt[0])}"))
        else:
            insts.append(R.ok(rid, key2, file, lp.lineno, idiom="one object per collected position (no per-object filter)"))
    # every expander result feeds the list of its own slot: checked by C02.R1
    if not insts:
        insts.append(R.undec(rid, "expanders", file, fn.node.lineno, "expander functions not found"))
    return insts


def _resolve_in(scope, e, depth=0):
    """a name bound exactly once inside ``scope`` stands for its value"""
    if isinstance(e, ast.Name) and depth < 4:
        ds = [n.value for n in ast.walk(scope) if isinstance(n, ast.Assign) and len(n.targets) == 1 and isinstance(n.targets[0], ast.Name) and
              n.targets[0].id == e.id]
        if len(ds) == 1:
            return _resolve_in(scope, ds[0], depth + 1)
    return e


def _row_index_form(bloop, mstr):
    """for R in range(LO, HI): ... <measure>[R] ...  inside the beat loop -> (loop, LO, HI, R): the beat's rows addressed by their
    index in the measure instead of being sliced out first"""
    for l in ast.walk(bloop):
        if l is not bloop and isinstance(l, ast.For) and isinstance(l.target, ast.Name) and isinstance(l.iter, ast.Call) and \
                call_name_(l.iter) == "range" and len(l.iter.args) == 2 and not l.iter.keywords:
            rv = l.target.id
            if any(isinstance(x, ast.Subscript) and unparse(x.value) == mstr and isinstance(x.slice, ast.Name) and x.slice.id == rv for x in ast.walk(l)):
                lo, hi = (_resolve_in(bloop, a) for a in l.iter.args)
                return l, lo, hi, rv
    return None


def rule_r9(ctx) -> List[R.Inst]:
    """row r of an n-row measure sits at beat 4r/n: slicing into METRONOME equal parts, fraction inside the part, Snap arguments"""
    from .. import sym
    M = ctx.M
    rid = "C02.R9"
    from ..normal import unroll_boundary_pairs, with_roles, _forward_subst, _blocks
    import copy as _copy
    import dataclasses as _dc
    # a computed boundary list walked pairwise (`for b, (lo, hi) in enumerate(zip(L, L[1:]))`) is read as its index loop; the
    # names introduced on the way (rows = len(measure_str), row_from, rows_in_beat) are substituted
    fn0 = unroll_boundary_pairs(ctx.M.nfn(READ_NOTES))
    node0 = _copy.deepcopy(fn0.node)
    for lp_ in [n for n in ast.walk(node0) if isinstance(n, ast.For)]:
        tmp = ast.FunctionDef(name="_", args=ast.arguments(posonlyargs=[], args=[], kwonlyargs=[], kw_defaults=[], defaults=[]),
                              body=lp_.body, decorator_list=[], lineno=lp_.lineno, col_offset=0)
        _forward_subst(tmp, {"beat_str", "snap", "snap_obj"} | {n.id for n in ast.walk(tmp) if isinstance(n, ast.Name) and n.id.isupper()})
        lp_.body = tmp.body
    fn = with_roles(_dc.replace(fn0, node=node0), SM_READ_ROLES)
    file = M.mods[fn.mod].rel
    insts = []
    loops = [n for n in ast.walk(fn.node) if isinstance(n, ast.For)]
    mloop = next((l for l in loops if isinstance(l.iter, ast.Call) and call_name_(l.iter) == "enumerate" and
                  isinstance(l.target, ast.Tuple) and unparse(l.target.elts[0]) == "measure"), None)
    bloop = next((l for l in loops if isinstance(l.iter, ast.Call) and call_name_(l.iter) == "range" and unparse(l.target) == "beat"), None)
    if bloop is None:
        # the beat loop by its content: the range loop that slices the measure
        bloop = next((l for l in loops if isinstance(l.iter, ast.Call) and call_name_(l.iter) == "range" and isinstance(l.target, ast.Name) and
                      any(isinstance(x, ast.Subscript) and isinstance(x.slice, ast.Slice) and mloop is not None and
                          unparse(x.value) == unparse(mloop.target.elts[1]) for x in ast.walk(l))), None)
    if mloop is None or bloop is None:
        return [R.undec(rid, "row-position", file, fn.node.lineno, "measure / beat loops not found")]
    mstr = unparse(mloop.target.elts[1])
    bvar = bloop.target.id
    # (a) the beat loop covers METRONOME parts
    if len(bloop.iter.args) == 1 and sym.canon(bloop.iter.args[0], lambda n: "M4" if unparse(n) == "METRONOME" else None).same(sym.parse("M4")):
        insts.append(R.ok(rid, "beat-parts", file, bloop.lineno, idiom="for beat in range(METRONOME)"))
    else:
        insts.append(R.viol(rid, "beat-parts", file, bloop.lineno, "a measure is split into METRONOME (4) beats, numbered from 0",
                            construct=unparse(bloop.iter)))
    # (b) slice bounds of the beat's rows
    sl = [n for n in ast.walk(bloop) if isinstance(n, ast.Assign) and unparse(n.targets[0]) == "beat_str" and
          isinstance(n.value, ast.Subscript) and isinstance(n.value.slice, ast.Slice)]
    rowform = _row_index_form(bloop, mstr) if len(sl) != 1 else None
    if rowform is not None:
        rl, lo, hi, rv = rowform
        lf = lambda n: ("N" if unparse(n) == f"len({mstr})" else ("M4" if unparse(n) == "METRONOME" else None))   # noqa: E731
        TR = ("float", "int", "floordiv")
        good = sym.canon(lo, lf, TR).same(sym.parse(f"{bvar} * N / M4")) and sym.canon(hi, lf, TR).same(sym.parse(f"({bvar} + 1) * N / M4"))
        insts.append(R.ok(rid, "beat-slice", file, rl.lineno, idiom="rows range(beat*n//4, (beat+1)*n//4) of the measure, each read as measure[row]") if good else
                     R.viol(rid, "beat-slice", file, rl.lineno,
                            "beat b of an n-row measure owns rows [b*n/4, (b+1)*n/4); other bounds drop or double rows",
                            construct=f"range({unparse(lo)}, {unparse(hi)})"))
        sn = [n for n in ast.walk(rl) if isinstance(n, ast.Assign) and unparse(n.targets[0]) == "snap" and isinstance(n.value, ast.Call)]
        if len(sn) == 1:
            res = lambda e: _resolve_in(bloop, e)      # noqa: E731
            lo_t, hi_t = unparse(lo), unparse(hi)
            lf3 = lambda n: ("I" if unparse(n) == rv else ("LO" if unparse(res(n)) == lo_t and not isinstance(n, ast.Constant) else
                                                               ("HI" if unparse(res(n)) == hi_t and not isinstance(n, ast.Constant) else None)))   # noqa: E731
            if sym.canon(sn[0].value, lf3).same(sym.parse("(I - LO) / (HI - LO)")):
                insts.append(R.ok(rid, "row-fraction", file, sn[0].lineno, idiom="row r of the beat's rows [lo, hi) sits at (r - lo)/(hi - lo) of the beat"))
            else:
                insts.append(R.viol(rid, "row-fraction", file, sn[0].lineno, "row i of the beat's k rows sits at i/k of the beat (i from 0)",
                                    construct=unparse(sn[0].value)))
        else:
            insts.append(R.undec(rid, "row-fraction", file, rl.lineno, "row fraction not recognised"))
    elif len(sl) != 1:
        insts.append(R.undec(rid, "beat-slice", file, bloop.lineno, "slice of the beat's rows not found"))
    else:
        lo, hi = sl[0].value.slice.lower, sl[0].value.slice.upper
        lf = lambda n: ("N" if unparse(n) == f"len({mstr})" else ("M4" if unparse(n) == "METRONOME" else None))   # noqa: E731
        TR = ("float", "int")
        good = lo is not None and hi is not None and unparse(sl[0].value.value) == mstr and \
            sym.canon(lo, lf, TR).same(sym.parse(f"{bvar} * N / M4")) and sym.canon(hi, lf, TR).same(sym.parse(f"({bvar} + 1) * N / M4"))
        if good:
            insts.append(R.ok(rid, "beat-slice", file, sl[0].lineno, idiom="rows [beat*n/4, (beat+1)*n/4) of the measure"))
        else:
            insts.append(R.viol(rid, "beat-slice", file, sl[0].lineno,
                                "beat b of an n-row measure owns rows [b*n/4, (b+1)*n/4); other bounds drop or double rows",
                                construct=unparse(sl[0].value)))
    # (c) fraction inside the beat and the Snap
    sn = [n for n in ast.walk(bloop) if isinstance(n, ast.Assign) and unparse(n.targets[0]) == "snap" and isinstance(n.value, ast.Call)]
    sloop = None if rowform is not None else next((l for l in ast.walk(bloop) if isinstance(l, ast.For) and isinstance(l.iter, ast.Call) and
                  call_name_(l.iter) == "enumerate" and unparse(l.iter.args[0]) == "beat_str"), None)
    if rowform is not None:
        pass
    elif len(sn) == 1 and sloop is not None and len(sloop.iter.args) == 1 and not sloop.iter.keywords:
        lf2 = lambda n: ("K" if unparse(n) == "len(beat_str)" else None)   # noqa: E731
        ivar = sloop.target.elts[0].id if isinstance(sloop.target, ast.Tuple) and isinstance(sloop.target.elts[0], ast.Name) else "snap"
        if sym.canon(sn[0].value, lf2).same(sym.parse(f"{ivar} / K")):
            insts.append(R.ok(rid, "row-fraction", file, sn[0].lineno, idiom="row i of the beat's k rows sits at i/k of the beat"))
        else:
            insts.append(R.viol(rid, "row-fraction", file, sn[0].lineno, "row i of the beat's k rows sits at i/k of the beat (i from 0)",
                                construct=unparse(sn[0].value)))
    else:
        insts.append(R.viol(rid, "row-fraction", file, bloop.lineno, "rows of a beat are numbered from 0 and placed at i/k",
                            construct=unparse(sloop.iter) if sloop is not None else "no row loop") if sloop is not None and
                     (len(sloop.iter.args) > 1 or sloop.iter.keywords) else
                     R.undec(rid, "row-fraction", file, bloop.lineno, "row fraction not recognised"))
    so = [n for n in ast.walk(bloop) if isinstance(n, ast.Call) and call_name_(n) == "Snap"]
    if len(so) == 1 and len(so[0].args) == 3:
        a0, a1, a2 = so[0].args
        if unparse(a0) == "measure" and sym.canon(a1).same(sym.parse(f"{bvar} + snap")) and unparse(a2) == "METRONOME":
            insts.append(R.ok(rid, "snap-args", file, so[0].lineno, idiom="Snap(measure, beat + fraction, METRONOME)"))
        elif unparse(a0) == "measure" and unparse(a2) == "METRONOME" and isinstance(a1, ast.BinOp) and isinstance(a1.op, ast.Add) and \
                bvar in (unparse(a1.left), unparse(a1.right)):
            insts.append(R.undec(rid, "snap-args", file, so[0].lineno,
                                 f"the position is (measure, {bvar} + <fraction written in place>): the fraction '{unparse(a1)[:60]}' is not followed"))
        else:
            insts.append(R.viol(rid, "snap-args", file, so[0].lineno, "an object's position is (measure, beat + fraction) in 4/4",
                                construct=unparse(so[0])))
    else:
        insts.append(R.undec(rid, "snap-args", file, bloop.lineno, "Snap construction not recognised"))
    return insts


def rule_r8(ctx) -> List[R.Inst]:
    from .common import fresh_default_insts
    return fresh_default_insts(ctx, "C02.R8")


REQUIRED_BY_DOMAIN = {"bcs_s": "#BPMS is required by the property's domain (a .sm file without tempo is not in it)"}


def rule_r6(ctx) -> List[R.Inst]:
    M = ctx.M
    q = S.SET_META + "._read_metadata"
    fn = M.fn(q)
    file = M.mods[fn.mod].rel
    rets = [n for n in walk_no_nested(fn.node) if isinstance(n, ast.Return) and isinstance(n.value, ast.Tuple)]
    if not rets:
        return [R.undec("C02.R6", "placeholders", file, fn.node.lineno, "reader does not return a tuple")]
    insts = []
    for e in rets[-1].value.elts:
        if not isinstance(e, ast.Name):
            continue
        var = e.id
        key = f"placeholder:{var}"
        init = noneflow.none_initialised(fn.node, var)
        if init is None or noneflow.unconditionally_reassigned(fn.node, var, init):
            insts.append(R.ok("C02.R6", key, file, (init or rets[-1]).lineno, idiom="never None when returned"))
            continue
        derefs, trace = noneflow.flow(M, ctx.W, q, var)
        if var in REQUIRED_BY_DOMAIN:
            insts.append(R.ok("C02.R6", key, file, init.lineno, idiom="frozen exception: " + REQUIRED_BY_DOMAIN[var]))
            continue
        if derefs:
            d = derefs[0]
            f2 = M.mods[M.funcs[d.fn].mod].rel
            insts.append(R.viol("C02.R6", key, f2, d.line,
                                f"'{var}' stays None unless its tag is present, is returned and passed along "
                                f"{' -> '.join(x.split('.')[-1] for x in d.chain + [d.fn])} and dereferenced there without a guard: "
                                f"{d.text}", construct=f"{var}=None ... {d.text}"))
        else:
            insts.append(R.ok("C02.R6", key, file, init.lineno, idiom="None placeholder is guarded or never dereferenced"))
    return insts


def dispatch_chain(fn):
    """(head `if` of the symbol dispatch chain, the loop body it sits in) of SMMap._read_notes"""
    for n in ast.walk(fn.node):
        if isinstance(n, ast.For):
            for s_ in n.body:
                if isinstance(s_, ast.If) and isinstance(s_.test, ast.Compare) and isinstance(s_.test.left, ast.Name) and \
                        isinstance(s_.test.comparators[0], ast.Attribute) and unparse(s_.test.comparators[0].value).endswith("SMConst"):
                    return s_, n.body
    raise AnalysisError("SMMap._read_notes: symbol dispatch chain not found")


def rule_r10(ctx) -> List[R.Inst]:
    """every collected position is timed: the position -> ms table that the expanders look up (with .get, so a missing key is a
    silent None) is built from every per-kind buffer that is later expanded"""
    M = ctx.M
    rid = "C02.R10"
    fn = _read_notes_fn(ctx)
    file = M.mods[fn.mod].rel
    # the lookup table: NAME = {k: v for k, v in zip(KEYS, tm.offsets(KEYS))}
    table = keys = None
    for n in walk_no_nested(fn.node):
        if isinstance(n, ast.Assign) and isinstance(n.targets[0], ast.Name) and isinstance(n.value, ast.DictComp):
            it = n.value.generators[0].iter
            if isinstance(it, ast.Call) and call_name_(it) == "zip" and len(it.args) == 2 and isinstance(it.args[0], ast.Name) and \
                    isinstance(it.args[1], ast.Call) and call_name_(it.args[1]) == "offsets":
                table, keys = n.targets[0].id, it.args[0].id
    if table is None:
        return [R.undec(rid, "position-table", file, fn.node.lineno, "position -> ms table not found")]
    # consumers: arguments of the local functions that look the table up
    lookers = {n.name for n in ast.walk(fn.node) if isinstance(n, ast.FunctionDef) and n is not fn.node and
               any(isinstance(x, ast.Name) and x.id == table for x in ast.walk(n))}
    cons = {}
    for n in walk_no_nested(fn.node):
        if isinstance(n, ast.Call) and isinstance(n.func, ast.Name) and n.func.id in lookers:
            for a in n.args:
                if isinstance(a, ast.Name):
                    cons.setdefault(a.id, n)
    if not cons:
        return [R.undec(rid, "position-table", file, fn.node.lineno, "no expander call found")]
    # producers.  The key collection may be renamed by `keys = list(keys)`
    names = {keys}
    covered = set()
    # (a) in the reader loop: `keys.add(v)` placed after the dispatch chain, at the level of the chain
    chain_if, body = dispatch_chain(fn)
    for i, st in enumerate(body):
        if isinstance(st, ast.Expr) and isinstance(st.value, ast.Call) and isinstance(st.value.func, ast.Attribute) and \
                st.value.func.attr == "add" and isinstance(st.value.func.value, ast.Name) and st.value.func.value.id in names and \
                st.value.args and isinstance(st.value.args[0], ast.Name):
            v = st.value.args[0].id
            if chain_if in body[:i]:
                for x in ast.walk(chain_if):
                    if isinstance(x, ast.Call) and isinstance(x.func, ast.Attribute) and x.func.attr == "append" and x.args and \
                            isinstance(x.args[0], ast.Name) and x.args[0].id == v and isinstance(x.func.value, ast.Subscript) and \
                            isinstance(x.func.value.value, ast.Name):
                        covered.add(x.func.value.value.id)
                    if isinstance(x, ast.Assign) and isinstance(x.targets[0], ast.Subscript) and any(
                            isinstance(y, ast.Name) and y.id == v for y in ast.walk(x.value)):
                        b = x.targets[0]
                        while isinstance(b, ast.Subscript):
                            b = b.value
                        if isinstance(b, ast.Name):
                            covered.add(b.id)
    # (b) after the loop: `for S in (A, B, ...): ... keys.update(...)` / keys.update(A...)
    for n in walk_no_nested(fn.node):
        if isinstance(n, ast.For) and isinstance(n.iter, (ast.Tuple, ast.List)) and all(isinstance(e, ast.Name) for e in n.iter.elts):
            if any(isinstance(x, ast.Call) and isinstance(x.func, ast.Attribute) and x.func.attr in ("update", "add") and
                   isinstance(x.func.value, ast.Name) and x.func.value.id in names for x in ast.walk(n)):
                covered |= {e.id for e in n.iter.elts}
    # (c) `keys.add(v)` BEFORE the buffers receive v, in a block whose later statements contain every such append: the position is
    # recorded once per row, whatever kinds of objects the row holds
    from ..normal import _blocks
    for blk in _blocks(fn.node):
        for i, st in enumerate(blk):
            if isinstance(st, ast.Expr) and isinstance(st.value, ast.Call) and isinstance(st.value.func, ast.Attribute) and \
                    st.value.func.attr == "add" and isinstance(st.value.func.value, ast.Name) and st.value.func.value.id in names and \
                    st.value.args and isinstance(st.value.args[0], ast.Name):
                v = st.value.args[0].id
                rebound = any(isinstance(x, ast.Name) and x.id == v and isinstance(x.ctx, ast.Store) for s2 in blk[i + 1:] for x in ast.walk(s2))
                if rebound:
                    continue
                for s2 in blk[i + 1:]:
                    for x in ast.walk(s2):
                        if isinstance(x, ast.Call) and isinstance(x.func, ast.Attribute) and x.func.attr == "append" and x.args and \
                                isinstance(x.args[0], ast.Name) and x.args[0].id == v and isinstance(x.func.value, ast.Subscript) and \
                                isinstance(x.func.value.value, ast.Name):
                            covered.add(x.func.value.value.id)
                        if isinstance(x, ast.Assign) and isinstance(x.targets[0], ast.Subscript) and any(
                                isinstance(y, ast.Name) and y.id == v for y in ast.walk(x.value)):
                            b = x.targets[0]
                            while isinstance(b, ast.Subscript):
                                b = b.value
                            if isinstance(b, ast.Name):
                                covered.add(b.id)
    # … and no append of a position outside such a block
    missing = sorted(set(cons) - covered)
    if missing:
        c = cons[missing[0]]
        return [R.viol(rid, "position-table", file, c.lineno,
                       f"the buffer(s) {missing} are expanded through '{table}' but their positions are never put into '{keys}': "
                       f"'{table}.get' returns None for them, so those objects are read with no time (NaN offset)",
                       construct=f"{table} lacks {missing}")]
    return [R.ok(rid, "position-table", file, fn.node.lineno, idiom=f"{sorted(cons)} all feed {keys}")]


def _per_line_comment_cut(e) -> bool:
    """"\n".join(<line>.partition("//")[0] for <line> in <text>.split("\n"))  (also .split("//")[0] / .split("//", 1)[0], splitlines()):
    every line keeps what stands before its first `//`"""
    for j in ast.walk(e):
        if not (isinstance(j, ast.Call) and isinstance(j.func, ast.Attribute) and j.func.attr == "join" and isinstance(j.func.value, ast.Constant) and
                j.func.value.value == "\n" and len(j.args) == 1 and isinstance(j.args[0], (ast.ListComp, ast.GeneratorExp))):
            continue
        c = j.args[0]
        if len(c.generators) != 1 or c.generators[0].ifs or not isinstance(c.generators[0].target, ast.Name):
            continue
        v = c.generators[0].target.id
        it = c.generators[0].iter
        lines_ok = isinstance(it, ast.Call) and isinstance(it.func, ast.Attribute) and (
            (it.func.attr == "split" and len(it.args) == 1 and isinstance(it.args[0], ast.Constant) and it.args[0].value == "\n") or
            (it.func.attr == "splitlines" and not it.args))
        el = c.elt
        cut_ok = isinstance(el, ast.Subscript) and isinstance(el.slice, ast.Constant) and el.slice.value == 0 and isinstance(el.value, ast.Call) and \
            isinstance(el.value.func, ast.Attribute) and el.value.func.attr in ("partition", "split") and isinstance(el.value.func.value, ast.Name) and \
            el.value.func.value.id == v and el.value.args and isinstance(el.value.args[0], ast.Constant) and el.value.args[0].value == "//"
        if lines_ok and cut_ok:
            return True
    return False


def rule_r11(ctx) -> List[R.Inst]:
    """tokenising: a comment runs from `//` to the end of its line wherever it stands, so comments must be removed BEFORE the
    text is cut at the structural characters `;` `:` `,`; rows are the non-blank lines with surrounding whitespace removed; a
    file without #OFFSET starts at 0"""
    M = ctx.M
    rid = "C02.R11"
    insts = []
    fn = M.fn("reamber.sm.SMMapSet.SMMapSet.read")
    file = M.mods[fn.mod].rel
    # (a) the first split(";") acts on comment-free text
    splits = [n for n in walk_no_nested(fn.node) if isinstance(n, ast.Call) and isinstance(n.func, ast.Attribute) and n.func.attr == "split"
              and n.args and isinstance(n.args[0], ast.Constant) and n.args[0].value == ";"]
    if not splits:
        insts.append(R.undec(rid, "comments-first", file, fn.node.lineno, "split(';') not found"))
    else:
        sp = min(splits, key=lambda n: n.lineno)
        recv = sp.func.value
        stripped = False
        seen = set()
        cur = recv
        for _ in range(6):
            if isinstance(cur, ast.Call) and call_name_(cur) == "sub" and cur.args and isinstance(cur.args[0], ast.Constant) and \
                    isinstance(cur.args[0].value, str) and cur.args[0].value.startswith("//"):
                stripped = True
                break
            if isinstance(cur, ast.Call) and isinstance(cur.func, (ast.Name, ast.Attribute)) and "comment" in unparse(cur.func).lower():
                stripped = True
                break
            if isinstance(cur, ast.Name) and cur.id not in seen:
                seen.add(cur.id)
                ds = [n for n in walk_no_nested(fn.node) if isinstance(n, ast.Assign) and isinstance(n.targets[0], ast.Name) and
                      n.targets[0].id == cur.id and n.lineno < sp.lineno]
                if not ds:
                    break
                # the latest definition before the split; an earlier one may be the comment removal the later one builds on
                for d_ in sorted(ds, key=lambda n: -n.lineno):
                    if any(isinstance(x, ast.Call) and call_name_(x) == "sub" and x.args and isinstance(x.args[0], ast.Constant) and
                           isinstance(x.args[0].value, str) and x.args[0].value.startswith("//") for x in ast.walk(d_.value)):
                        stripped = True
                    if _per_line_comment_cut(d_.value):
                        stripped = True
                if stripped:
                    break
                cur = sorted(ds, key=lambda n: -n.lineno)[0].value
                continue
            break
        if stripped:
            insts.append(R.ok(rid, "comments-first", file, sp.lineno, idiom="// comments removed before the text is cut at ';'"))
        else:
            insts.append(R.viol(rid, "comments-first", file, sp.lineno,
                                "the text is cut at ';' (and later at ':' and ',') with its comments still in it: a comment that contains one "
                                "of these characters ('// measure 2: verse', '// a, b', '// x; y') is taken for structure — the chart is "
                                "truncated, shifted by a measure or unreadable; an inline comment after a row discards the row",
                                construct="split(';') before comment removal"))
    # (b) rows: stripped, blank ones dropped
    rn = _read_notes_fn(ctx)
    file2 = M.mods[rn.mod].rel
    comps = [n for n in ast.walk(rn.node) if isinstance(n, ast.ListComp) and any(
        isinstance(g.iter, ast.Call) and isinstance(g.iter.func, ast.Attribute) and g.iter.func.attr == "split" and g.iter.args and
        isinstance(g.iter.args[0], ast.Constant) and g.iter.args[0].value == "," for g in n.generators)]
    if not comps:
        insts.append(R.undec(rid, "rows-stripped", file2, rn.node.lineno, "measure / row comprehension not found"))
    else:
        txt = unparse(comps[0])
        ok_ = ".strip()" in txt or "str.strip" in txt or "splitlines" in txt and ".strip" in txt
        insts.append(R.ok(rid, "rows-stripped", file2, comps[0].lineno, idiom="rows are stripped before blank ones are dropped") if ok_ else
                     R.viol(rid, "rows-stripped", file2, comps[0].lineno,
                            "rows are the raw pieces of split('\\n'): a whitespace-only line counts as a row, an indented row has its "
                            "indentation read as columns, and the '\\r' of CRLF text makes blank lines count — every later row of the "
                            "measure is misplaced", construct="rows not stripped"))
    # (c) #OFFSET omitted
    meta = S.SET_META
    dflt = None
    for st in M.classes[meta].node.body:
        if isinstance(st, ast.AnnAssign) and isinstance(st.target, ast.Name) and st.target.id == "offset":
            dflt = st.value
    rm = M.fn(meta + "._read_metadata")
    defaulted = any(isinstance(n, ast.If) and "offset" in unparse(n.test) and "None" in unparse(n.test) and any(
        isinstance(x, ast.Assign) and unparse(x.targets[0]).endswith(".offset") for x in n.body)
        for f_ in (rm, fn) for n in ast.walk(f_.node))
    # (d) header values: everything after the FIRST ':' is the value
    hs = [n for n in ast.walk(rm.node) if isinstance(n, ast.Call) and isinstance(n.func, ast.Attribute) and n.func.attr == "split" and
          n.args and isinstance(n.args[0], ast.Constant) and n.args[0].value == ":"]
    if not hs:
        insts.append(R.undec(rid, "header-value-split", M.mods[rm.mod].rel, rm.node.lineno, "split(':') of a header token not found"))
    else:
        h = hs[0]
        bounded = len(h.args) > 1 or any(k.arg == "maxsplit" for k in h.keywords)
        rejoin = any(isinstance(n, ast.Call) and isinstance(n.func, ast.Attribute) and n.func.attr == "join" and
                     isinstance(n.func.value, ast.Constant) and n.func.value.value == ":" for n in ast.walk(rm.node))
        if bounded or rejoin:
            insts.append(R.ok(rid, "header-value-split", M.mods[rm.mod].rel, h.lineno, idiom="value = everything after the first ':'"))
        else:
            insts.append(R.viol(rid, "header-value-split", M.mods[rm.mod].rel, h.lineno,
                                "a header token is cut at EVERY ':' and the value is the second piece: '#TITLE:Re:Zero' is read as 'Re', "
                                "'#DISPLAYBPM:120:180' as '120' — header fields are not read back unchanged",
                                construct="split(':') unbounded, value = s[1]"))
    numeric = isinstance(dflt, ast.Constant) and isinstance(dflt.value, (int, float)) and not isinstance(dflt.value, bool)
    if numeric or defaulted:
        insts.append(R.ok(rid, "offset-default", M.mods[rm.mod].rel, rm.node.lineno, idiom="a file without #OFFSET starts at 0"))
    else:
        insts.append(R.viol(rid, "offset-default", M.mods[rm.mod].rel, rm.node.lineno,
                            "'offset' stays None unless the file has an #OFFSET tag and is then used as the initial offset of the timing "
                            "map: a file without #OFFSET (StepMania reads it as 0) raises TypeError", construct="offset default None reaches the timing map"))
    return insts


def rule_dep(ctx):
    """obligations inherited from shared code reached through the call graph (sa/props/deps.py)"""
    from .deps import dep_insts
    return dep_insts(ctx, "C02", ["reamber.sm.SMMapSet.SMMapSet.read"], skip_groups=())


SPECS = [
    RuleSpec("C02.R1", rule_r1, 20, "A7", "symbol -> list dispatch exhaustive, typed, and inverse of the writer's table"),
    RuleSpec("C02.R2", rule_r2, 5, "A1", "per-chart header positions"),
    RuleSpec("C02.R3", rule_r3, 22, "A1", "header tag table"),
    RuleSpec("C02.R4", rule_r4, 3, "A8", "un-reseated map times the notes; reseated map (same inputs) feeds the tempo list; #OFFSET field"),
    RuleSpec("C02.R5", rule_r5, 3, "A8", "every chart of the file is returned"),
    RuleSpec("C02.R6", rule_r6, 2, "A8", "no None placeholder reaches a dereference"),
    RuleSpec("C02.R7", rule_r7, 4, "A5", "expanders number columns by the per-column buffer index, visit every buffer (no early exit) and keep every collected position"),
    RuleSpec("C02.R9", rule_r9, 4, "A7", "row position shapes: beat slice bounds, fraction inside the beat, Snap arguments"),
    RuleSpec("C02.R8", rule_r8, 6, "A3", "every chart gets its own list objects (fresh defaults per instance)"),
    RuleSpec("C02.R10", rule_r10, 1, "A8", "every collected position is put into the position -> ms table the expanders look up"),
    RuleSpec("C02.R11", rule_r11, 4, "A8", "comments removed before structural splits; rows stripped; #OFFSET defaults to 0"),
    RuleSpec("C02.D", rule_dep, 1, "M0", "rules of the shared code (timing engine, list classes, stacker) that the operations of this property reach"),
]

META = dict(
    explanation=(
        "StepMania reader: the note-symbol dispatch chain covers every SMConst symbol once, each accumulator becomes "
        "the list class declared for its slot (hold-typed slots through the head/tail expander, the tail closing the "
        "most recent open head of the same column), and the table is the inverse of the writer's; the chart header "
        "and header tag tables agree with the writer; notes are timed by the un-reseated timing map and the tempo list "
        "comes from the reseated one built from the same inputs starting at the #OFFSET field; every chart token is "
        "returned; and a None placeholder of the metadata reader must not reach a dereference (interprocedural "
        "None-flow). The position -> ms table the expanders look up (with .get, so a missing key is a silent None) is fed from every per-kind buffer that is later expanded (R10). The loop over the per-column buffers of the expanders has no early exit (R7)."),
    not_decided="beat_str slicing, Fraction(snap, len) arithmetic, the ms integration (C10)",
)
