"""Demonstration for C13 / k=2: Map.rate keeps its behaviour.

Run from the worktree root:
    cd /tmp/r15/C13 && PYTHONPATH=/tmp/r15/C13 /venv/bin/python demo.py

Map.rate is what every game's chart (and, through MapSet.rate, every mapset)
uses, so the cases cover the base Map and all five games.

Prints ONE line on stdout: the sha256 digest of a canonical text holding, for
every generated case, the rated chart / mapset (all lists with values, dtypes
and row labels, every meta field with its type), rate-after-rate results, the
file written from the result and the chart read back from it (writable games),
any exception type raised, and the state of the input afterwards.
"""
import dataclasses
import hashlib
import random
import sys
import warnings

import numpy as np
import pandas as pd

import reamber
from reamber.base.Map import Map
from reamber.base.MapSet import MapSet
from reamber.base.lists.TimedList import TimedList
from reamber.bms import BMSMap
from reamber.o2jam import O2JMap, O2JMapSet
from reamber.osu import OsuMap
from reamber.quaver import QuaMap
from reamber.sm import SMMap, SMMapSet

print(reamber.__file__, file=sys.stderr)
warnings.simplefilter("ignore")

RNG = random.Random(1513_2)
OUT = []


def emit(*parts):
    OUT.append(" | ".join(str(p) for p in parts))


# ------------------------------------------------------------ canonical text
def canon_value(v):
    if isinstance(v, (float, np.floating)):
        return f"{type(v).__name__}:{float(v)!r}"
    if isinstance(v, (bool, np.bool_)):
        return f"{type(v).__name__}:{bool(v)!r}"
    if isinstance(v, (int, np.integer)):
        return f"{type(v).__name__}:{int(v)!r}"
    if isinstance(v, TimedList):
        return f"{type(v).__name__}:[" + " / ".join(canon_df(v.df)) + "]"
    return f"{type(v).__name__}:{v!r}"


def canon_df(df: pd.DataFrame):
    lines = [
        "cols=" + ",".join(f"{c}:{df[c].dtype}" for c in df.columns),
        f"index={type(df.index).__name__}:{df.index.dtype}:{list(df.index)!r}",
    ]
    for row in df.itertuples(index=False, name=None):
        lines.append(";".join(canon_value(v) for v in row))
    return lines


def canon_map(tag, m: Map):
    emit(tag, "type", type(m).__name__)
    emit(tag, "objs-keys", list(m.objs.keys()))
    for name, lst in m.objs.items():
        emit(tag, "list", name, type(lst).__name__)
        for ln in canon_df(lst.df):
            emit(tag, name, ln)
    for f in dataclasses.fields(m):
        if f.name == "objs":
            continue
        emit(tag, "meta", f.name, canon_value(getattr(m, f.name)))


def canon_set(tag, ms: MapSet):
    emit(tag, "type", type(ms).__name__, "maps", len(ms.maps))
    for i, m in enumerate(ms.maps):
        canon_map(f"{tag}.map{i}", m)
    for f in dataclasses.fields(ms):
        if f.name == "maps":
            continue
        emit(tag, "meta", f.name, canon_value(getattr(ms, f.name)))


def canon(tag, x):
    if isinstance(x, MapSet):
        canon_set(tag, x)
    else:
        canon_map(tag, x)


def snapshot(x):
    before = len(OUT)
    canon("snap", x)
    snap = OUT[before:]
    del OUT[before:]
    return snap


# ---------------------------------------------------------------- generators
def gen_time(kind):
    if kind == "grid":
        return float(RNG.randrange(0, 400) * 125)
    if kind == "int":
        return float(RNG.randrange(0, 200000))
    if kind == "frac":
        return RNG.uniform(0, 200000)
    return RNG.uniform(-5000, 5000)  # neg


def gen_list(cls, n, keys, tkind, int_times=False):
    if n == 0:
        return cls([])
    names = cls.props().names
    times = [gen_time(tkind) for _ in range(n)]
    d = {"offset": [int(t) for t in times] if int_times else times}
    if "column" in names:
        d["column"] = [RNG.randrange(keys) for _ in range(n)]
    if "length" in names:
        d["length"] = [
            RNG.choice([0.0, 1.0, 125.0, 500.0, RNG.uniform(0, 3000)])
            for _ in range(n)
        ]
    if "bpm" in names:
        d["bpm"] = [
            RNG.choice([60.0, 120.0, 174.0, RNG.uniform(30, 400)]) for _ in range(n)
        ]
        if RNG.random() < 0.5:
            d["metronome"] = [RNG.choice([3.0, 4.0, 7.0]) for _ in range(n)]
    if "multiplier" in names:
        d["multiplier"] = [RNG.uniform(0.1, 10) for _ in range(n)]
    if "volume" in names and RNG.random() < 0.5:
        d["volume"] = [RNG.randrange(100) for _ in range(n)]
    if "sample" in names and RNG.random() < 0.5:
        d["sample"] = [RNG.choice([b"", b"a.wav", b"b.ogg"]) for _ in range(n)]
    if "keysounds" in names and RNG.random() < 0.5:
        d["keysounds"] = [RNG.choice([[], ["k"]]) for _ in range(n)]
    if "hitsound_file" in names and RNG.random() < 0.5:
        d["hitsound_file"] = [RNG.choice(["", "h.wav"]) for _ in range(n)]
    return cls.from_dict(d)


def gen_map(cls, case: int, tkind=None, keys=None) -> Map:
    keys = keys or RNG.choice([1, 3, 4, 4, 5, 6, 7, 8, 9, 10])
    tkind = tkind or RNG.choice(["int", "frac", "neg", "grid"])
    style = case % 7
    m = cls()
    for name, cur in m.objs.items():
        lcls = type(cur)
        if name == "bpms":
            n = RNG.choice([0, 1, 1, 3])
        elif name == "hits":
            n = RNG.choice([0, 1, 6, 20])
        elif name == "holds":
            n = RNG.choice([0, 0, 1, 5, 12])
        else:
            n = RNG.choice([0, 0, 0, 2, 5])
        lst = gen_list(lcls, n, keys, tkind, int_times=(style == 3))
        if style == 1 and len(lst):
            lst = lst.sorted(reverse=RNG.random() < 0.3)  # keeps old row labels
        elif style == 2 and len(lst):
            lst = lst[lst.offset >= lst.offset.median()]  # filtered row labels
        elif style == 4:
            lst = lcls(lst)  # second list object over the same frame
        setattr(m, name, lst)
    if style == 5:
        # empty hold / sv / extra lists, only hits and bpms
        for name, cur in m.objs.items():
            if name not in ("hits", "bpms"):
                setattr(m, name, type(cur)([]))

    if RNG.random() < 0.7:
        # writer friendly timing: the first bpm stands at or before every note
        firsts = [
            float(lst.offset.min())
            for name, lst in m.objs.items()
            if name != "bpms" and len(lst)
        ]
        first = min(firsts) if firsts else 0.0
        if RNG.random() < 0.5:
            m.bpms = type(m.bpms).from_dict(dict(offset=[first], bpm=[120.0]))
        else:
            m.bpms = type(m.bpms).from_dict(
                dict(offset=[first, first + 2000.0], bpm=[120.0, 180.0])
            )

    # some meta so that "all other fields unchanged" is visible
    if isinstance(m, OsuMap):
        m.circle_size = float(keys)
        m.title = f"case{case}"
        m.version = f"v{case}"
        m.preview_time = RNG.choice([-1, 0, 1234, 777.5])
    elif isinstance(m, QuaMap):
        m.title = f"case{case}"
        m.difficulty_name = f"v{case}"
        m.song_preview_time = RNG.choice([0, 1234])
    elif isinstance(m, BMSMap):
        m.title = f"case{case}".encode()
        m.version = b"v"
    elif isinstance(m, SMMap):
        m.description = f"case{case}"
        m.difficulty_val = RNG.randrange(1, 20)
    return m


def gen_sm_map(case):
    """StepMania chart the writer and reader can handle: times on a 125 ms
    grid, one bpm at 0, holds and rolls on their own columns, not overlapping"""
    m = gen_map(SMMap, case, tkind="grid", keys=2)
    m.bpms = type(m.bpms).from_dict(dict(offset=[0.0], bpm=[120.0]))
    for name, col in (("holds", 2), ("rolls", 3)):
        n = RNG.choice([0, 1, 4])
        if n == 0:
            setattr(m, name, type(m.objs[name])([]))
            continue
        starts = sorted(RNG.sample(range(0, 40), n))
        setattr(
            m,
            name,
            type(m.objs[name]).from_dict(
                dict(
                    offset=[float(s * 1000) for s in starts],
                    column=[col] * n,
                    length=[RNG.choice([125.0, 250.0, 500.0]) for _ in range(n)],
                )
            ),
        )
    m.stops = type(m.stops)([])
    return m


RATES = [1, 1.0, 0.5, 2, 1.5, 1.1, 1 / 3, 0.75, 3, 1e-3, 1e3, np.float64(1.25)]
BAD_RATES = [0, 0.0, "2", None, -1.5, float("nan"), float("inf"), [2.0]]


# --------------------------------------------------------------- write/read
def write_read(tag, rated):
    if isinstance(rated, OsuMap):
        lines = rated.write()
        emit(tag, "written", repr(lines))
        canon(tag + ".readback", OsuMap.read("\n".join(lines).split("\n")))
    elif isinstance(rated, QuaMap):
        text = rated.write()
        emit(tag, "written", repr(text))
        canon(tag + ".readback", QuaMap.read(text))
    elif isinstance(rated, BMSMap):
        b = rated.write()
        emit(tag, "written", repr(b))
        canon(
            tag + ".readback",
            BMSMap.read(b.decode("shift_jis", errors="replace").split("\r\n")),
        )
    elif isinstance(rated, SMMapSet):
        text = rated.write()
        emit(tag, "written", repr(text))
        canon(tag + ".readback", SMMapSet.read(text))
    else:
        emit(tag, "written", "not-writable")


def run_case(case: int, x, by, write=True):
    tag = f"c{case}"
    emit(tag, "subject", type(x).__name__, "rate", canon_value(by))
    before = snapshot(x)
    rated = None
    try:
        rated = x.rate(by)
        emit(tag, "same-object", rated is x, "same-type", type(rated) is type(x))
        if isinstance(x, Map):
            emit(
                tag,
                "shares",
                [rated.objs[k] is x.objs[k] for k in x.objs],
                [rated.objs[k].df is x.objs[k].df for k in x.objs],
            )
        canon(tag + ".rated", rated)
    except Exception as e:  # noqa
        emit(tag, "rate-exception", type(e).__name__)
    after = snapshot(x)
    emit(tag, "input-unchanged", before == after)
    for ln in after:
        emit(tag, "input", ln)
    if rated is None:
        return

    # identity and composition
    for by2 in (1, 2, 0.7):
        try:
            canon(tag + f".then{by2}", rated.rate(by2))
        except Exception as e:  # noqa
            emit(tag, f"then{by2}-exception", type(e).__name__)

    # the result is usable: stack it again and sort its lists
    try:
        tgt = rated.maps[0] if isinstance(rated, MapSet) and rated.maps else rated
        if isinstance(tgt, Map):
            st = tgt.stack()
            emit(tag, "restack", canon_df(st._stacked[["offset"]]))
    except Exception as e:  # noqa
        emit(tag, "restack-exception", type(e).__name__)

    if write:
        try:
            write_read(tag, rated)
        except Exception as e:  # noqa
            emit(tag, "write-exception", type(e).__name__)
        emit(tag, "input-unchanged-after-write", before == snapshot(x))


def main():
    case = 0
    classes = [Map, OsuMap, QuaMap, SMMap, O2JMap, BMSMap]

    # single charts of every game
    for rnd in range(7):
        for cls in classes:
            run_case(case, gen_map(cls, case), RNG.choice(RATES))
            case += 1

    # bad / odd rates
    for by in BAD_RATES:
        cls = classes[case % len(classes)]
        run_case(case, gen_map(cls, case), by)
        case += 1

    # completely empty charts (all lists empty)
    for cls in classes:
        run_case(case, cls(), 1.5)
        case += 1

    # charts whose objs miss a kind of list: the stack has no such column
    m = gen_map(Map, case)
    del m.objs["holds"]
    run_case(case, m, 2.0, write=False)
    case += 1
    m = gen_map(Map, case)
    del m.objs["bpms"]
    run_case(case, m, 2.0, write=False)
    case += 1

    # two charts sharing one frame for their hits
    a, b = gen_map(OsuMap, case), gen_map(OsuMap, case)
    b.hits.df = a.hits.df
    run_case(case, MapSet([a, b]), 1.5, write=False)
    case += 1

    # mapsets: several charts in a set, empty set
    for n_maps in (0, 1, 3):
        run_case(
            case,
            MapSet([gen_map(RNG.choice(classes), case + i) for i in range(n_maps)]),
            RNG.choice(RATES),
            write=False,
        )
        case += 1
    for n_maps in (1, 2, 3):
        ms = O2JMapSet(maps=[gen_map(O2JMap, case + i) for i in range(n_maps)])
        ms.title = f"o2j{case}"
        ms.bpm = 130.0
        run_case(case, ms, RNG.choice(RATES), write=False)
        case += 1
    for n_maps, off in ((0, None), (1, None), (2, -250.0), (3, 12.5), (1, 0)):
        ms = SMMapSet(maps=[gen_sm_map(case + i) for i in range(n_maps)])
        ms.title = f"sm{case}"
        ms.music = "a.ogg"
        ms.offset = off
        ms.sample_start = RNG.choice([0.0, 30000.0, 1234.5])
        ms.sample_length = RNG.choice([10.0, 15000.0])
        run_case(case, ms, RNG.choice([0.5, 1, 1.25, 2]))
        case += 1
    # StepMania set with charts the writer may not like (random times)
    ms = SMMapSet(maps=[gen_map(SMMap, case), gen_map(SMMap, case + 1)])
    run_case(case, ms, 1.5)
    case += 1

    # file based charts
    for loader, path in (
        (OsuMap.read_file, "tests/unit_tests/osu/map_read.osu"),
        (QuaMap.read_file, "tests/unit_tests/qua/map.qua"),
    ):
        try:
            run_case(case, loader(path), 1.25)
        except FileNotFoundError:
            emit("file", path, "missing")
        case += 1

    emit("cases", case)
    text = "\n".join(OUT)
    print(len(OUT), "lines,", case, "cases", file=sys.stderr)
    print(hashlib.sha256(text.encode("utf8")).hexdigest())


if __name__ == "__main__":
    main()
