"""Differential demo for property C01 (osu!mania file <-> in-memory chart).

Run as
    cd /tmp/wt7/C01 && PYTHONPATH=/tmp/wt7/C01 /venv/bin/python <this file>

Prints one line `DIGEST <sha256>` over a canonical dump of everything that is
observable: parsed frames (columns, dtypes, index, cell types and values),
metadata fields, written lines, files on disk, exception types and messages,
and the state of the inputs after each call.
"""
import dataclasses
import hashlib
import os
import random
import tempfile
import warnings

import numpy as np
import pandas as pd

warnings.simplefilter("ignore")

from reamber.osu.OsuBpm import OsuBpm
from reamber.osu.OsuHit import OsuHit
from reamber.osu.OsuHold import OsuHold
from reamber.osu.OsuMap import OsuMap
from reamber.osu.OsuNoteMeta import OsuNoteMeta
from reamber.osu.OsuSample import OsuSample
from reamber.osu.OsuSv import OsuSv
from reamber.osu.lists.OsuBpmList import OsuBpmList
from reamber.osu.lists.OsuSampleList import OsuSampleList
from reamber.osu.lists.OsuSvList import OsuSvList
from reamber.osu.lists.notes.OsuHitList import OsuHitList
from reamber.osu.lists.notes.OsuHoldList import OsuHoldList

random.seed(20261001)
OUT = []


def emit(*parts):
    OUT.append(" | ".join(str(p) for p in parts))


def cell(v):
    return f"{type(v).__module__}.{type(v).__name__}:{v!r}"


def dump_df(tag, df):
    emit(tag, "type", type(df).__name__)
    emit(tag, "columns", list(df.columns))
    emit(tag, "dtypes", [str(t) for t in df.dtypes])
    emit(tag, "index", type(df.index).__name__, list(df.index))
    for i in range(len(df)):
        emit(tag, "row", i, [cell(v) for v in df.iloc[i].tolist()])
    for c in df.columns:
        emit(tag, "col", c, [cell(v) for v in df[c].tolist()])


META_SKIP = {"objs", "samples"}


def dump_map(tag, m):
    emit(tag, "class", type(m).__name__)
    for f in dataclasses.fields(m):
        if f.name in META_SKIP:
            continue
        emit(tag, "meta", f.name, cell(getattr(m, f.name)))
    emit(tag, "objs-keys", list(m.objs.keys()), [type(v).__name__ for v in m.objs.values()])
    for name in ("hits", "holds", "bpms", "svs"):
        dump_df(f"{tag}.{name}", getattr(m, name).df)
    emit(tag, "samples-type", type(m.samples).__name__)
    dump_df(f"{tag}.samples", m.samples.df)


def dump_exc(tag, e):
    emit(tag, "RAISED", type(e).__module__, type(e).__name__, repr(e.args))


def attempt(tag, fn):
    try:
        r = fn()
    except BaseException as e:  # noqa
        dump_exc(tag, e)
        return None
    return r


def dump_value(tag, v):
    if isinstance(v, dict):
        emit(tag, "dict", [(k, cell(x)) for k, x in v.items()])
    elif hasattr(v, "data") and isinstance(v.data, pd.Series):
        emit(tag, type(v).__name__, "index", list(v.data.index), "dtype", str(v.data.dtype))
        emit(tag, type(v).__name__, "values", [cell(x) for x in v.data.tolist()])
    elif isinstance(v, list):
        emit(tag, "list", len(v))
        for i, x in enumerate(v):
            emit(tag, i, cell(x))
    else:
        emit(tag, cell(v))


# --------------------------------------------------------------------------
# generators of .osu text
# --------------------------------------------------------------------------
TITLES = [
    "Plain Title",
    "Re:Start: the second : colon",
    "日本語のタイトル",
    "Ünïcödé — émigré",
    "  padded  ",
    "a:b",
    "",
    "κόσμος:λόγος",
]
FILES = ["", "hit.wav", "ドラム.ogg", "soft-hitclap2.wav", "a b.wav", "C.WAV"]
SAMPLESETS = ["None", "Normal", "Soft", "Drum", "Bogus"]


def rtime(kind):
    if kind == "int":
        return str(random.randint(0, 300000))
    if kind == "neg":
        return str(random.randint(-5000, 5000))
    if kind == "large":
        return str(random.randint(10**7, 2 * 10**9))
    if kind == "frac":
        return repr(round(random.uniform(-1000, 200000), random.randint(1, 6)))
    return str(random.randint(0, 3))  # heavy ties


def rx(keys):
    col = random.randrange(keys)
    lo = -(-(512 * col) // keys)  # ceil
    hi = -(-(512 * (col + 1)) // keys) - 1
    mode = random.random()
    if mode < 0.4:
        return int((512 * col + 256) // keys)
    if mode < 0.6:
        return lo
    if mode < 0.8:
        return max(lo, hi)
    return random.randint(lo, max(lo, hi))


def hit_line(keys, tkind):
    return (
        f"{rx(keys)},192,{rtime(tkind)},{random.choice([1, 5])},{random.choice([0, 2, 4, 8, 14])},"
        f"{random.randint(0, 3)}:{random.randint(0, 3)}:{random.randint(0, 9)}:"
        f"{random.randint(0, 100)}:{random.choice(FILES)}"
    )


def hold_line(keys, tkind):
    t = rtime(tkind)
    end = repr(float(t) + random.choice([0, 1, 37.5, 1000, 123456])) if "." in t else str(
        int(t) + random.choice([0, 1, 250, 99999])
    )
    return (
        f"{rx(keys)},192,{t},128,{random.choice([0, 2, 4, 8])},{end}:"
        f"{random.randint(0, 3)}:{random.randint(0, 3)}:{random.randint(0, 9)}:"
        f"{random.randint(0, 100)}:{random.choice(FILES)}"
    )


def bpm_line(tkind):
    code = random.choice(
        ["500", "333.333333333333", "-250", "461.538461538462", "1e-05", "60000", "123456.789"]
    )
    return (
        f"{rtime(tkind)},{code},{random.choice([3, 4, 7])},{random.randint(0, 3)},"
        f"{random.randint(0, 5)},{random.randint(0, 100)},1,{random.choice([0, 1, 8, 9])}"
    )


def sv_line(tkind):
    code = random.choice(["-100", "-50", "-200", "-33.3333333333333", "-1000", "-10", "100", "-1e-03"])
    return (
        f"{rtime(tkind)},{code},4,{random.randint(0, 3)},"
        f"{random.randint(0, 5)},{random.randint(0, 100)},0,{random.choice([0, 1, 8, 9])}"
    )


def sample_line(tkind):
    t = rtime(tkind)
    if random.random() < 0.3:
        return f'Sample,{t},0,"{random.choice(FILES)}"'
    return f'Sample,{t},0,"{random.choice(FILES)}",{random.randint(0, 100)}'


def osu_text(keys, tkind, n_hit, n_hold, n_bpm, n_sv, n_sample, variant):
    title = random.choice(TITLES)
    lines = [
        "osu file format v14",
        "",
        "[General]",
        f"AudioFilename: {random.choice(['audio.mp3', 'オーディオ.mp3', 'a:b.ogg'])}",
        f"AudioLeadIn: {random.choice([0, 1500])}",
        f"PreviewTime: {random.choice([-1, 0, 12345])}",
        f"Countdown: {random.choice([0, 1])}",
        f"SampleSet: {random.choice(SAMPLESETS)}",
        f"StackLeniency: {random.choice(['0.7', '0.25', '1'])}",
        "Mode: 3",
        f"LetterboxInBreaks: {random.choice([0, 1])}",
        f"SpecialStyle: {random.choice([0, 1])}",
        f"WidescreenStoryboard: {random.choice([0, 1])}",
        "",
        "[Editor]",
        f"DistanceSpacing: {random.choice(['1.2', '4', '0.8'])}",
        f"BeatDivisor: {random.choice([1, 4, 16])}",
        f"GridSize: {random.choice([4, 8, 32])}",
        f"TimelineZoom: {random.choice(['0.3', '1', '2.4000001'])}",
        "",
        "[Metadata]",
        f"Title:{title}",
        f"TitleUnicode:{random.choice(TITLES)}",
        f"Artist:{random.choice(TITLES)}",
        f"ArtistUnicode:{random.choice(TITLES)}",
        f"Creator:{random.choice(['me', 'some:one', 'ユーザー'])}",
        f"Version:{random.choice(['Hard', '7K: Extra', 'ｌｖ．１２'])}",
        f"Source:{random.choice(['', 'BMS:OF', 'ソース'])}",
        f"Tags:{random.choice(['', 'a b  c', 'x:y z', 'タグ tag'])}",
        f"BeatmapID:{random.choice([0, 123456])}",
        f"BeatmapSetID:{random.choice([-1, 654321])}",
        "",
        "[Difficulty]",
        f"HPDrainRate:{random.choice(['8', '7.5', '0'])}",
        f"CircleSize:{keys}",
        f"OverallDifficulty:{random.choice(['8', '9.2'])}",
        f"ApproachRate:{random.choice(['5', '9'])}",
        f"SliderMultiplier:{random.choice(['1.4', '3.6'])}",
        f"SliderTickRate:{random.choice(['1', '2', '0.5'])}",
        "",
        "[Events]",
        "//Background and Video events",
        f'0,0,"{random.choice(["bg.jpg", "背景 画像.png", ""])}",0,0',
        "//Break Periods",
        "//Storyboard Layer 0 (Background)",
        "//Storyboard Layer 1 (Fail)",
        "//Storyboard Layer 2 (Pass)",
        "//Storyboard Layer 3 (Foreground)",
        "//Storyboard Layer 4 (Overlay)",
        "//Storyboard Sound Samples",
    ]
    lines += [sample_line(tkind) for _ in range(n_sample)]
    lines += ["", "[TimingPoints]"]
    tps = [bpm_line(tkind) for _ in range(n_bpm)] + [sv_line(tkind) for _ in range(n_sv)]
    random.shuffle(tps)
    lines += tps
    if variant == "junk":
        lines += ["", "1,2,3", "not a timing point"]
    lines += ["", "", "[HitObjects]"]
    hos = [hit_line(keys, tkind) for _ in range(n_hit)] + [hold_line(keys, tkind) for _ in range(n_hold)]
    random.shuffle(hos)
    lines += hos
    if variant == "junk":
        lines += ["", "256,192,1000,12,0,B|1:1,1,100", "garbage"]
    if variant == "padded":
        lines = ["  " + ln + " \r" for ln in lines]
    lines.append("")
    return lines


def cycle(tag, lines):
    """read -> write -> read -> write -> read -> write, dumping every stage"""
    before = list(lines)
    m = attempt(f"{tag}.read", lambda: OsuMap.read(lines))
    emit(tag, "input-unchanged", lines == before)
    if m is None:
        return
    dump_map(f"{tag}.g0", m)
    prev = m
    for gen in range(1, 4):
        snap = prev.deepcopy()
        w = attempt(f"{tag}.write{gen}", prev.write)
        if w is None:
            return
        dump_value(f"{tag}.w{gen}", w)
        # writing must not modify the chart
        after = []
        save = OUT[:]
        dump_map("x", prev)
        a = OUT[len(save):]
        del OUT[len(save):]
        dump_map("x", snap)
        b = OUT[len(save):]
        del OUT[len(save):]
        emit(tag, f"write{gen}-left-map-unchanged", a == b)
        text = "\n".join(w)
        nxt = attempt(f"{tag}.reread{gen}", lambda: OsuMap.read(text.split("\n")))
        if nxt is None:
            return
        dump_map(f"{tag}.g{gen}", nxt)
        prev = nxt


# --------------------------------------------------------------------------
# 1. whole-file cycles for every key count and time flavour
# --------------------------------------------------------------------------
case = 0
for keys in range(1, 19):
    for tkind in ("int", "neg", "large", "frac", "ties"):
        if (keys * 7 + len(tkind)) % 3 and keys not in (1, 4, 7, 10, 18):
            continue
        variant = random.choice(["plain", "plain", "junk", "padded"])
        n = [random.choice([0, 1, 2, 6]) for _ in range(5)]
        lines = osu_text(keys, tkind, *n, variant)
        cycle(f"F{case}.k{keys}.{tkind}.{variant}", lines)
        case += 1

# empty chart, notes only, timing only
cycle("E.empty", osu_text(4, "int", 0, 0, 0, 0, 0, "plain"))
cycle("E.hits-only", osu_text(5, "int", 4, 0, 0, 0, 0, "plain"))
cycle("E.holds-only", osu_text(6, "frac", 0, 4, 0, 0, 0, "plain"))
cycle("E.timing-only", osu_text(7, "neg", 0, 0, 3, 3, 2, "plain"))

# --------------------------------------------------------------------------
# 2. files on disk (read_file / write_file)
# --------------------------------------------------------------------------
tmpdir = tempfile.mkdtemp(prefix="c01demo")
for i, keys in enumerate((1, 4, 7, 9, 18)):
    lines = osu_text(keys, random.choice(["int", "frac", "neg"]), 5, 4, 2, 3, 2, "plain")
    src = os.path.join(tmpdir, f"src{i}.osu")
    with open(src, "w", encoding="utf8", newline="") as f:
        f.write("\n".join(lines))
    m = attempt(f"D{i}.read_file", lambda: OsuMap.read_file(src))
    if m is None:
        continue
    dump_map(f"D{i}.m", m)
    dst = os.path.join(tmpdir, f"dst{i}.osu")
    r = attempt(f"D{i}.write_file", lambda: m.write_file(dst))
    emit(f"D{i}", "write_file-returns", cell(r))
    with open(dst, "rb") as f:
        raw = f.read()
    emit(f"D{i}", "bytes", hashlib.sha256(raw).hexdigest(), len(raw))
    from pathlib import Path

    m2 = attempt(f"D{i}.read_file2", lambda: OsuMap.read_file(Path(dst)))
    if m2 is not None:
        dump_map(f"D{i}.m2", m2)
        dst2 = Path(tmpdir) / f"dst{i}b.osu"
        attempt(f"D{i}.write_file2", lambda: m2.write_file(dst2))
        emit(f"D{i}", "second-generation-identical", dst2.read_bytes() == raw)
attempt("D.missing", lambda: OsuMap.read_file(os.path.join(tmpdir, "nope.osu")))
for fn in os.listdir(tmpdir):
    os.remove(os.path.join(tmpdir, fn))
os.rmdir(tmpdir)

# --------------------------------------------------------------------------
# 3. in-memory charts (float offsets, unsorted rows, ties, negative values)
# --------------------------------------------------------------------------
def rfloat():
    k = random.random()
    if k < 0.2:
        return float(random.randint(-3, 3))
    if k < 0.4:
        return random.uniform(-1, 1)
    if k < 0.5:
        return random.choice([0.0, -0.0, 0.999, -0.999, 1e-9])
    if k < 0.6:
        return random.uniform(1e8, 2e9)
    return round(random.uniform(-2000, 300000), random.randint(0, 4))


def mem_chart(keys, n_hit, n_hold, n_bpm, n_sv, n_sample):
    m = OsuMap()
    m.circle_size = random.choice([keys, float(keys)])
    m.title = random.choice(TITLES)
    m.artist = random.choice(TITLES)
    m.title_unicode = random.choice(TITLES)
    m.artist_unicode = random.choice(TITLES)
    m.version = random.choice(["v", "a:b", "難"])
    m.tags = random.choice([[], ["a", "b"], ["タグ", "x:y"]])
    m.background_file_name = random.choice(["", "bg.png", "背景.jpg"])
    m.preview_time = random.choice([-1, 0, 1234, 99.9])
    tie = [rfloat() for _ in range(3)]
    off = lambda: random.choice(tie) if random.random() < 0.4 else rfloat()
    m.hits = OsuHitList(
        [
            OsuHit(
                off(),
                random.randrange(keys),
                hitsound_set=random.choice([0, 2, 8]),
                sample_set=random.randint(0, 3),
                addition_set=random.randint(0, 3),
                custom_set=random.randint(0, 5),
                volume=random.randint(0, 100),
                hitsound_file=random.choice(FILES),
            )
            for _ in range(n_hit)
        ]
    )
    m.holds = OsuHoldList(
        [
            OsuHold(
                off(),
                random.randrange(keys),
                random.choice([0.0, 0.4, 1.0, 250.25, 1e5, -10.5]),
                hitsound_set=random.choice([0, 2, 8]),
                sample_set=random.randint(0, 3),
                volume=random.randint(0, 100),
                hitsound_file=random.choice(FILES),
            )
            for _ in range(n_hold)
        ]
    )
    m.bpms = OsuBpmList(
        [
            OsuBpm(
                off(),
                random.choice([120.0, 200, 173.33, -150.0, 1e-3, 6e9, 0.1 + 0.2]),
                metronome=random.choice([3, 4, 7]),
                sample_set=random.randint(0, 3),
                sample_set_index=random.randint(0, 3),
                volume=random.randint(0, 100),
                kiai=random.choice([True, False]),
            )
            for _ in range(n_bpm)
        ]
    )
    m.svs = OsuSvList(
        [
            OsuSv(
                off(),
                random.choice([1.0, 0.5, 2, 0.01, 10.0, -1.0, 1 / 3, 1e-9]),
                sample_set=random.randint(0, 3),
                volume=random.randint(0, 100),
                kiai=random.choice([True, False]),
            )
            for _ in range(n_sv)
        ]
    )
    m.samples = OsuSampleList(
        [
            OsuSample(off(), random.choice(['"a.wav"', '"音.ogg"', "x.wav"]), random.randint(0, 100))
            for _ in range(n_sample)
        ]
    )
    return m


for i in range(40):
    keys = random.choice(list(range(1, 19)))
    n = [random.choice([0, 1, 3, 7]) for _ in range(5)]
    m = attempt(f"M{i}.build", lambda: mem_chart(keys, *n))
    if m is None:
        continue
    tag = f"M{i}.k{keys}"
    dump_map(f"{tag}.in", m)
    snap = m.deepcopy()
    w = attempt(f"{tag}.write", m.write)
    save = len(OUT)
    dump_map("x", m)
    a = OUT[save:]
    del OUT[save:]
    dump_map("x", snap)
    b = OUT[save:]
    del OUT[save:]
    emit(tag, "write-left-chart-unchanged", a == b)
    if w is None:
        continue
    dump_value(f"{tag}.w", w)
    cycle(f"{tag}.cyc", "\n".join(w).split("\n"))
    # the list-level writers
    k = int(m.circle_size)
    dump_value(f"{tag}.hits.write", attempt(f"{tag}.hits.write", lambda: m.hits.write(k)))
    dump_value(f"{tag}.holds.write", attempt(f"{tag}.holds.write", lambda: m.holds.write(k)))
    dump_value(f"{tag}.bpms.write", attempt(f"{tag}.bpms.write", lambda: m.bpms.write()))
    dump_value(f"{tag}.svs.write", attempt(f"{tag}.svs.write", lambda: m.svs.write()))
    dump_value(f"{tag}.samples.write", attempt(f"{tag}.samples.write", lambda: m.samples.write()))

# frames with integer / mixed dtypes given directly
m = OsuMap()
m.circle_size = 7
m.hits = OsuHitList(
    pd.DataFrame(
        dict(
            offset=[30, 10, 20, 10],
            column=[0, 6, 3, 1],
            hitsound_set=[0, 2, 0, 0],
            sample_set=[0, 1, 2, 3],
            addition_set=[0, 0, 0, 0],
            custom_set=[0, 0, 0, 0],
            volume=[0, 10, 20, 30],
            hitsound_file=["", "a.wav", "", "b.wav"],
        )
    )
)
m.holds = OsuHoldList(
    pd.DataFrame(
        dict(
            offset=[10.0, 10.5, -4.25],
            column=[2, 4, 5],
            length=[5.5, 0.0, 100.0],
            hitsound_set=[0, 0, 0],
            sample_set=[0, 0, 0],
            addition_set=[0, 0, 0],
            custom_set=[0, 0, 0],
            volume=[0, 0, 0],
            hitsound_file=["", "", "z.wav"],
        ),
        index=[7, 3, 5],
    )
)
m.bpms = OsuBpmList([OsuBpm(0, 120)])
dump_value("I.write", attempt("I.write", m.write))
dump_map("I.after", m)

# --------------------------------------------------------------------------
# 4. line level: read_string / write_string for every item class
# --------------------------------------------------------------------------
for i in range(60):
    keys = random.randint(1, 18)
    tk = random.choice(["int", "neg", "large", "frac", "ties"])
    for as_dict in (False, True):
        s = hit_line(keys, tk)
        v = attempt(f"L{i}.hit", lambda: OsuHit.read_string(s, keys, as_dict))
        dump_value(f"L{i}.hit.{as_dict}", v)
        if v is not None and not as_dict:
            for k2 in (keys, 1, 18):
                dump_value(f"L{i}.hit.w{k2}", attempt(f"L{i}.hit.w{k2}", lambda: v.write_string(k2)))
            dump_value(f"L{i}.hit.after", v)
        s = hold_line(keys, tk)
        v = attempt(f"L{i}.hold", lambda: OsuHold.read_string(s, keys, as_dict))
        dump_value(f"L{i}.hold.{as_dict}", v)
        if v is not None and not as_dict:
            for k2 in (keys, 1, 18):
                dump_value(f"L{i}.hold.w{k2}", attempt(f"L{i}.hold.w{k2}", lambda: v.write_string(k2)))
            dump_value(f"L{i}.hold.after", v)
        s = bpm_line(tk)
        v = attempt(f"L{i}.bpm", lambda: OsuBpm.read_string(s, as_dict))
        dump_value(f"L{i}.bpm.{as_dict}", v)
        if v is not None and not as_dict:
            dump_value(f"L{i}.bpm.w", attempt(f"L{i}.bpm.w", v.write_string))
        s = sv_line(tk)
        v = attempt(f"L{i}.sv", lambda: OsuSv.read_string(s, as_dict))
        dump_value(f"L{i}.sv.{as_dict}", v)
        if v is not None and not as_dict:
            dump_value(f"L{i}.sv.w", attempt(f"L{i}.sv.w", v.write_string))
        s = sample_line(tk)
        v = attempt(f"L{i}.sample", lambda: OsuSample.read_string(s, as_dict))
        dump_value(f"L{i}.sample.{as_dict}", v)
        if v is not None and not as_dict:
            dump_value(f"L{i}.sample.w", attempt(f"L{i}.sample.w", v.write_string))

# items constructed in memory and written for every key count
for keys in range(1, 19):
    for col in sorted({0, keys // 2, keys - 1}):
        for off in (0.0, -0.0, 0.999, -0.999, -1.5, 1234.5678, 2.0e9, 17, np.float64(3.75), np.int64(-8)):
            h = OsuHit(off, col, hitsound_set=2, sample_set=1, addition_set=3, custom_set=4, volume=55,
                       hitsound_file=random.choice(FILES))
            dump_value(f"W.k{keys}.c{col}.{off!r}.hit", attempt("W.hit", lambda: h.write_string(keys)))
            ln = random.choice([0.0, 0.5, 10, 999.999, -3.5])
            ho = OsuHold(off, col, ln, volume=7, hitsound_file=random.choice(FILES))
            dump_value(f"W.k{keys}.c{col}.{off!r}.{ln!r}.hold", attempt("W.hold", lambda: ho.write_string(keys)))
# numeric hitsound fields held as floats / numpy scalars / bools
for keys in (1, 4, 7, 18):
    for vals in ((2.0, 1.0, 3.0, 4.0, 55.0), (np.float64(8.9), np.int64(2), True, np.float32(3.5), 99.99),
                 (-2.5, -0.0, 0.999, -0.999, 1e3)):
        hs, ss, ad, cu, vo = vals
        h = OsuHit(12.75, keys - 1, hitsound_set=hs, sample_set=ss, addition_set=ad, custom_set=cu, volume=vo,
                   hitsound_file="f.wav")
        dump_value(f"W2.k{keys}.{vals!r}.hit", attempt("W2.hit", lambda: h.write_string(keys)))
        dump_value(f"W2.k{keys}.{vals!r}.hit.after", h)
        ho = OsuHold(-12.75, 0, 100.5, hitsound_set=hs, sample_set=ss, addition_set=ad, custom_set=cu, volume=vo,
                     hitsound_file="音.wav")
        dump_value(f"W2.k{keys}.{vals!r}.hold", attempt("W2.hold", lambda: ho.write_string(keys)))
        dump_value(f"W2.k{keys}.{vals!r}.hold.after", ho)
        b = OsuBpm(1.5, 120.0, metronome=4.0, sample_set=ss, sample_set_index=ad, volume=vo, kiai=1)
        dump_value(f"W2.{vals!r}.bpm", attempt("W2.bpm", b.write_string))
        sv = OsuSv(1.5, 2.0, sample_set=ss, sample_set_index=ad, volume=vo, kiai=0)
        dump_value(f"W2.{vals!r}.sv", attempt("W2.sv", sv.write_string))
for off in (0.0, -12.5, 1e9 + 0.25, 3):
    for val in (120.0, -60.0, 1e-6, 7e8, 1 / 3, 100):
        b = OsuBpm(off, val, metronome=5, sample_set=2, sample_set_index=1, volume=33, kiai=True)
        dump_value(f"W.bpm.{off!r}.{val!r}", attempt("W.bpm", b.write_string))
        s = OsuSv(off, val, sample_set=2, sample_set_index=1, volume=33, kiai=False)
        dump_value(f"W.sv.{off!r}.{val!r}", attempt("W.sv", s.write_string))

# --------------------------------------------------------------------------
# 5. list level read / write incl. empty lists
# --------------------------------------------------------------------------
for i in range(12):
    keys = random.randint(1, 18)
    n = random.choice([0, 1, 5])
    hs = [hit_line(keys, random.choice(["int", "frac", "neg"])) for _ in range(n)]
    hl = attempt(f"T{i}.hits", lambda: OsuHitList.read(hs, keys))
    if hl is not None:
        emit(f"T{i}.hits", type(hl).__name__)
        dump_df(f"T{i}.hits", hl.df)
        dump_value(f"T{i}.hits.w", attempt("w", lambda: hl.write(keys)))
    hs = [hold_line(keys, random.choice(["int", "frac", "neg"])) for _ in range(n)]
    hl2 = attempt(f"T{i}.holds", lambda: OsuHoldList.read(hs, keys))
    if hl2 is not None:
        dump_df(f"T{i}.holds", hl2.df)
        dump_value(f"T{i}.holds.w", attempt("w", lambda: hl2.write(keys)))
    bs = [bpm_line("frac") for _ in range(n)]
    bl = attempt(f"T{i}.bpms", lambda: OsuBpmList.read(bs))
    if bl is not None:
        dump_df(f"T{i}.bpms", bl.df)
        dump_value(f"T{i}.bpms.w", attempt("w", bl.write))
    ss = [sv_line("neg") for _ in range(n)]
    sl = attempt(f"T{i}.svs", lambda: OsuSvList.read(ss))
    if sl is not None:
        dump_df(f"T{i}.svs", sl.df)
        dump_value(f"T{i}.svs.w", attempt("w", sl.write))

# --------------------------------------------------------------------------
# 6. error behaviour
# --------------------------------------------------------------------------
BAD_LINES = [
    "",
    "garbage",
    "64,192,1000,1,0,0:0:0:0",  # 3 colons
    "64,192,1000,1,0,0:0:0:0:",  # valid hit
    "64,192,1000,1,0,0:0:0:0:0:",  # valid hold shape
    "64,192,1000,1,0:0:0:0:0",  # 4 commas
    "64:1,192,1000,1,0,0:0:0:",  # colons in the wrong field
    "6:4,192,1000,128,0,1200:0:0:0:",  # hold with misplaced colon
    "64,1:9:2,1000,1,0,0:0:0",  # passes is_hit, colon tail too short -> IndexError
    "64,1:9:2,1000,128,0,1200:0:0:0",  # passes is_hold, colon tail too short -> IndexError
    "x,192,1000,1,0,0:0:0:0:",
    "64,192,abc,1,0,0:0:0:0:",
    "64,192,1000,1,q,0:0:0:0:",
    "64,192,1000,1,0,a:0:0:0:",
    "64,192,1000,1,0,0:0:0:b:",
    "64.5,192,1000,1,0,0:0:0:0:",
    "64,192,1000,128,0,zz:0:0:0:0:",
    "64,192,1000,128,0,1200:0:0:0:q:",
    "64,192,nan,1,0,0:0:0:0:",
    "-50,192,1000,1,0,0:0:0:0:",
    "9999,192,1000,1,0,0:0:0:0:f.wav",
    "100,500,4,1,0,50,1,0",
    "100,0,4,1,0,50,1,0",
    "100,0.0,4,1,0,50,0,0",
    "100,-100,4,1,0,50,0,0",
    "100,-100,4,1,0,50,2,0",
    "100,-100,4,1,0,50,0",
    "100,-100,4,1,0,50,0,0,7",
    "abc,-100,4,1,0,50,0,0",
    "100,xyz,4,1,0,50,1,0",
    "100,500,4.5,1,0,50,1,0",
    "100,500,4,s,0,50,1,0",
    "100,500,4,1,i,50,1,0",
    "100,500,4,1,0,v,1,0",
    "100,500,4,1,0,50,1,k",
    "100,-100,four,1,0,50,0,0",
    "100,-100,4,1,0,50,0,1.5",
    " 100,500,4,1,0,50,1,0 ",
    "Sample,100,0",
    "Sample,100,0,\"a.wav\"",
    "Sample,x,0,\"a.wav\",50",
    "Sample,100,0,\"a.wav\",v",
]
for j, s in enumerate(BAD_LINES):
    emit(f"B{j}", "is_hit", cell(OsuNoteMeta.is_hit(s)), "is_hold", cell(OsuNoteMeta.is_hold(s)))
    for keys in (1, 4, 18):
        for as_dict in (False, True):
            dump_value(f"B{j}.hit.k{keys}.{as_dict}", attempt(f"B{j}.hit.k{keys}.{as_dict}", lambda: OsuHit.read_string(s, keys, as_dict)))
            dump_value(f"B{j}.hold.k{keys}.{as_dict}", attempt(f"B{j}.hold.k{keys}.{as_dict}", lambda: OsuHold.read_string(s, keys, as_dict)))
    for as_dict in (False, True):
        dump_value(f"B{j}.bpm.{as_dict}", attempt(f"B{j}.bpm.{as_dict}", lambda: OsuBpm.read_string(s, as_dict)))
        dump_value(f"B{j}.sv.{as_dict}", attempt(f"B{j}.sv.{as_dict}", lambda: OsuSv.read_string(s, as_dict)))
        dump_value(f"B{j}.sample.{as_dict}", attempt(f"B{j}.sample.{as_dict}", lambda: OsuSample.read_string(s, as_dict)))
    attempt(f"B{j}.hitlist", lambda: OsuHitList.read([s], 4))
    attempt(f"B{j}.holdlist", lambda: OsuHoldList.read([s], 4))
    attempt(f"B{j}.bpmlist", lambda: OsuBpmList.read([s]))
    attempt(f"B{j}.svlist", lambda: OsuSvList.read([s]))

base = osu_text(4, "int", 2, 2, 1, 1, 1, "plain")
attempt("X.no-timing", lambda: OsuMap.read([ln for ln in base if ln != "[TimingPoints]"]))
attempt("X.no-hitobjects", lambda: OsuMap.read([ln for ln in base if ln != "[HitObjects]"]))
attempt("X.nothing", lambda: OsuMap.read([]))
swapped = base[:]
i1, i2 = swapped.index("[TimingPoints]"), swapped.index("[HitObjects]")
swapped[i1], swapped[i2] = swapped[i2], swapped[i1]
cycle("X.swapped", swapped)
cycle("X.bad-hit", base + ["x,192,1000,1,0,0:0:0:0:"])
cycle("X.bad-tp", base[: i1 + 1] + ["100,zero,4,1,0,50,1,0"] + base[i1 + 1 :])
cycle("X.zero-bpm", base[: i1 + 1] + ["100,0,4,1,0,50,1,0"] + base[i1 + 1 :])

# writing with a key count of zero / negative, and notes outside the columns
for cs in (0, -3, 0.5, 4.9):
    m = mem_chart(4, 3, 2, 1, 1, 0)
    m.circle_size = cs
    dump_value(f"X.cs{cs}", attempt(f"X.cs{cs}", m.write))
m = mem_chart(4, 0, 0, 1, 1, 0)
m.circle_size = 0
dump_value("X.cs0-no-notes", attempt("X.cs0-no-notes", m.write))
m = mem_chart(4, 2, 2, 0, 0, 0)
m.bpms = OsuBpmList([OsuBpm(0.0, 0.0)])
dump_value("X.bpm0", attempt("X.bpm0", m.write))
m.bpms = OsuBpmList([])
m.svs = OsuSvList([OsuSv(0.0, 0.0)])
dump_value("X.sv0", attempt("X.sv0", m.write))
attempt("X.item.bpm0", OsuBpm(0.0, 0.0).write_string)
attempt("X.item.sv0", OsuSv(0.0, 0).write_string)
attempt("X.item.hit-nan", lambda: OsuHit(float("nan"), 0).write_string(4))
attempt("X.item.hit-k0", lambda: OsuHit(1.0, 0).write_string(0))
attempt("X.item.hold-inf", lambda: OsuHold(1.0, 0, float("inf")).write_string(4))
attempt("X.item.hit-vol-nan", lambda: OsuHit(1.0, 0, volume=float("nan")).write_string(4))
dump_value("X.item.hit-file-none", attempt("X.item.hit-file-none", lambda: OsuHit(1.0, 0, hitsound_file=None).write_string(4)))
dump_value("X.item.hit-file-f32", attempt("X.item.hit-file-f32", lambda: OsuHit(1.0, 0, hitsound_file=np.float32(0.1)).write_string(4)))

digest = hashlib.sha256("\n".join(OUT).encode("utf8")).hexdigest()
if os.environ.get("C01_DUMP"):
    with open(os.environ["C01_DUMP"], "w", encoding="utf8") as f:
        f.write("\n".join(OUT))
print(f"DIGEST {digest}")
