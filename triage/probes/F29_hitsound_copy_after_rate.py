import warnings; warnings.filterwarnings("ignore")
from reamber.osu.OsuMap import OsuMap
from reamber.algorithms.osu.hitsound_copy import hitsound_copy
src = OsuMap.read_file("rsc/maps/osu/AvengerHitsoundFile.osu")
tgt = OsuMap.read_file("rsc/maps/osu/AvengerHitsoundable.osu")
print(src.hits.df.dtypes.to_dict())
r = src.rate(1.0)
print(r.hits.df.dtypes.to_dict())
try:
    out = hitsound_copy(r, tgt.rate(1.0)); print("ok", len(out.hits))
except Exception as e:
    print("EXC", type(e).__name__, str(e)[:200])
w = r.write()
print([l for l in w.split("\n") if "," in l and l[0].isdigit()][:3])
