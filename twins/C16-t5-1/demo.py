"""Demo for change 1: TimedList.append (conversion of the appended value to a frame).

Prints one line ``DIGEST <sha256>`` over a canonical dump of every result.
"""
import hashlib
import importlib
import random
import warnings

import numpy as np
import pandas as pd

for _m in ("reamber.base", "reamber.base.lists", "reamber.osu", "reamber.sm",
           "reamber.bms", "reamber.o2jam", "reamber.quaver",
           "reamber.osu.lists", "reamber.sm.lists", "reamber.bms.lists",
           "reamber.o2jam.lists", "reamber.quaver.lists",
           "reamber.sm.lists.notes", "reamber.osu.lists.notes",
           "reamber.bms.lists.notes", "reamber.o2jam.lists.notes",
           "reamber.quaver.lists.notes"):
    importlib.import_module(_m)

from reamber.base.Series import Series
from reamber.base.lists.TimedList import TimedList

random.seed(160001)
OUT = []


def emit(*parts):
    OUT.append(" | ".join(str(p) for p in parts))


def all_list_classes():
    seen, stack = {}, [TimedList]
    while stack:
        c = stack.pop()
        for s in c.__subclasses__():
            key = f"{s.__module__}.{s.__qualname__}"
            if key not in seen:
                seen[key] = s
                stack.append(s)
    seen["reamber.base.lists.TimedList.TimedList"] = TimedList
    return [seen[k] for k in sorted(seen)]


def cell(v):
    if isinstance(v, (float, np.floating)):
        return f"f:{float(v)!r}"
    if isinstance(v, (bool, np.bool_)):
        return f"b:{bool(v)!r}"
    if isinstance(v, (int, np.integer)):
        return f"i:{int(v)!r}"
    return f"{type(v).__name__}:{v!r}"


def dump_df(df):
    if not isinstance(df, pd.DataFrame):
        return f"<not a frame {type(df).__name__}>"
    cols = [repr(c) for c in df.columns]
    dt = [str(t) for t in df.dtypes]
    idx = f"{type(df.index).__name__}{[cell(i) for i in df.index]}"
    rows = [[cell(v) for v in df[c].tolist()] for c in df.columns] if len(cols) == len(set(cols)) \
        else [[cell(v) for v in r] for r in df.to_numpy().tolist()]
    return f"cols={cols} dtypes={dt} index={idx} data={rows}"


def dump(o):
    if isinstance(o, TimedList):
        try:
            d = o.df
        except AttributeError:
            return f"{type(o).__name__}<no df>"
        return f"{type(o).__name__}({dump_df(d)})"
    if isinstance(o, Series):
        s = o.data
        return (f"{type(o).__name__}(dtype={s.dtype} index={[repr(i) for i in s.index]} "
                f"vals={[cell(v) for v in s.tolist()]})")
    if isinstance(o, pd.DataFrame):
        return f"DF({dump_df(o)})"
    if isinstance(o, pd.Series):
        return (f"PS(name={o.name!r} dtype={o.dtype} index={[cell(i) for i in o.index]} "
                f"vals={[cell(v) for v in o.tolist()]})")
    if isinstance(o, np.ndarray):
        return f"ND(dtype={o.dtype} {[cell(v) for v in o.tolist()]})"
    if isinstance(o, tuple):
        return "(" + ", ".join(dump(x) for x in o) + ")"
    return cell(o)


def run(label, fn):
    with warnings.catch_warnings(record=True) as w:
        warnings.simplefilter("always")
        try:
            res = dump(fn())
        except Exception as e:  # noqa
            res = f"EXC {type(e).__name__}"
    ws = sorted(f"{x.category.__name__}:{x.message}" for x in w
                if issubclass(x.category, UserWarning))
    emit(label, res, f"warn={ws}")


OFFSETS = [-1000.0, -0.5, 0.0, 0.0, 0.25, 1.0, 1.0, 1.0, 2.5, 100.0, 1e6, 333.3333]


def make_list(cls, n):
    """n rows of defaults with random offsets/columns/lengths (dupes, negatives, fractions)"""
    tl = cls.empty(n)
    df = tl.df.copy()
    if n:
        df["offset"] = [random.choice(OFFSETS) for _ in range(n)]
        if "column" in df.columns:
            df["column"] = [random.randrange(0, 10) for _ in range(n)]
        if "length" in df.columns:
            df["length"] = [random.choice([0.0, 0.5, 1.0, 50.0, 1000.0]) for _ in range(n)]
        if "bpm" in df.columns:
            df["bpm"] = [random.choice([60.0, 120.0, 0.5, 333.0]) for _ in range(n)]
    return cls(df)


def pre_ops(tl, k):
    """leave the list in a non-initial state (labels no longer 0..n-1 in order)"""
    if k == 0:
        return tl
    if k == 1:
        return tl.sorted()
    if k == 2:
        return tl.sorted(reverse=True)
    if k == 3:
        return tl.after(0.0, include_end=True)
    return tl[::2]


CLASSES = all_list_classes()
emit("classes", [c.__name__ for c in CLASSES])

case = 0
for cls in CLASSES:
    for n, k in [(0, 0), (1, 0), (3, 1), (5, 2), (6, 3), (7, 4)]:
        try:
            base = pre_ops(make_list(cls, n), k)
            other = pre_ops(make_list(cls, random.choice([0, 1, 2, 4])), random.choice([0, 2, 4]))
        except Exception as e:  # noqa
            emit(cls.__name__, n, k, "SETUP-EXC", type(e).__name__)
            continue
        item_src = make_list(cls, 2)
        try:
            item = item_src[0]
        except Exception as e:  # noqa
            item = None
            emit(cls.__name__, "ITEM-EXC", type(e).__name__)
        vals = [("list", other), ("frame", other.df), ("emptylist", cls([])),
                ("frame_subset", other.df[["offset"]]),
                ("int", 5), ("none", None), ("pylist", [1, 2]), ("dict", {"offset": 1.0})]
        if item is not None:
            named = item.data.copy()
            named.name = "row7"
            vals += [("item", item), ("pdseries", item.data), ("pdseries_named", named),
                     ("pdseries_partial", item.data[["offset"]]),
                     ("itemlist", [item])]
        for vname, val in vals:
            for sort in (False, True, 1, 0):
                case += 1
                label = f"{cls.__name__} n={n} pre={k} val={vname} sort={sort!r}"
                before_self, before_val = dump(base), dump(val)
                run(label, lambda: base.append(val, sort=sort))
                # inputs must be untouched
                emit(label, "self-unchanged", before_self == dump(base),
                     "val-unchanged", before_val == dump(val))
        # chained appends, then other list operations on the result
        if item is not None:
            def chain():
                r = base.append(item).append(other, sort=True).append(item.data)
                return (r, len(r), r.first_offset(), r.last_offset(),
                        r.between(0.0, 1.0, include_ends=True), r[-1] if len(r) else None)
            run(f"{cls.__name__} n={n} pre={k} chain", chain)

emit("cases", case)
text = "\n".join(OUT)
import os
if os.environ.get("DEMO_DUMP"):
    open(os.environ["DEMO_DUMP"], "w").write(text)
print("DIGEST", hashlib.sha256(text.encode()).hexdigest())
