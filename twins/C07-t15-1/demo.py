"""Demo for C07 / k=1: O2JMap.read_pkgs (measure -> ms sweep).

Builds >30 synthetic OJN byte strings (fixed seed) plus hand-built package
lists, reads them through the public API (O2JMapSet.read / read_file and
O2JMap.read_pkgs) and prints one sha256 over a canonical text of all results,
dtypes, exception types and the state of the inputs afterwards.
"""
import hashlib
import os
import random
import struct
import sys
import tempfile
import warnings

import reamber
from reamber.o2jam.O2JMapSet import O2JMapSet
from reamber.o2jam.O2JMap import O2JMap
from reamber.o2jam.O2JEventPackage import O2JEventPackage
from reamber.o2jam.O2JBpm import O2JBpm
from reamber.o2jam.O2JHit import O2JHit
from reamber.o2jam.O2JHold import O2JHold

print(reamber.__file__, file=sys.stderr)

OUT = []


def emit(*parts):
    OUT.append(" ".join(str(p) for p in parts))


def fx(v):
    """Canonical, lossless text of a scalar."""
    if isinstance(v, float):
        return "f:" + (v.hex() if v == v and abs(v) != float("inf") else repr(v))
    try:
        import numpy as np

        if isinstance(v, np.floating):
            return "nf%d:" % v.dtype.itemsize + fx(float(v))[2:]
        if isinstance(v, np.integer):
            return "ni%d:%d" % (v.dtype.itemsize, int(v))
    except ImportError:
        pass
    return type(v).__name__ + ":" + repr(v)


def dump_list(name, lst):
    df = lst.df
    emit(" ", name, type(lst).__name__, "shape", df.shape)
    emit("   cols", list(df.columns), "dtypes", [str(d) for d in df.dtypes])
    emit("   index", type(df.index).__name__, list(df.index))
    for row in df.itertuples(index=False):
        emit("   ", [fx(v) for v in row])


def dump_map(m):
    emit(" map", type(m).__name__, sorted(m.objs.keys()))
    dump_list("hits", m.hits)
    dump_list("holds", m.holds)
    dump_list("bpms", m.bpms)


META_FIELDS = [
    "song_id", "signature", "encode_version", "genre", "bpm", "level",
    "event_count", "note_count", "measure_count", "package_count",
    "old_encode_version", "old_song_id", "old_genre", "bmp_size",
    "old_file_version", "title", "artist", "creator", "ojm_file",
    "cover_size", "duration", "note_offset", "cover_offset",
]


def dump_meta(ms):
    for f in META_FIELDS:
        v = getattr(ms, f)
        if isinstance(v, list):
            emit("  meta", f, "list", [fx(x) for x in v])
        else:
            emit("  meta", f, fx(v))


# --------------------------------------------------------------------------
# OJN builders
# --------------------------------------------------------------------------
def pad(b, n):
    return b[:n] + b"\x00" * (n - len(b[:n]))


def header(bpm, pkg_counts, title=b"title", artist=b"artist", creator=b"me",
           ojm=b"x.ojm", song_id=1, levels=(1, 2, 3, 0), genre=3,
           signature=b"ojn\x00"):
    h = b""
    h += struct.pack("<i", song_id)
    h += pad(signature, 4)
    h += struct.pack("<f", 2.9)
    h += struct.pack("<i", genre)
    h += struct.pack("<f", bpm)
    h += struct.pack("<4h", *levels)
    h += struct.pack("<3i", 10, 20, 30)
    h += struct.pack("<3i", 11, 21, 31)
    h += struct.pack("<3i", 12, 22, 32)
    h += struct.pack("<3i", *pkg_counts)
    h += struct.pack("<h", 29)
    h += struct.pack("<h", song_id % 30000)
    h += pad(b"genre-old", 20)
    h += struct.pack("<i", 0)
    h += struct.pack("<i", 0)
    h += pad(title, 64)
    h += pad(artist, 32)
    h += pad(creator, 32)
    h += pad(ojm, 32)
    h += struct.pack("<i", 0)
    h += struct.pack("<3i", 100, 110, 120)
    h += struct.pack("<3i", 300, 400, 500)
    h += struct.pack("<i", 600)
    assert len(h) == 300, len(h)
    return h


def pkg(measure, channel, events):
    """events: list of 4-byte strings"""
    return struct.pack("<ihh", measure, channel, len(events)) + b"".join(events)


EMPTY = b"\x00\x00\x00\x00"


def note_ev(kind, vol=0, pan=0, value=1):
    return struct.pack("<h", value) + bytes([vol * 16 + pan]) + bytes([kind])


def bpm_ev(v):
    return struct.pack("<f", v)


def gen_level(rng, n_measures, n_bpm_pkgs, cols, trailing_bpms=0,
              slot_choices=(1, 2, 3, 4, 6, 8, 12, 16, 192), shuffle=False):
    """Returns list of package bytes for one difficulty."""
    pkgs = []
    open_hold = {}
    for m in range(n_measures):
        for c in cols:
            if rng.random() < 0.25:
                continue
            slots = rng.choice(slot_choices)
            evs = []
            for s in range(slots):
                r = rng.random()
                if c in open_hold:
                    if r < 0.5:
                        evs.append(note_ev(3, rng.randrange(16), rng.randrange(16)))
                        del open_hold[c]
                    else:
                        evs.append(EMPTY)
                elif r < 0.35:
                    evs.append(note_ev(0, rng.randrange(16), rng.randrange(16),
                                       value=rng.randrange(1, 200)))
                elif r < 0.55:
                    evs.append(note_ev(2, rng.randrange(16), rng.randrange(16)))
                    open_hold[c] = True
                else:
                    evs.append(EMPTY)
            pkgs.append(pkg(m, c + 2, evs))
    # close the open holds in one more measure
    for c in sorted(open_hold):
        slots = rng.choice((1, 2, 4))
        evs = [EMPTY] * slots
        evs[rng.randrange(slots)] = note_ev(3)
        pkgs.append(pkg(n_measures, c + 2, evs))
    for _ in range(n_bpm_pkgs):
        m = rng.randrange(0, max(1, n_measures + 1))
        slots = rng.choice((1, 2, 3, 4, 8))
        evs = []
        for s in range(slots):
            if rng.random() < 0.6:
                evs.append(bpm_ev(rng.choice((60.0, 90.5, 120.0, 133.33, 180.0,
                                              240.0, 999.0, -120.0, 0.5))))
            else:
                evs.append(bpm_ev(0.0))
        pkgs.append(pkg(m, 1, evs))
    for t in range(trailing_bpms):
        m = n_measures + 2 + t * rng.randrange(1, 4)
        pkgs.append(pkg(m, 1, [bpm_ev(0.0), bpm_ev(rng.choice((75.0, 150.0, 222.0)))]))
    # autoplay channels are ignored by the reader
    if rng.random() < 0.5:
        pkgs.append(pkg(rng.randrange(0, n_measures + 1), rng.randrange(9, 23),
                        [note_ev(0), EMPTY]))
    if shuffle:
        # keep relative order of note packages per column (hold pairing),
        # but interleave the tempo packages anywhere
        notes = [p for p in pkgs if struct.unpack("<h", p[4:6])[0] != 1]
        bpms = [p for p in pkgs if struct.unpack("<h", p[4:6])[0] == 1]
        rng.shuffle(bpms)
        for b in bpms:
            notes.insert(rng.randrange(len(notes) + 1), b)
        pkgs = notes
    return pkgs


def build(rng, bpm, level_specs, **hkw):
    lvls = [gen_level(rng, **spec) for spec in level_specs]
    counts = [len(l) for l in lvls] + [0] * (3 - len(lvls))
    return header(bpm, counts[:3], **hkw) + b"".join(b"".join(l) for l in lvls)


def run_read(tag, b, via_file=False):
    emit("CASE", tag, "len", len(b), "file" if via_file else "bytes")
    before = hashlib.sha256(b).hexdigest()
    with warnings.catch_warnings(record=True) as wlog:
        warnings.simplefilter("always")
        _run_read(b, via_file, before)
    dump_warnings(wlog)
    emit(" input-after", hashlib.sha256(b).hexdigest() == before, type(b).__name__)


def dump_warnings(wlog):
    emit(" warnings", len(wlog))
    for w in wlog:
        emit("  W", w.category.__name__, str(w.message))


def _run_read(b, via_file, before):
    try:
        if via_file:
            fd, p = tempfile.mkstemp(suffix=".ojn")
            try:
                with os.fdopen(fd, "wb") as f:
                    f.write(b)
                ms = O2JMapSet.read_file(p)
                with open(p, "rb") as f:
                    emit(" file-after", hashlib.sha256(f.read()).hexdigest() == before)
            finally:
                os.unlink(p)
        else:
            ms = O2JMapSet.read(b)
    except Exception as e:  # noqa
        emit(" EXC", type(e).__name__)
    else:
        emit(" set", type(ms).__name__, "maps", len(ms.maps))
        dump_meta(ms)
        for m in ms.maps:
            dump_map(m)


# --------------------------------------------------------------------------
# direct O2JMap.read_pkgs
# --------------------------------------------------------------------------
def ev_state(e):
    d = e.data
    return (type(e).__name__, [(k, fx(v)) for k, v in d.items()],
            fx(getattr(e, "measure", None)), fx(getattr(e, "tail_measure", None)))


def mk_hit(measure, col=0):
    h = O2JHit(offset=0, column=col, volume=1, pan=2)
    h.measure = measure
    return h


def mk_hold(measure, tail, col=0):
    h = O2JHold(offset=0, column=col, length=-1, volume=3, pan=4)
    h.measure = measure
    h.tail_measure = tail
    return h


def mk_bpm(measure, v):
    b = O2JBpm(offset=0, bpm=v)
    b.measure = measure
    return b


def run_pkgs(tag, pkgs, init_bpm):
    emit("PKGS", tag, "n", len(pkgs), "init", fx(init_bpm))
    def shape():
        return [None if p is None else
                (p.measure, p.channel, len(p.events), [id(e) for e in p.events])
                for p in pkgs]

    shape_before = shape()
    with warnings.catch_warnings(record=True) as wlog:
        warnings.simplefilter("always")
        try:
            m = O2JMap.read_pkgs(pkgs, init_bpm)
        except Exception as e:  # noqa
            emit(" EXC", type(e).__name__)
        else:
            dump_map(m)
    dump_warnings(wlog)
    emit(" pkgs-structure-unchanged", shape_before == shape())
    for p in pkgs:
        if p is None:
            emit(" pkg None")
        else:
            emit(" pkg", p.measure, p.channel, [ev_state(e) for e in p.events])


def main():
    rng = random.Random(150707)
    all_cols = list(range(7))

    # ---- generated OJN files ------------------------------------------
    n = 0
    for i in range(36):
        n_lv = rng.choice((1, 2, 3, 3, 3))
        specs = []
        for _ in range(n_lv):
            k = rng.choice((1, 2, 3, 4, 5, 6, 7, 7))
            specs.append(dict(
                n_measures=rng.choice((0, 1, 2, 3, 5, 8)),
                n_bpm_pkgs=rng.choice((0, 0, 1, 2, 4, 7)),
                cols=sorted(rng.sample(all_cols, k)),
                trailing_bpms=rng.choice((0, 0, 1, 3)),
                shuffle=rng.random() < 0.5,
            ))
        bpm = rng.choice((120.0, 60.0, 178.0, 133.7, 200.0, 1.0, -90.0))
        b = build(rng, bpm, specs, song_id=1000 + i,
                  title=("song %d" % i).encode(), levels=(i, i + 1, i + 2, 0))
        run_read("gen%02d" % i, b, via_file=(i % 5 == 0))
        n += 1

    # ---- hand-built OJN corner cases -------------------------------------
    # no packages at all in any difficulty
    run_read("empty", header(120.0, (0, 0, 0)))
    # only tempo events, no notes (all trailing)
    run_read("only-bpm", header(100.0, (3, 0, 0)) + pkg(0, 1, [bpm_ev(200.0)])
             + pkg(2, 1, [bpm_ev(0.0), bpm_ev(50.0)]) + pkg(1, 1, [bpm_ev(400.0)]))
    # tempo event exactly on a note, twice at the same measure, and before any note
    run_read("same-measure", header(120.0, (5, 0, 0))
             + pkg(1, 2, [note_ev(0), note_ev(0)])
             + pkg(1, 1, [bpm_ev(60.0), bpm_ev(240.0)])
             + pkg(1, 1, [bpm_ev(30.0)])
             + pkg(0, 1, [bpm_ev(480.0)])
             + pkg(3, 8, [note_ev(0)]))
    # zero-length hold: head and tail at the same measure position (1 slot pkgs)
    run_read("zero-hold", header(150.0, (2, 0, 0))
             + pkg(2, 4, [note_ev(2)]) + pkg(2, 4, [note_ev(3)]))
    # hold spanning many measures, tempo changes inside it, second difficulty too
    run_read("long-hold", header(150.0, (4, 2, 0))
             + pkg(0, 3, [EMPTY, note_ev(2, 5, 6)])
             + pkg(1, 1, [bpm_ev(75.0), bpm_ev(0.0), bpm_ev(300.0)])
             + pkg(4, 1, [bpm_ev(0.0), bpm_ev(0.0), bpm_ev(100.0)])
             + pkg(5, 3, [EMPTY, EMPTY, note_ev(3)])
             + pkg(0, 2, [note_ev(0)]) + pkg(7, 1, [bpm_ev(10.0)]))
    # head left open in difficulty 1, tail arrives in difficulty 2 (shared buffer)
    run_read("hold-across-levels", header(120.0, (1, 2, 0))
             + pkg(3, 5, [note_ev(2)])
             + pkg(0, 1, [bpm_ev(240.0)])
             + pkg(1, 5, [note_ev(3)]))
    # tail with no head -> KeyError
    run_read("tail-no-head", header(120.0, (1, 0, 0)) + pkg(0, 2, [note_ev(3)]))
    # header tempo zero with notes -> ZeroDivisionError; with no events -> fine
    run_read("bpm0-notes", header(0.0, (1, 0, 0)) + pkg(1, 2, [note_ev(0)]))
    run_read("bpm0-empty", header(0.0, (0, 0, 0)))
    run_read("bpm0-measure0", header(0.0, (1, 0, 0)) + pkg(0, 2, [note_ev(0)]))
    # measure-fraction package (outside the quantifier): exception type only
    run_read("measure-frac", header(120.0, (2, 0, 0))
             + pkg(0, 0, [struct.pack("<f", 0.75)]) + pkg(0, 2, [note_ev(0)]))
    # truncated data: fewer packages than the header says
    run_read("truncated-pkgs", header(120.0, (3, 0, 0)) + pkg(0, 2, [note_ev(0)]))
    # truncated inside a package
    run_read("truncated-mid", header(120.0, (1, 0, 0)) + pkg(0, 2, [note_ev(0)])[:-2])
    # negative measure numbers
    run_read("neg-measure", header(120.0, (3, 0, 0))
             + pkg(-2, 2, [note_ev(0), note_ev(0)]) + pkg(-1, 1, [bpm_ev(60.0)])
             + pkg(1, 3, [note_ev(0)]))
    # short header
    run_read("short-header", header(120.0, (0, 0, 0))[:200])
    # bundled files
    here = os.path.dirname(os.path.abspath(reamber.__file__))
    for fn in ("o2ma120.ojn", "o2ma178.ojn"):
        p = os.path.join(os.path.dirname(here), "rsc", "maps", "o2jam", fn)
        with open(p, "rb") as f:
            run_read("bundled-" + fn, f.read())

    # ---- direct calls to O2JMap.read_pkgs --------------------------------
    P = O2JEventPackage
    run_pkgs("no-pkgs", [], 120.0)
    run_pkgs("empty-pkgs", [P(0, 2, []), P(3, 1, [])], 120.0)
    run_pkgs("int-init-bpm", [P(1, 2, [mk_hit(1.5), mk_hit(1.0, 3)])], 120)
    run_pkgs("unsorted", [
        P(5, 2, [mk_hit(5.25), mk_hit(5.0)]),
        P(2, 1, [mk_bpm(2.5, 90.0), mk_bpm(2.0, 180.0)]),
        P(0, 4, [mk_hold(0.5, 6.75, 2), mk_hit(0.0, 2)]),
        P(9, 1, [mk_bpm(9.0, 45.0), mk_bpm(8.0, 450.0)]),
    ], 100.0)
    run_pkgs("hold-tail-before-head", [
        P(3, 2, [mk_hold(3.0, 1.0, 0)]), P(2, 1, [mk_bpm(2.0, 60.0)])], 120.0)
    run_pkgs("dup-bpm-measure", [
        P(1, 1, [mk_bpm(1.0, 60.0), mk_bpm(1.0, 120.0), mk_bpm(1.0, 30.0)]),
        P(1, 2, [mk_hit(1.0), mk_hit(2.0)])], 240.0)
    run_pkgs("zero-bpm-event-mid", [
        P(0, 1, [mk_bpm(0.5, 200.0), mk_bpm(1.0, 0.0), mk_bpm(3.0, 100.0)]),
        P(0, 2, [mk_hit(0.0), mk_hit(0.75), mk_hit(2.0)])], 100.0)
    run_pkgs("zero-bpm-trailing", [
        P(0, 1, [mk_bpm(4.0, 0.0), mk_bpm(5.0, 100.0), mk_bpm(6.0, 50.0)]),
        P(0, 2, [mk_hit(1.0)])], 100.0)
    run_pkgs("zero-init", [P(0, 2, [mk_hit(1.0)]), P(0, 1, [mk_bpm(0.0, 100.0)])], 0.0)
    run_pkgs("zero-init-bpm-first", [P(0, 2, [mk_hit(1.0)]),
                                     P(0, 1, [mk_bpm(-1.0, 100.0)])], 0.0)
    run_pkgs("nan-bpm", [P(0, 1, [mk_bpm(1.0, float("nan")), mk_bpm(2.0, 100.0)]),
                         P(0, 2, [mk_hit(0.5), mk_hit(3.0)])], 100.0)
    run_pkgs("inf-bpm", [P(0, 1, [mk_bpm(1.0, float("inf"))]),
                         P(0, 2, [mk_hit(0.5), mk_hit(3.0)])], 100.0)
    run_pkgs("none-pkg", [P(0, 2, [mk_hit(0.5)]), None], 100.0)
    run_pkgs("str-init", [P(0, 2, [mk_hit(0.5)])], "120")
    run_pkgs("only-trailing", [P(0, 1, [mk_bpm(3.0, 10.0), mk_bpm(1.0, 20.0)])], 60.0)
    # same package list read twice (offsets already assigned the first time)
    shared = [P(0, 2, [mk_hit(0.5), mk_hold(1.0, 2.5)]), P(1, 1, [mk_bpm(1.5, 33.0)])]
    run_pkgs("twice-1", shared, 60.0)
    run_pkgs("twice-2", shared, 90.0)
    # many random direct lists
    for i in range(12):
        pk = []
        for _ in range(rng.randrange(0, 6)):
            evs = []
            ch = rng.choice((1, 2, 3, 8))
            for _ in range(rng.randrange(0, 5)):
                ms_ = rng.randrange(0, 6) + rng.choice((0, 0.25, 1 / 3, 0.5, 0.75))
                if ch == 1:
                    evs.append(mk_bpm(ms_, rng.choice((60.0, 97.3, 120.0, 333.0))))
                elif rng.random() < 0.5:
                    evs.append(mk_hit(ms_, ch - 2))
                else:
                    evs.append(mk_hold(ms_, ms_ + rng.choice((0, 0.5, 2.25)), ch - 2))
            pk.append(P(rng.randrange(0, 6), ch, evs))
        run_pkgs("rand%02d" % i, pk, rng.choice((120.0, 88.8, 15.0)))

    text = "\n".join(OUT)
    if os.environ.get("DEMO_DUMP"):
        with open(os.environ["DEMO_DUMP"], "w") as f:
            f.write(text)
    print(hashlib.sha256(text.encode("utf-8")).hexdigest())


if __name__ == "__main__":
    main()
