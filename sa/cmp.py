"""A7 CMP — partial evaluation of small predicates over boolean flags, comparator
extraction, operator tables (DESIGN §4 A7)."""
from __future__ import annotations

import ast
import itertools
from typing import Dict, List, Optional, Tuple

from .codec import Unknown

OPS = {ast.Gt: ">", ast.GtE: ">=", ast.Lt: "<", ast.LtE: "<=", ast.Eq: "==", ast.NotEq: "!="}


def eval_flag(e: ast.AST, flags: Dict[str, bool]) -> Optional[bool]:
    """Value of a boolean expression built only from flag names, or None."""
    if isinstance(e, ast.Name) and e.id in flags:
        return flags[e.id]
    if isinstance(e, ast.Constant) and isinstance(e.value, bool):
        return e.value
    if isinstance(e, ast.UnaryOp) and isinstance(e.op, ast.Not):
        v = eval_flag(e.operand, flags)
        return None if v is None else not v
    if isinstance(e, ast.BoolOp):
        vals = [eval_flag(v, flags) for v in e.values]
        if isinstance(e.op, ast.And):
            if any(v is False for v in vals):
                return False
            return None if any(v is None for v in vals) else True
        if any(v is True for v in vals):
            return True
        return None if any(v is None for v in vals) else False
    if isinstance(e, ast.Subscript) and isinstance(e.value, ast.Name) and e.value.id in flags and \
            isinstance(e.slice, ast.Constant) and isinstance(flags[e.value.id], tuple):
        return flags[e.value.id][e.slice.value]
    return None


class _Subst(ast.NodeTransformer):
    """Resolve IfExp on flags inside an expression."""

    def __init__(self, flags):
        self.flags = flags

    def visit_IfExp(self, n):
        v = eval_flag(n.test, self.flags)
        if v is None:
            return self.generic_visit(n)
        return self.visit(n.body if v else n.orelse)


def specialise_expr(e: ast.AST, flags) -> ast.AST:
    import copy
    return ast.fix_missing_locations(_Subst(flags).visit(copy.deepcopy(e)))


def returned_expr(fn: ast.FunctionDef, flags: Dict[str, object]) -> ast.AST:
    """The expression returned by ``fn`` when its flag parameters have the given
    values.  Statements whose tests are not decidable from the flags and that
    contain no return (warnings) are skipped; local rebinding of a flag from an
    ``isinstance(flag, bool)`` normalisation is understood."""
    flags = dict(flags)
    import copy as _copy
    env: Dict[str, ast.AST] = {}      # locals bound on the path taken under these flag values (edge = self.offset; if tail: edge = edge + ..)

    class _Env(ast.NodeTransformer):
        def visit_Name(self, n):
            if isinstance(n.ctx, ast.Load) and n.id in env:
                return _copy.deepcopy(env[n.id])
            return n

    def subst(e):
        return ast.fix_missing_locations(_Env().visit(_copy.deepcopy(e)))

    def run(stmts):
        for s in stmts:
            if isinstance(s, ast.Return):
                if s.value is None:
                    raise Unknown("bare return")
                return specialise_expr(subst(s.value), flags)
            if isinstance(s, ast.If):
                v = eval_flag(s.test, flags)
                if v is None:
                    # isinstance(flag, bool) normalisation: (a) -> (a, a)
                    t = s.test
                    if isinstance(t, ast.Call) and isinstance(t.func, ast.Name) and t.func.id == "isinstance" and \
                            isinstance(t.args[0], ast.Name) and t.args[0].id in flags:
                        name = t.args[0].id
                        if isinstance(flags[name], bool) and "bool" in ast.unparse(t.args[1]):
                            flags[name] = (flags[name], flags[name])
                        continue
                    if any(isinstance(n, ast.Return) for b in (s.body, s.orelse) for x in b for n in ast.walk(x)):
                        raise Unknown(f"return under undecidable test {ast.unparse(s.test)[:50]}")
                    for b in (s.body, s.orelse):
                        for x in b:
                            for n in ast.walk(x):
                                if isinstance(n, ast.Name) and isinstance(n.ctx, ast.Store):
                                    env.pop(n.id, None)       # bound under a test the flags do not decide: not followed
                    continue
                r = run(s.body if v else s.orelse)
                if r is not None:
                    return r
                continue
            if isinstance(s, ast.Expr):
                continue
            if isinstance(s, ast.Assign) and len(s.targets) == 1 and isinstance(s.targets[0], ast.Name) and s.targets[0].id not in flags:
                env[s.targets[0].id] = specialise_expr(subst(s.value), flags)
                continue
            if isinstance(s, (ast.Assign, ast.AnnAssign)):
                continue
            raise Unknown(f"statement {type(s).__name__} in predicate")
        return None

    r = run(fn.body)
    if r is None:
        raise Unknown("no return reached")
    return r


def self_terms(e: ast.AST) -> Optional[frozenset]:
    """{'offset'} / {'offset','length'} for self.offset (+ self.length | + 0)."""
    if isinstance(e, ast.Attribute) and isinstance(e.value, ast.Name) and e.value.id == "self":
        return frozenset([e.attr])
    if isinstance(e, ast.Constant) and e.value == 0:
        return frozenset()
    if isinstance(e, ast.BinOp) and isinstance(e.op, ast.Add):
        a, b = self_terms(e.left), self_terms(e.right)
        if a is None or b is None:
            return None
        return a | b
    return None


def filter_shape(e: ast.AST) -> Tuple[frozenset, str, str]:
    """``self[<terms> <op> <name>]`` -> (terms, op, bound name)."""
    if not (isinstance(e, ast.Subscript) and isinstance(e.value, ast.Name) and e.value.id == "self"):
        raise Unknown("result is not self[mask]")
    c = e.slice
    if not (isinstance(c, ast.Compare) and len(c.ops) == 1 and type(c.ops[0]) in OPS):
        raise Unknown("mask is not a single comparison")
    op = OPS[type(c.ops[0])]
    l, r = c.left, c.comparators[0]
    lt = self_terms(l)
    if lt is not None and isinstance(r, ast.Name):
        return lt, op, r.id
    rt = self_terms(r)
    if rt is not None and isinstance(l, ast.Name):
        flip = {">": "<", ">=": "<=", "<": ">", "<=": ">=", "==": "==", "!=": "!="}
        return rt, flip[op], l.id
    raise Unknown("comparison operands not recognised")


def all_flag_values(names: List[str]):
    for vals in itertools.product([False, True], repeat=len(names)):
        yield dict(zip(names, vals))


# ------------------------------------------------------------- operator tables
def _is_name(e, name):
    return isinstance(e, ast.Name) and e.id == name


def _is_recip(e, name):
    return isinstance(e, ast.BinOp) and isinstance(e.op, ast.Div) and isinstance(e.left, ast.Constant) and \
        e.left.value in (1, 1.0) and _is_name(e.right, name)


def scaling(stmt: ast.stmt, by: str) -> Optional[Tuple[ast.AST, str]]:
    """(target node, 'div' | 'mul' | 'other') if the statement rescales its
    target by the parameter ``by``; None if it is not an update of a target by
    an expression mentioning ``by``.  Accepted idioms: x /= by, x = x / by,
    x *= 1 / by (div); x *= by, x = x * by, x = by * x, x /= 1 / by (mul)."""
    if isinstance(stmt, ast.AugAssign):
        t, v = stmt.target, stmt.value
        mentions = any(_is_name(n, by) for n in ast.walk(v))
        if not mentions:
            return None
        if isinstance(stmt.op, ast.Div):
            if _is_name(v, by):
                return t, "div"
            if _is_recip(v, by):
                return t, "mul"
        if isinstance(stmt.op, ast.Mult):
            if _is_name(v, by):
                return t, "mul"
            if _is_recip(v, by):
                return t, "div"
        return t, "other"
    if isinstance(stmt, ast.Assign) and len(stmt.targets) == 1:
        t, v = stmt.targets[0], stmt.value
        if not any(_is_name(n, by) for n in ast.walk(v)):
            return None
        if isinstance(v, ast.BinOp):
            tt = ast.unparse(t)
            l, r = v.left, v.right
            if isinstance(v.op, ast.Div) and ast.unparse(l) == tt:
                if _is_name(r, by):
                    return t, "div"
                if _is_recip(r, by):
                    return t, "mul"
            if isinstance(v.op, ast.Mult):
                if ast.unparse(l) == tt and _is_name(r, by) or ast.unparse(r) == tt and _is_name(l, by):
                    return t, "mul"
                if ast.unparse(l) == tt and _is_recip(r, by) or ast.unparse(r) == tt and _is_recip(l, by):
                    return t, "div"
            if ast.unparse(l) == tt or ast.unparse(r) == tt:
                return t, "other"
        return None
    return None


def rebinds(fn: ast.FunctionDef, name: str) -> List[ast.AST]:
    out = []
    for n in ast.walk(fn):
        if isinstance(n, (ast.Assign, ast.AugAssign, ast.AnnAssign)):
            ts = n.targets if isinstance(n, ast.Assign) else [n.target]
            for t in ts:
                for x in ast.walk(t):
                    if isinstance(x, ast.Name) and x.id == name and isinstance(x.ctx, ast.Store):
                        out.append(n)
    return out
