"""Demo / digest program for property C13 (rate change).

Run from inside the worktree:
    cd /tmp/wt7/C13 && PYTHONPATH=/tmp/wt7/C13 /venv/bin/python demo.py

Prints one line ``DIGEST <hex>``: sha256 of a canonical text dump of everything
the rate code paths produce (values bit-exact, dtypes, column order, row labels,
scalar types, warnings raised, exception types, and the inputs afterwards).
"""
import hashlib
import logging
import random
import sys
import warnings
from pathlib import Path

import numpy as np
import pandas as pd

from reamber.base.Map import Map
from reamber.base.MapSet import MapSet
from reamber.base.Hit import Hit
from reamber.base.Hold import Hold
from reamber.base.Bpm import Bpm
from reamber.base.lists.BpmList import BpmList
from reamber.base.lists.notes.HitList import HitList
from reamber.base.lists.notes.HoldList import HoldList
from reamber.base.lists.notes.NoteList import NoteList
from reamber.bms import BMSMap, BMSHit, BMSHold, BMSBpm
from reamber.bms.lists.BMSBpmList import BMSBpmList
from reamber.bms.lists.notes.BMSHitList import BMSHitList
from reamber.bms.lists.notes.BMSHoldList import BMSHoldList
from reamber.o2jam import O2JMap, O2JMapSet, O2JHit, O2JHold, O2JBpm
from reamber.o2jam.lists.O2JBpmList import O2JBpmList
from reamber.o2jam.lists.notes.O2JHitList import O2JHitList
from reamber.o2jam.lists.notes.O2JHoldList import O2JHoldList
from reamber.osu import OsuMap, OsuHit, OsuHold, OsuBpm, OsuSv
from reamber.osu.OsuSample import OsuSample
from reamber.osu.lists.OsuBpmList import OsuBpmList
from reamber.osu.lists.OsuSampleList import OsuSampleList
from reamber.osu.lists.OsuSvList import OsuSvList
from reamber.osu.lists.notes.OsuHitList import OsuHitList
from reamber.osu.lists.notes.OsuHoldList import OsuHoldList
from reamber.quaver import QuaMap, QuaHit, QuaHold, QuaBpm, QuaSv
from reamber.quaver.lists.QuaBpmList import QuaBpmList
from reamber.quaver.lists.QuaSvList import QuaSvList
from reamber.quaver.lists.notes.QuaHitList import QuaHitList
from reamber.quaver.lists.notes.QuaHoldList import QuaHoldList
from reamber.sm import SMMap, SMMapSet, SMHit, SMHold, SMBpm, SMStop
from reamber.sm.SMRoll import SMRoll
from reamber.sm.SMMine import SMMine
from reamber.sm.SMFake import SMFake
from reamber.sm.SMLift import SMLift
from reamber.sm.SMKeySound import SMKeySound
from reamber.sm.lists.SMBpmList import SMBpmList
from reamber.sm.lists.SMStopList import SMStopList
from reamber.sm.lists.notes import (
    SMHitList,
    SMHoldList,
    SMRollList,
    SMMineList,
    SMFakeList,
    SMLiftList,
    SMKeySoundList,
)

HERE = Path(__file__).resolve().parent
# The demo may be stored outside the worktree; the maps live in the worktree
RSC = Path("/tmp/wt7/C13/rsc/maps")

random.seed(20261001)
# keep stderr quiet; warnings raised inside the measured calls are recorded in
# the dump by ``attempt`` (catch_warnings restores this filter afterwards)
warnings.simplefilter("ignore")
logging.disable(logging.CRITICAL)
OUT = []


def emit(*parts):
    OUT.append(" ".join(str(p) for p in parts))


# --------------------------------------------------------------------------- #
# canonical dumps
# --------------------------------------------------------------------------- #
def canon(v):
    """Bit exact, type revealing text of a scalar"""
    if isinstance(v, (bool, np.bool_)):
        return f"{type(v).__name__}:{bool(v)}"
    if isinstance(v, (float, np.floating)):
        f = float(v)
        return f"{type(v).__name__}:{'nan' if f != f else f.hex()}"
    if isinstance(v, (int, np.integer)):
        return f"{type(v).__name__}:{int(v)}"
    if isinstance(v, (list, tuple)):
        return f"{type(v).__name__}[" + ",".join(canon(i) for i in v) + "]"
    if isinstance(v, pd.DataFrame):
        return "DF{" + dump_df(v) + "}"
    if isinstance(v, pd.Series):
        return "SER{" + dump_df(v.to_frame()) + f"|name={v.name!r}" + "}"
    if hasattr(v, "df") and isinstance(getattr(v, "df"), pd.DataFrame):
        return f"{type(v).__name__}{{" + dump_df(v.df) + "}"
    return f"{type(v).__name__}:{v!r}"


def dump_df(df: pd.DataFrame) -> str:
    parts = [
        f"cols={list(df.columns)!r}",
        f"dtypes={[str(t) for t in df.dtypes]!r}",
        f"index={type(df.index).__name__}:{str(df.index.dtype)}:{list(df.index)!r}",
        f"shape={df.shape!r}",
    ]
    for c in df.columns:
        parts.append(f"{c}=[" + ",".join(canon(v) for v in df[c].tolist()) + "]")
    return ";".join(parts)


def dump_obj(o, depth=0) -> str:
    """Dump a Map / MapSet / anything dataclass-like with all its fields"""
    if isinstance(o, MapSet):
        parts = [f"SET<{type(o).__name__}>"]
        for k in sorted(vars(o)):
            if k == "maps":
                continue
            parts.append(f"{k}={canon(vars(o)[k])}")
        parts.append(f"n_maps={len(o.maps)}")
        for i, m in enumerate(o.maps):
            parts.append(f"map[{i}]=" + dump_obj(m, depth + 1))
        return "\n".join(parts)
    if isinstance(o, Map):
        parts = [f"MAP<{type(o).__name__}>"]
        for k in sorted(vars(o)):
            if k == "objs":
                continue
            parts.append(f"{k}={canon(vars(o)[k])}")
        parts.append(f"objs_keys={list(o.objs.keys())!r}")
        for k, v in o.objs.items():
            parts.append(f"objs[{k}]<{type(v).__name__}>=" + dump_df(v.df))
        return "\n".join(parts)
    return canon(o)


def attempt(label, fn):
    """Runs fn, dumps result or exception type, and the warnings it raised"""
    with warnings.catch_warnings(record=True) as w:
        warnings.simplefilter("always")
        try:
            r = fn()
            emit(f"[{label}] OK")
            emit(dump_obj(r))
        except Exception as e:  # noqa
            r = None
            emit(f"[{label}] EXC {type(e).__name__}")
    emit(f"[{label}] WARN {sorted(x.category.__name__ for x in w)!r}")
    return r


# --------------------------------------------------------------------------- #
# generators
# --------------------------------------------------------------------------- #
RATES = [0.5, 1.0, 1.1, 1.5, 2.0, 1 / 3, 0.75, 3, 2, np.float64(1.25), 1e-3, 7.0]


def rnd_offsets(n, kind):
    """kind: grid / free / ties / unsorted / negative / int"""
    if kind == "grid":
        return [float(250 * i) for i in sorted(random.sample(range(0, 64), n))]
    if kind == "ties":
        base = [float(random.choice([0, 500, 1000, 1500])) for _ in range(n)]
        return sorted(base)
    if kind == "unsorted":
        return [round(random.uniform(0, 60000), 3) for _ in range(n)]
    if kind == "negative":
        return sorted(round(random.uniform(-5000, 5000), 2) for _ in range(n))
    if kind == "int":
        return sorted(random.sample(range(0, 100000), n))
    return sorted(random.uniform(0, 120000) for _ in range(n))


KINDS = ["grid", "free", "ties", "unsorted", "negative", "int"]


def gen_bpms(cls, n, kind, **extra):
    offs = rnd_offsets(n, "grid" if kind in ("ties", "unsorted") else kind)
    return [
        cls(offset=o, bpm=random.choice([60, 120.0, 150.5, 200, 333.333]), **extra)
        for o in offs
    ]


def gen_base(kind, n_hit, n_hold, n_bpm):
    m = Map()
    m.hits = HitList(
        [Hit(offset=o, column=random.randrange(7)) for o in rnd_offsets(n_hit, kind)]
    )
    m.holds = HoldList(
        [
            Hold(offset=o, column=random.randrange(7), length=random.choice([0, 1, 125.5, 1000]))
            for o in rnd_offsets(n_hold, kind)
        ]
    )
    m.bpms = BpmList(gen_bpms(Bpm, n_bpm, kind))
    return m


def gen_osu(kind, n_hit, n_hold, n_bpm, n_sv, n_sample, preview):
    m = OsuMap()
    m.hits = OsuHitList(
        [
            OsuHit(offset=o, column=random.randrange(4), volume=random.randrange(100),
                   hitsound_file=random.choice(["", "a.wav"]))
            for o in rnd_offsets(n_hit, kind)
        ]
    )
    m.holds = OsuHoldList(
        [
            OsuHold(offset=o, column=random.randrange(4), length=random.choice([1, 250, 333.3, 2000]))
            for o in rnd_offsets(n_hold, kind)
        ]
    )
    m.bpms = OsuBpmList(
        [
            OsuBpm(offset=b.offset, bpm=b.bpm, kiai=random.random() < 0.5,
                   metronome=random.choice([3, 4]))
            for b in gen_bpms(Bpm, n_bpm, kind)
        ]
    )
    m.svs = OsuSvList(
        [
            OsuSv(offset=o, multiplier=random.choice([0.5, 1.0, 2.0]), kiai=random.random() < 0.5)
            for o in rnd_offsets(n_sv, kind)
        ]
    )
    m.samples = OsuSampleList(
        [
            OsuSample(offset=o, sample_file=f"s{i}.wav", volume=random.randrange(100))
            for i, o in enumerate(rnd_offsets(n_sample, kind))
        ]
    )
    m.preview_time = preview
    m.title = "t" + kind
    m.tags = ["a", "b"]
    return m


def gen_qua(kind, n_hit, n_hold, n_bpm, n_sv):
    m = QuaMap()
    m.hits = QuaHitList(
        [QuaHit(offset=o, column=random.randrange(4), keysounds=[]) for o in rnd_offsets(n_hit, kind)]
    )
    m.holds = QuaHoldList(
        [
            QuaHold(offset=o, column=random.randrange(4), length=random.choice([1, 250, 333.3]),
                    keysounds=["k"])
            for o in rnd_offsets(n_hold, kind)
        ]
    )
    m.bpms = QuaBpmList(gen_bpms(QuaBpm, n_bpm, kind))
    m.svs = QuaSvList(
        [QuaSv(offset=o, multiplier=random.choice([0.5, 1.0, 2.0])) for o in rnd_offsets(n_sv, kind)]
    )
    m.title = "q" + kind
    return m


def gen_bms(kind, n_hit, n_hold, n_bpm):
    m = BMSMap()
    m.hits = BMSHitList(
        [BMSHit(offset=o, column=random.randrange(7), sample=b"01") for o in rnd_offsets(n_hit, kind)]
    )
    m.holds = BMSHoldList(
        [
            BMSHold(offset=o, column=random.randrange(7), length=random.choice([250, 500.0]),
                    sample=b"02")
            for o in rnd_offsets(n_hold, kind)
        ]
    )
    m.bpms = BMSBpmList(gen_bpms(BMSBpm, n_bpm, kind))
    return m


def gen_o2j(kind, n_hit, n_hold, n_bpm):
    m = O2JMap()
    m.hits = O2JHitList(
        [O2JHit(offset=o, column=random.randrange(7), volume=random.randrange(16))
         for o in rnd_offsets(n_hit, kind)]
    )
    m.holds = O2JHoldList(
        [O2JHold(offset=o, column=random.randrange(7), length=random.choice([250, 500.0]))
         for o in rnd_offsets(n_hold, kind)]
    )
    m.bpms = O2JBpmList(gen_bpms(O2JBpm, n_bpm, kind))
    return m


def gen_sm(kind, n_hit, n_hold, n_bpm, n_other, n_stop):
    m = SMMap()
    m.hits = SMHitList([SMHit(offset=o, column=random.randrange(4)) for o in rnd_offsets(n_hit, kind)])
    m.holds = SMHoldList(
        [SMHold(offset=o, column=random.randrange(4), length=random.choice([250, 500.0]))
         for o in rnd_offsets(n_hold, kind)]
    )
    m.rolls = SMRollList(
        [SMRoll(offset=o, column=random.randrange(4), length=250.0) for o in rnd_offsets(n_other, kind)]
    )
    m.mines = SMMineList([SMMine(offset=o, column=random.randrange(4)) for o in rnd_offsets(n_other, kind)])
    m.fakes = SMFakeList([SMFake(offset=o, column=random.randrange(4)) for o in rnd_offsets(n_other, kind)])
    m.lifts = SMLiftList([SMLift(offset=o, column=random.randrange(4)) for o in rnd_offsets(n_other, kind)])
    m.keysounds = SMKeySoundList(
        [SMKeySound(offset=o, column=random.randrange(4)) for o in rnd_offsets(n_other, kind)]
    )
    m.stops = SMStopList([SMStop(offset=o, length=125.0) for o in rnd_offsets(n_stop, kind)])
    m.bpms = SMBpmList(gen_bpms(SMBpm, n_bpm, kind))
    return m


def gen_sm_writable(n_hit, n_hold, n_bpm, n_other, n_stop):
    """A StepMania chart the writer can snap: tempo starts at 0, on measures"""
    m = gen_sm("grid", n_hit, n_hold, 1, n_other, 0)
    m.bpms = SMBpmList(
        [SMBpm(offset=o, bpm=b) for o, b in [(0, 120), (4000, 240), (8000, 60)][:n_bpm]]
    )
    m.stops = SMStopList(
        [SMStop(offset=o, length=l) for o, l in [(2000, 125.0), (6000, 62.5)][:n_stop]]
    )
    return m


def sizes():
    """A few shapes, including the empty lists of the domain"""
    return random.choice(
        [
            (0, 0, 1),
            (5, 0, 1),
            (0, 4, 2),
            (6, 3, 1),
            (9, 5, 3),
            (1, 1, 1),
            (12, 0, 2),
        ]
    )


# --------------------------------------------------------------------------- #
# checks shared by all maps
# --------------------------------------------------------------------------- #
def exercise(label, obj, rates):
    before = dump_obj(obj)
    emit(f"[{label}] INPUT")
    emit(before)
    for r in rates:
        attempt(f"{label} rate {r!r}", lambda: obj.rate(r))
        emit(f"[{label}] input unchanged after rate {r!r}: {dump_obj(obj) == before}")
    a, b = rates[0], rates[-1]
    attempt(f"{label} compose {a!r},{b!r}", lambda: obj.rate(a).rate(b))
    attempt(f"{label} product {a!r}*{b!r}", lambda: obj.rate(a * b))
    attempt(f"{label} kw", lambda: obj.rate(by=rates[0]))
    emit(f"[{label}] input unchanged at end: {dump_obj(obj) == before}")


def pick_rates(k=3):
    return random.sample(RATES, k)


# --------------------------------------------------------------------------- #
# 1. generated maps of all five games (+ the base classes)
# --------------------------------------------------------------------------- #
def section_generated():
    n = 0
    for kind in KINDS:
        for rep in range(2):
            h, l, b = sizes()
            exercise(f"base/{kind}/{rep}", gen_base(kind, h, l, b), pick_rates())
            h, l, b = sizes()
            exercise(
                f"osu/{kind}/{rep}",
                gen_osu(kind, h, l, b, random.choice([0, 3]), random.choice([0, 4]),
                        random.choice([-1, 0, 12345, 999.5, -1.0, 40000])),
                pick_rates(),
            )
            h, l, b = sizes()
            exercise(f"qua/{kind}/{rep}", gen_qua(kind, h, l, b, random.choice([0, 3])), pick_rates())
            h, l, b = sizes()
            exercise(f"bms/{kind}/{rep}", gen_bms(kind, h, l, b), pick_rates())
            h, l, b = sizes()
            exercise(f"o2j/{kind}/{rep}", gen_o2j(kind, h, l, b), pick_rates())
            h, l, b = sizes()
            exercise(
                f"sm/{kind}/{rep}",
                gen_sm(kind, h, l, b, random.choice([0, 2]), random.choice([0, 2])),
                pick_rates(),
            )
            n += 6
    emit("generated maps", n)


# --------------------------------------------------------------------------- #
# 2. map sets
# --------------------------------------------------------------------------- #
def section_sets():
    exercise("set/empty", MapSet([]), [1.1, 2.0])
    for i, kind in enumerate(KINDS):
        h, l, b = sizes()
        ms = MapSet([gen_base(kind, h, l, b), gen_base(kind, l, h, b)])
        exercise(f"set/base/{kind}", ms, pick_rates(2))

        ms = MapSet([gen_osu(kind, h, l, b, 2, 2, 5000), gen_osu(kind, h, 0, b, 0, 0, -1)])
        exercise(f"set/osu/{kind}", ms, pick_rates(2))

        sms = SMMapSet()
        sms.maps = [gen_sm(kind, h, l, b, 1, 1), gen_sm(kind, h, 0, b, 0, 0)]
        sms.title = "sm" + kind
        sms.offset = [None, 0.0, -125.5, 300, 1e3, 7][i]
        sms.sample_start = [0.0, 1234.5, 10, 0, 99999.9, 5.5][i]
        sms.sample_length = [10.0, 0.0, 15000, 1, 2.5, 3][i]
        sms.selectable = bool(i % 2)
        exercise(f"set/sm/{kind}", sms, pick_rates(2))

        o2 = O2JMapSet()
        o2.maps = [gen_o2j(kind, h, l, b) for _ in range(3)]
        exercise(f"set/o2j/{kind}", o2, pick_rates(2))

    # a set that holds the same map object twice, and a shared list
    m = gen_base("grid", 4, 2, 1)
    exercise("set/same-map-twice", MapSet([m, m]), [1.5, 2.0])
    m2 = gen_base("grid", 3, 0, 1)
    m2.objs["bpms"] = m.objs["bpms"]
    exercise("set/shared-bpms", MapSet([m, m2]), [0.5, 3])

    # bad time fields of the SM file
    sms = SMMapSet()
    sms.maps = [gen_sm("grid", 3, 1, 1, 0, 0)]
    sms.sample_start = None
    attempt("set/sm sample_start None", lambda: sms.rate(2.0))
    sms.sample_start = 0.0
    sms.sample_length = "10"
    attempt("set/sm sample_length str", lambda: sms.rate(2.0))
    emit(dump_obj(sms))


# --------------------------------------------------------------------------- #
# 3. exceptions / odd rates
# --------------------------------------------------------------------------- #
def section_odd_rates():
    osu = gen_osu("grid", 4, 2, 1, 1, 2, 3000)
    osu_nop = gen_osu("grid", 4, 2, 1, 1, 2, -1)
    base = gen_base("grid", 3, 2, 1)
    sms = SMMapSet()
    sms.maps = [gen_sm("grid", 3, 1, 1, 0, 1)]
    sms.offset = 100.0
    for r in [0, 0.0, -1.0, -2, "2", None, float("inf"), float("nan"), True,
              np.int64(2), np.float32(1.5), [2.0], 2 + 0j]:
        for name, o in (("osu", osu), ("osu-nop", osu_nop), ("base", base), ("smset", sms),
                        ("set", MapSet([base]))):
            before = dump_obj(o)
            attempt(f"odd {name} rate {r!r}", lambda: o.rate(r))
            emit(f"odd {name} unchanged {dump_obj(o) == before}")

    # a map that lacks one of the stacked properties
    m = Map()
    del m.objs["holds"]
    attempt("no holds", lambda: m.rate(2.0))
    m = Map()
    del m.objs["bpms"]
    attempt("no bpms", lambda: m.rate(2.0))
    m = Map()
    m.objs.clear()
    attempt("no objs", lambda: m.rate(2.0))

    # osu preview point of other types
    for pv in [-1, -1.0, 0, 0.0, -0.0, 1, np.int64(500), np.float64(-1), None, "100", True]:
        o = gen_osu("grid", 2, 1, 1, 0, 1, pv)
        attempt(f"preview {pv!r}", lambda: o.rate(2.0))
        emit("preview input after", canon(o.preview_time))
    o = gen_osu("grid", 2, 1, 1, 0, 1, 100)
    o.samples = None
    attempt("samples None", lambda: o.rate(2.0))

    # a subclass instance goes through the same code
    class MyOsu(OsuMap):
        pass

    my = MyOsu()
    my.hits = OsuHitList([OsuHit(offset=100, column=1)])
    my.bpms = OsuBpmList([OsuBpm(offset=0, bpm=100)])
    my.preview_time = 50
    my.extra = [1, 2, 3]
    r = attempt("subclass osu", lambda: my.rate(2.0))
    emit("subclass type", type(r).__name__, "extra", r.extra, r.extra is my.extra)

    class MySet(SMMapSet):
        pass

    mys = MySet()
    mys.maps = [gen_sm("grid", 2, 1, 1, 0, 0)]
    mys.offset = 10.0
    mys.extra = {"a": [1]}
    r = attempt("subclass smset", lambda: mys.rate(2.0))
    emit("subclass type", type(r).__name__, r.extra, r.extra is mys.extra,
         r.maps is mys.maps, r.maps[0] is mys.maps[0])


# --------------------------------------------------------------------------- #
# 4. the stacker the rate is built on
# --------------------------------------------------------------------------- #
def section_stacker():
    for kind in ("grid", "ties", "int"):
        m = gen_osu(kind, 5, 3, 2, 2, 1, 100)
        st = m.stack()
        for p in ("offset", "column", "length", "bpm", "metronome", "volume", "kiai"):
            attempt(f"stack get {kind} {p}", lambda: st[p])
        attempt(f"stack bad {kind}", lambda: st["nope"])
        with warnings.catch_warnings(record=True) as w:
            warnings.simplefilter("always")
            st.offset /= 2
            st.bpm *= 2
            st.length /= 2
            emit(dump_obj(m))
            st.loc[st.offset > 100, "column"] += 1
            emit(dump_obj(m))
            st2 = m.stack(include_types=(NoteList,))
            attempt(f"stack notes only bpm {kind}", lambda: st2["bpm"])
            st2.offset *= 3
            emit(dump_obj(m))
            rated = m.rate(2.0)
            # a rated map can be changed further without touching the source
            rated.hits.offset += 1
            rated.hits.df["column"] = 0
            rated.holds.df.loc[:, "length"] = 5.0
            rated.samples.offset += 1
            rated.stack().offset += 1
            rated2 = rated.rate(0.5)
            rated2.bpms.bpm *= 2
            emit(dump_obj(rated))
            emit(dump_obj(rated2))
            emit(dump_obj(m))
        emit(f"[stack {kind}] WARN {sorted(x.category.__name__ for x in w)!r}")


# --------------------------------------------------------------------------- #
# 5. write the rated chart and read it back
# --------------------------------------------------------------------------- #
def sm_text(offset, sample_start, sample_length, selectable, bpms, stops, n_maps, with_offset=True):
    notes = []
    for _ in range(n_maps):
        measures = []
        for _m in range(4):
            rows = []
            for _r in range(random.choice([4, 8])):
                rows.append("".join(random.choice("0000012M") for _ in range(4)))
            measures.append("\n".join(rows))
        body = "\n,\n".join(measures)
        # close every hold head
        body = body.replace("2", "1")
        notes.append(
            "#NOTES:\n dance-single:\n desc:\n Hard:\n 9:\n 0.1,0.2,0.3,0.4,0.5:\n" + body + "\n;"
        )
    head = [
        "#TITLE:T;", "#SUBTITLE:S;", "#ARTIST:A;", "#MUSIC:m.ogg;",
        *( [f"#OFFSET:{offset};"] if with_offset else [] ),
        "#BPMS:" + ",".join(f"{b}={v}" for b, v in bpms) + ";",
        "#STOPS:" + ",".join(f"{b}={v}" for b, v in stops) + ";",
        f"#SAMPLESTART:{sample_start};", f"#SAMPLELENGTH:{sample_length};",
        f"#SELECTABLE:{selectable};", "#BGCHANGES:x;", "#FGCHANGES:y;", "#DISPLAYBPM:*;",
    ]
    return "\n".join(head + notes)


def osu_text(preview, n_samples, n_hit, n_hold, n_sv):
    lines = [
        "osu file format v14", "", "[General]", "AudioFilename: a.mp3", "AudioLeadIn: 0",
        f"PreviewTime: {preview}", "Countdown: 0", "SampleSet: Soft", "StackLeniency: 0.7",
        "Mode: 3", "LetterboxInBreaks: 0", "SpecialStyle: 0", "WidescreenStoryboard: 1", "",
        "[Editor]", "DistanceSpacing: 1", "BeatDivisor: 4", "GridSize: 8", "TimelineZoom: 1", "",
        "[Metadata]", "Title:T", "TitleUnicode:T", "Artist:A", "ArtistUnicode:A", "Creator:C",
        "Version:V", "Source:", "Tags:x y", "BeatmapID:0", "BeatmapSetID:-1", "",
        "[Difficulty]", "HPDrainRate:8", "CircleSize:4", "OverallDifficulty:8", "ApproachRate:5",
        "SliderMultiplier:1.4", "SliderTickRate:1", "", "[Events]",
        '0,0,"bg.jpg",0,0',
    ]
    for i in range(n_samples):
        lines.append(f'Sample,{random.randrange(0, 60000)},0,"s{i}.wav",{random.randrange(100)}')
    lines += ["", "[TimingPoints]", "0,500,4,1,0,50,1,0", "8000,250,4,1,0,60,1,1"]
    for i in range(n_sv):
        lines.append(f"{random.randrange(0, 60000)},-{random.choice([50, 100, 200])},4,1,0,50,0,0")
    lines += ["", "[HitObjects]"]
    xs = [64, 192, 320, 448]
    objs = []
    for i in range(n_hit):
        objs.append((random.randrange(0, 240) * 250, f"{random.choice(xs)},192,%d,1,0,0:0:0:0:"))
    for i in range(n_hold):
        t = random.randrange(0, 240) * 250
        objs.append((t, f"{random.choice(xs)},192,%d,128,0,{t + random.choice([250, 1000])}:0:0:0:0:"))
    for t, s in sorted(objs):
        lines.append(s % t)
    return lines


def section_roundtrip():
    # --- StepMania: generated files
    cases = [
        (0.0, 0.0, 10.0, "YES", [(0, 120)], [], 1, True),
        (-0.125, 12.5, 15.0, "NO", [(0, 120), (8, 240)], [(4, 0.5)], 2, True),
        (0.25, 30.0, 0.0, "YES", [(0, 150)], [(2, 0.25), (6, 0.125)], 1, True),
        (1.0, 5.0, 7.5, "maybe", [(0, 100), (4, 200), (12, 50)], [], 3, True),
        (0.0, 1.0, 2.0, "YES", [(0, 180)], [], 1, False),
        (2.5, 100.0, 12.0, "NO", [(0, 60)], [(1, 1.0)], 1, True),
    ]
    for i, c in enumerate(cases):
        txt = sm_text(*c)
        sms = attempt(f"sm read {i}", lambda: SMMapSet.read(txt))
        if sms is None:
            continue
        emit(f"sm meta lines {i}", repr(sms._write_metadata()))
        for r in [1.0, 2.0, 0.5, 1.25]:
            rated = attempt(f"sm rt {i} rate {r}", lambda: sms.rate(r))
            if rated is None:
                continue
            out = attempt(f"sm rt {i} write {r}", lambda: rated.write())
            emit(f"sm rt {i} meta {r}", repr(rated._write_metadata()))
            if out is not None:
                attempt(f"sm rt {i} reread {r}", lambda: SMMapSet.read(out))
                attempt(f"sm rt {i} reread-lines {r}", lambda: SMMapSet.read(out.split("\n")))

    # --- StepMania: a real file
    sms = SMMapSet.read_file(RSC / "sm/Escapes.sm")
    for r in [1.0, 1.1]:
        rated = attempt(f"sm file rate {r}", lambda: sms.rate(r))
        out = attempt(f"sm file write {r}", lambda: rated.write())
        attempt(f"sm file reread {r}", lambda: SMMapSet.read(out))

    # --- osu: generated files and a real one
    for i in range(6):
        lines = osu_text(
            preview=[-1, 0, 12000, 33333, -1, 500][i],
            n_samples=[0, 3, 5, 0, 1, 2][i],
            n_hit=[0, 8, 5, 10, 3, 6][i],
            n_hold=[0, 0, 4, 3, 0, 5][i],
            n_sv=[0, 0, 3, 2, 0, 1][i],
        )
        osu = attempt(f"osu read {i}", lambda: OsuMap.read(lines))
        if osu is None:
            continue
        for r in [1.0, 2.0, 0.5, 1.25]:
            rated = attempt(f"osu rt {i} rate {r}", lambda: osu.rate(r))
            if rated is None:
                continue
            out = attempt(f"osu rt {i} write {r}", lambda: rated.write())
            if out is not None:
                attempt(f"osu rt {i} reread {r}", lambda: OsuMap.read("\n".join(out).split("\n")))
    osu = OsuMap.read_file(RSC / "osu/AvengerHitsoundFile.osu")
    rated = attempt("osu file rate", lambda: osu.rate(1.1))
    out = attempt("osu file write", lambda: rated.write())
    attempt("osu file reread", lambda: OsuMap.read("\n".join(out).split("\n")))

    # --- quaver, bms, o2jam real files (o2jam has no writer)
    qua = QuaMap.read_file(RSC / "qua/CarryMeAway.qua")
    rated = attempt("qua file rate", lambda: qua.rate(1.5))
    out = attempt("qua file write", lambda: rated.write())
    attempt("qua file reread", lambda: QuaMap.read(out))
    for kind in ("grid",):
        for i in range(3):
            h, l, b = sizes()
            q = gen_qua(kind, h, l, b, i)
            rated = attempt(f"qua gen rate {i}", lambda: q.rate(2.0))
            out = attempt(f"qua gen write {i}", lambda: rated.write())
            if out is not None:
                attempt(f"qua gen reread {i}", lambda: QuaMap.read(out))

    bms = BMSMap.read_file(RSC / "bms/take.bms")
    rated = attempt("bms file rate", lambda: bms.rate(2.0))
    out = attempt("bms file write", lambda: rated.write())
    if out is not None:
        attempt("bms file reread", lambda: BMSMap.read(out.decode("ascii", errors="ignore").split("\n")
                                                       if isinstance(out, bytes) else out))

    o2 = O2JMapSet.read_file(RSC / "o2jam/o2ma120.ojn")
    attempt("o2j file rate", lambda: o2.rate(0.5))
    attempt("o2j file map rate", lambda: o2[1].rate(1.1))


# --------------------------------------------------------------------------- #
# 6. the StepMania header the rated time fields are written to / read from
# --------------------------------------------------------------------------- #
def section_sm_header():
    for i, sel in enumerate([True, False, 0, 1, "", "NO", None, [], np.bool_(False)]):
        sms = SMMapSet()
        sms.maps = [gen_sm_writable(4, 2, 1 + i % 3, i % 2, i % 3)]
        sms.offset = [0.0, -250.0, 125, 1000.5][i % 4]
        sms.sample_start = 1000.0 * i
        sms.selectable = sel
        sms.title = "{braces} %s {0}"
        attempt(f"sm header selectable {sel!r}", lambda: sms._write_metadata())
        rated = attempt(f"sm header rate {i}", lambda: sms.rate(1.0 + i / 4))
        attempt(f"sm header rated meta {i}", lambda: rated._write_metadata())
        out = attempt(f"sm header rated write {i}", lambda: rated.write())
        if out is not None:
            attempt(f"sm header rated reread {i}", lambda: SMMapSet.read(out))
    for v in ["YES", "NO", "yes", " YES ", "", "YES;", "Y ES", "1"]:
        txt = sm_text(0.0, 1.0, 2.0, v, [(0, 120)], [], 1)
        r = attempt(f"sm header read selectable {v!r}", lambda: SMMapSet.read(txt))
        if r is not None:
            emit("selectable", canon(r.selectable))
    # nothing to write the tempo from / an unset file offset
    sms = SMMapSet()
    attempt("sm header no maps", lambda: sms._write_metadata())
    sms.maps = [gen_sm_writable(2, 0, 1, 0, 0)]
    sms.offset = None
    attempt("sm header offset None", lambda: sms._write_metadata())
    attempt("sm header offset None write", lambda: sms.write())
    attempt("sm header offset None rate write", lambda: sms.rate(2.0).write())
    sms.offset = 0.0
    sms.maps[0].bpms = SMBpmList([])
    attempt("sm header no bpms", lambda: sms._write_metadata())
    # tempo / stop values of other dtypes
    sms = SMMapSet()
    m = gen_sm_writable(3, 1, 2, 0, 2)
    m.bpms.df["bpm"] = m.bpms.df["bpm"].astype(int)
    m.stops.df["length"] = m.stops.df["length"].astype(object)
    sms.maps = [m]
    sms.offset = 0
    attempt("sm header int bpm", lambda: sms._write_metadata())
    attempt("sm header int bpm rated", lambda: sms.rate(1.5)._write_metadata())


def main():
    section_sm_header()
    section_generated()
    section_sets()
    section_odd_rates()
    section_stacker()
    section_roundtrip()
    text = "\n".join(OUT)
    if "--dump" in sys.argv:
        sys.stdout.write(text + "\n")
    ok = sum(1 for line in OUT if line.endswith("] OK"))
    exc = sum(1 for line in OUT if "] EXC " in line)
    sys.stderr.write(f"results: {ok} ok, {exc} exceptions, {len(text)} chars dumped\n")
    print("DIGEST", hashlib.sha256(text.encode("utf8")).hexdigest())


if __name__ == "__main__":
    main()
