"""Behaviour digest for property C08 (conversions preserve chart content).

Run from inside the worktree:
    cd /tmp/wt7/C08 && PYTHONPATH=/tmp/wt7/C08 /venv/bin/python demo.py

Prints ONE line ``DIGEST <hex>``: a sha256 over a canonical text dump of
  * ``TimedList.empty(rows)`` for every shipped list class and many ``rows``
    (values, dtypes, column order, row labels, ownership of mutable defaults,
    exception types for bad ``rows``),
  * ``ConvertBase.cast`` called directly with column names, Series constants
    carrying odd row labels, scalar constants, missing attributes, sources with
    filtered / reversed / duplicated labels,
  * all 16 converters and ``O2JToSM.convert_merge`` on charts with every kind of
    history (freshly read, deep-copied, filtered, reverse-sorted, shuffled,
    appended to, modified through stacking, rate-changed, built from objects,
    empty), with shift arguments where the converter takes one, and
  * the SOURCE charts after every conversion (and after mutating the result), to
    pin "the source is left untouched".
"""
import dataclasses
import hashlib
import logging
import os
import random
import warnings
from pathlib import Path

import numpy as np
import pandas as pd

warnings.simplefilter("ignore")
logging.disable(logging.CRITICAL)

import reamber  # noqa: E402
from reamber.algorithms.convert import *  # noqa: E402,F401,F403
from reamber.algorithms.convert.ConvertBase import ConvertBase  # noqa: E402
from reamber.base.lists.TimedList import TimedList  # noqa: E402
from reamber.base.lists.BpmList import BpmList  # noqa: E402
from reamber.base.lists.notes.NoteList import NoteList  # noqa: E402
from reamber.base.lists.notes.HitList import HitList  # noqa: E402
from reamber.base.lists.notes.HoldList import HoldList  # noqa: E402
from reamber.bms.BMSMap import BMSMap  # noqa: E402
from reamber.bms.BMSHit import BMSHit  # noqa: E402
from reamber.bms.BMSHold import BMSHold  # noqa: E402
from reamber.bms.BMSBpm import BMSBpm  # noqa: E402
from reamber.bms.lists.BMSBpmList import BMSBpmList  # noqa: E402
from reamber.bms.lists.notes.BMSHitList import BMSHitList  # noqa: E402
from reamber.bms.lists.notes.BMSHoldList import BMSHoldList  # noqa: E402
from reamber.bms.lists.notes.BMSNoteList import BMSNoteList  # noqa: E402
from reamber.o2jam.O2JMapSet import O2JMapSet  # noqa: E402
from reamber.o2jam.O2JMap import O2JMap  # noqa: E402
from reamber.o2jam.O2JHit import O2JHit  # noqa: E402
from reamber.o2jam.O2JHold import O2JHold  # noqa: E402
from reamber.o2jam.O2JBpm import O2JBpm  # noqa: E402
from reamber.o2jam.lists.O2JBpmList import O2JBpmList  # noqa: E402
from reamber.o2jam.lists.notes.O2JHitList import O2JHitList  # noqa: E402
from reamber.o2jam.lists.notes.O2JHoldList import O2JHoldList  # noqa: E402
from reamber.o2jam.lists.notes.O2JNoteList import O2JNoteList  # noqa: E402
from reamber.osu.OsuMap import OsuMap  # noqa: E402
from reamber.osu.OsuHit import OsuHit  # noqa: E402
from reamber.osu.OsuHold import OsuHold  # noqa: E402
from reamber.osu.OsuBpm import OsuBpm  # noqa: E402
from reamber.osu.OsuSv import OsuSv  # noqa: E402
from reamber.osu.lists.OsuBpmList import OsuBpmList  # noqa: E402
from reamber.osu.lists.OsuSvList import OsuSvList  # noqa: E402
from reamber.osu.lists.OsuSampleList import OsuSampleList  # noqa: E402
from reamber.osu.lists.notes.OsuHitList import OsuHitList  # noqa: E402
from reamber.osu.lists.notes.OsuHoldList import OsuHoldList  # noqa: E402
from reamber.osu.lists.notes.OsuNoteList import OsuNoteList  # noqa: E402
from reamber.quaver.QuaMap import QuaMap  # noqa: E402
from reamber.quaver.QuaHit import QuaHit  # noqa: E402
from reamber.quaver.QuaHold import QuaHold  # noqa: E402
from reamber.quaver.QuaBpm import QuaBpm  # noqa: E402
from reamber.quaver.QuaSv import QuaSv  # noqa: E402
from reamber.quaver.lists.QuaBpmList import QuaBpmList  # noqa: E402
from reamber.quaver.lists.QuaSvList import QuaSvList  # noqa: E402
from reamber.quaver.lists.notes.QuaHitList import QuaHitList  # noqa: E402
from reamber.quaver.lists.notes.QuaHoldList import QuaHoldList  # noqa: E402
from reamber.quaver.lists.notes.QuaNoteList import QuaNoteList  # noqa: E402
from reamber.sm.SMMapSet import SMMapSet  # noqa: E402
from reamber.sm.SMMap import SMMap  # noqa: E402
from reamber.sm.SMHit import SMHit  # noqa: E402
from reamber.sm.SMHold import SMHold  # noqa: E402
from reamber.sm.SMBpm import SMBpm  # noqa: E402
from reamber.sm.lists.SMBpmList import SMBpmList  # noqa: E402
from reamber.sm.lists.SMStopList import SMStopList  # noqa: E402
from reamber.sm.lists.notes import (  # noqa: E402
    SMNoteList,
    SMHitList,
    SMHoldList,
    SMFakeList,
    SMLiftList,
    SMKeySoundList,
    SMMineList,
    SMRollList,
)

random.seed(20260108)
np.random.seed(20260108)

MAPS = Path(reamber.__file__).parents[1] / "rsc" / "maps"

H = hashlib.sha256()
N_LINES = 0
# optional: C08_DUMP=<path> also writes the canonical text that is being hashed
DUMP = open(os.environ["C08_DUMP"], "w", encoding="utf8") if os.environ.get("C08_DUMP") else None


def out(*parts):
    global N_LINES
    N_LINES += 1
    line = (" ".join(str(p) for p in parts) + "\n").encode("utf8", "backslashreplace")
    H.update(line)
    if DUMP:
        DUMP.write(line.decode("utf8"))


# ------------------------------------------------------------------ dumping


def cell(v):
    return f"{type(v).__module__}.{type(v).__qualname__}:{v!r}"


def dump_index(ix):
    return f"{type(ix).__name__}[{ix.dtype}]name={ix.name!r}:{list(ix)!r}"


def dump_df(tag, df):
    out(tag, "frame", type(df).__name__, "shape", df.shape)
    out(tag, "columns", [cell(c) for c in df.columns])
    out(tag, "index", dump_index(df.index))
    for c in df.columns:
        col = df[c]
        if col.dtype == object:
            out(tag, "col", c, col.dtype, [cell(v) for v in col])
        else:
            out(tag, "col", c, col.dtype, [repr(v) for v in col.tolist()])


def dump_list(tag, tl):
    out(tag, "list", type(tl).__module__, type(tl).__qualname__, "len", len(tl))
    dump_df(tag, tl.df)


def dump_meta(tag, obj, skip):
    for f in dataclasses.fields(obj):
        if f.name in skip:
            continue
        out(tag, "meta", f.name, cell(getattr(obj, f.name)))


def dump_map(tag, m):
    out(tag, "map", type(m).__module__, type(m).__qualname__)
    dump_meta(tag, m, ("objs",))
    out(tag, "objs", list(m.objs.keys()))
    for k, tl in m.objs.items():
        dump_list(f"{tag}.{k}", tl)


def dump_any(tag, obj):
    if isinstance(obj, list):
        out(tag, "pylist", len(obj))
        for i, o in enumerate(obj):
            dump_any(f"{tag}[{i}]", o)
    elif hasattr(obj, "maps"):
        out(tag, "mapset", type(obj).__module__, type(obj).__qualname__, len(obj.maps))
        dump_meta(tag, obj, ("maps",))
        for i, m in enumerate(obj.maps):
            dump_map(f"{tag}.maps[{i}]", m)
    elif hasattr(obj, "objs"):
        dump_map(tag, obj)
    elif isinstance(obj, TimedList):
        dump_list(tag, obj)
    else:
        out(tag, "value", cell(obj))


def maps_of(obj):
    if isinstance(obj, list):
        return [m for o in obj for m in maps_of(o)]
    if hasattr(obj, "maps"):
        return list(obj.maps)
    return [obj]


def attempt(tag, fn):
    try:
        return fn()
    except Exception as e:  # noqa
        out(tag, "RAISED", type(e).__module__, type(e).__qualname__)
        return None


# ------------------------------------------------------------------ part 1: TimedList.empty

LIST_CLASSES = [
    TimedList, BpmList, NoteList, HitList, HoldList,
    OsuBpmList, OsuSvList, OsuSampleList, OsuNoteList, OsuHitList, OsuHoldList,
    QuaBpmList, QuaSvList, QuaNoteList, QuaHitList, QuaHoldList,
    SMBpmList, SMStopList, SMNoteList, SMHitList, SMHoldList, SMFakeList,
    SMLiftList, SMKeySoundList, SMMineList, SMRollList,
    O2JBpmList, O2JNoteList, O2JHitList, O2JHoldList,
    BMSBpmList, BMSNoteList, BMSHitList, BMSHoldList,
]  # fmt: skip


def part_empty():
    row_counts = [0, 1, 2, 3, 7, 16, np.int64(4), np.int32(0), True, False]
    row_counts += [random.randrange(0, 40) for _ in range(6)]
    bad_counts = [-1, -5, None, "2", 2.0, 2.5, np.float64(3.0), [1], (2,), [1, 2], np.array([3])]
    for cls in LIST_CLASSES:
        name = cls.__qualname__
        for rows in row_counts:
            tag = f"empty/{name}/{rows!r}"
            tl = attempt(tag, lambda: cls.empty(rows))
            if tl is None:
                continue
            out(tag, "exact class", type(tl) is cls)
            dump_list(tag, tl)
            # ownership of mutable defaults, and independence from the class defaults
            for c in tl.df.columns:
                col = tl.df[c]
                if col.dtype != object or len(col) == 0:
                    continue
                proto = cls._default()[c].iloc[0]
                out(tag, "cells", c, "distinct ids", len({id(v) for v in col}), "of", len(col),
                    "shares default", any(v is proto for v in col))
                first = col.iloc[0]
                if isinstance(first, list):
                    first.append("touched")
                    out(tag, "after touching cell 0", c, [cell(v) for v in tl.df[c]])
                    again = cls.empty(2)
                    out(tag, "fresh after touch", c, [cell(v) for v in again.df[c]])
            # the frame is writable column-wise and row-wise like before
            tl.offset = np.arange(len(tl), dtype=float) * 10
            if len(tl):
                tl.df.iloc[0, 0] = tl.df.iloc[0, 0]
            dump_list(tag + "/written", tl)
            out(tag, "second call equal", cls.empty(rows).df.equals(cls.empty(rows).df))
        for rows in bad_counts:
            tag = f"empty/{name}/bad/{rows!r}"
            tl = attempt(tag, lambda: cls.empty(rows))
            if tl is not None:
                dump_list(tag, tl)


# ------------------------------------------------------------------ part 2: ConvertBase.cast directly


def random_hits(cls, item, n, keys, **extra):
    return cls([
        item(offset=random.choice([-500.0, 0.0, 0.5, 1000.0, 1000.0, 123456.789, float(random.randrange(0, 90000))]),
             column=random.randrange(keys), **{k: v() for k, v in extra.items()})
        for _ in range(n)
    ])  # fmt: skip


def part_cast():
    srcs = {}
    srcs["bms_hits"] = random_hits(BMSHitList, BMSHit, 9, 8, sample=lambda: random.choice([b"", b"kick.wav", b"\x82\xa0.ogg"]))
    srcs["bms_hits_one"] = random_hits(BMSHitList, BMSHit, 1, 8)
    srcs["bms_hits_none"] = BMSHitList([])
    srcs["osu_hits"] = random_hits(OsuHitList, OsuHit, 12, 7, hitsound_file=lambda: random.choice(["", "a.wav"]), volume=lambda: random.randrange(100))
    srcs["qua_hits"] = random_hits(QuaHitList, QuaHit, 10, 4, keysounds=lambda: random.choice([[], ["a"], ["a", "b"]]))
    srcs["sm_hits"] = random_hits(SMHitList, SMHit, 10, 4)
    srcs["o2j_hits"] = random_hits(O2JHitList, O2JHit, 10, 7, volume=lambda: random.randrange(16), pan=lambda: random.randrange(16))
    base = srcs["osu_hits"]
    srcs["osu_hits_filtered"] = base[base.column % 2 == 0]
    srcs["osu_hits_reversed"] = base.sorted(reverse=True)
    srcs["osu_hits_duplabels"] = OsuHitList(pd.concat([base.df, base.df.iloc[:3]]))
    srcs["osu_hits_strlabels"] = OsuHitList(base.df.set_axis([f"r{i}" for i in range(len(base))], axis=0))
    srcs["osu_hits_appended"] = base.append(base[0:2]).append(OsuHit(offset=77.0, column=2))
    srcs["osu_hits_deepcopy"] = base.deepcopy()
    srcs["osu_hits_intoffset"] = OsuHitList(base.df.astype({"offset": int}))
    srcs["osu_hits_floatcolumn"] = OsuHitList(base.df.astype({"column": float}))

    targets = [BMSHitList, OsuHitList, QuaHitList, SMHitList, O2JHitList, SMMineList, HitList]

    def mappings(src):
        n = len(src)
        yield "names", dict(offset="offset", column="column")
        yield "names_swapped_order", dict(column="column", offset="offset")
        yield "only_offset", dict(offset="offset")
        yield "nothing", dict()
        yield "cross", dict(offset="column", column="column")
        yield "series_const", dict(offset="offset", column=pd.Series(range(n), index=[10 * i + 3 for i in range(n)]))
        yield "series_rev", dict(offset=src.offset[::-1], column="column")
        yield "scalar_const", dict(offset="offset", column=3)
        yield "scalar_float", dict(offset=1.5, column="column")
        yield "ndarray_const", dict(offset=np.arange(n, dtype=float), column="column")
        yield "list_const", dict(offset=[float(i) for i in range(n)], column="column")
        yield "missing_attr", dict(offset="offset", column="no_such_column")
        yield "missing_first", dict(offset="nope", column="column")
        yield "method_name", dict(offset="offset", column="__len__")
        yield "wrong_len_series", dict(offset="offset", column=pd.Series(range(n + 2)))
        yield "wrong_len_array", dict(offset="offset", column=np.arange(n + 1))
        yield "new_attr", dict(offset="offset", brand_new="column")
        yield "int_key", {"offset": "offset", 5: "column"}

    for sname, src in srcs.items():
        before = src.df.copy(deep=True)
        for target in targets:
            for mname, mapping in mappings(src):
                tag = f"cast/{sname}/{target.__qualname__}/{mname}"
                keys_before = list(mapping.keys())
                res = attempt(tag, lambda: ConvertBase.cast(src, target, mapping))
                out(tag, "mapping keys kept", list(mapping.keys()) == keys_before)
                if res is None:
                    continue
                out(tag, "exact class", type(res) is target)
                dump_list(tag, res)
                extra = {k: cell(v) for k, v in vars(res).items() if k != "_df"}
                out(tag, "extra attrs", sorted(extra.items()))
                for c in res.df.columns:
                    if c in src.df.columns and res.df[c].dtype != object and src.df[c].dtype != object:
                        out(tag, "shares memory", c, bool(np.shares_memory(res.df[c].to_numpy(), src.df[c].to_numpy())))
                # writing into the result never reaches the source
                if len(res):
                    res.offset += 1
                    res.df.iloc[0, list(res.df.columns).index("column")] = 99
        out(f"cast/{sname}", "source unchanged", before.equals(src.df), list(before.index) == list(src.df.index),
            before.dtypes.to_dict() == src.df.dtypes.to_dict())
        dump_list(f"cast/{sname}/source_after", src)


# ------------------------------------------------------------------ part 3: converters over histories


def each_map(src):
    return list(src.maps) if hasattr(src, "maps") else [src]


def h_fresh(src, rng):
    return src


def h_deepcopy(src, rng):
    return src.deepcopy()


def h_filtered(src, rng):
    src = src.deepcopy()
    for m in each_map(src):
        for tl in m.objs.values():
            mask = np.array([rng.random() < 0.6 for _ in range(len(tl))], dtype=bool)
            tl.df = tl.df[mask]
    return src


def h_reversed(src, rng):
    src = src.deepcopy()
    for m in each_map(src):
        for tl in m.objs.values():
            tl.df = tl.sorted(reverse=True).df
    return src


def h_shuffled(src, rng):
    src = src.deepcopy()
    for m in each_map(src):
        for tl in m.objs.values():
            order = list(range(len(tl)))
            rng.shuffle(order)
            tl.df = tl.df.iloc[order]
    return src


def h_appended(src, rng):
    src = src.deepcopy()
    for m in each_map(src):
        for tl in m.objs.values():
            if len(tl) == 0:
                continue
            new = tl.append(tl[0:2]).append(tl[len(tl) - 1], sort=rng.random() < 0.5)
            tl.df = new.df
    return src


def h_stacked(src, rng):
    src = src.deepcopy()
    for m in each_map(src):
        s = m.stack()
        s.offset += 250.0
        s.loc[s.offset > 5000, "offset"] *= 1.5
        s.column = s.column  # round trip through the stacked frame
    return src


def h_rated(src, rng):
    return src.rate(rng.choice([0.5, 1.25, 2.0]))


def h_sliced(src, rng):
    src = src.deepcopy()
    for m in each_map(src):
        for tl in m.objs.values():
            tl.df = tl.between(1000, 60000).df
    return src


HISTORIES = [h_fresh, h_deepcopy, h_filtered, h_reversed, h_shuffled, h_appended, h_stacked, h_rated, h_sliced]


def thin(src, rng, keep):
    """Keeps the file-read charts small enough to dump every value."""
    src = src.deepcopy()
    for m in each_map(src):
        for tl in m.objs.values():
            if len(tl) > keep:
                picks = sorted(rng.sample(range(len(tl)), keep))
                tl.df = tl.df.iloc[picks].reset_index(drop=True)
    return src


def built_osu(rng, keys, n):
    m = OsuMap()
    m.hits = OsuHitList([OsuHit(offset=float(rng.randrange(0, 30000)), column=rng.randrange(keys), volume=rng.randrange(100)) for _ in range(n)])
    m.holds = OsuHoldList([OsuHold(offset=float(rng.randrange(0, 30000)), column=rng.randrange(keys), length=rng.choice([0.0, 1.0, 250.5, 4000.0])) for _ in range(n // 2)])
    m.bpms = OsuBpmList([OsuBpm(offset=0.0, bpm=rng.choice([60.0, 120.0, 174.5]))] + [OsuBpm(offset=float(rng.randrange(1, 30000)), bpm=rng.choice([90.0, 200.0, 0.001])) for _ in range(n // 5)])
    m.svs = OsuSvList([OsuSv(offset=float(rng.randrange(0, 30000)), multiplier=rng.choice([0.5, 1.0, 2.0, -1.0])) for _ in range(n // 4)])
    m.title, m.artist, m.creator, m.version = "Tïtle ★ 曲", "Ärtist", "mapper", f"{keys}K ♪"
    m.title_unicode, m.artist_unicode = "題名", "作者"
    m.circle_size = keys
    return m


def built_qua(rng, keys, n):
    m = QuaMap()
    m.hits = QuaHitList([QuaHit(offset=float(rng.randrange(0, 30000)), column=rng.randrange(keys), keysounds=rng.choice([[], ["k"]])) for _ in range(n)])
    m.holds = QuaHoldList([QuaHold(offset=float(rng.randrange(0, 30000)), column=rng.randrange(keys), length=rng.choice([0.0, 10.0, 999.25]), keysounds=[]) for _ in range(n // 2)])
    m.bpms = QuaBpmList([QuaBpm(offset=0.0, bpm=150.0)] + [QuaBpm(offset=float(rng.randrange(1, 30000)), bpm=rng.choice([75.0, 300.0])) for _ in range(n // 6)])
    m.svs = QuaSvList([QuaSv(offset=float(rng.randrange(0, 30000)), multiplier=rng.choice([0.0, 0.25, 10.0])) for _ in range(n // 3)])
    m.title, m.artist, m.creator, m.difficulty_name = "Quaver ‽ title", "アーティスト", "someone", "Hard ∞"
    m.mode = {4: "Keys4", 7: "Keys7"}.get(keys, "Keys4")
    return m


def built_bms(rng, keys, n):
    m = BMSMap()
    m.hits = BMSHitList([BMSHit(offset=float(rng.randrange(0, 30000)), column=rng.randrange(keys), sample=rng.choice([b"", b"01.wav", b"snare.ogg"])) for _ in range(n)])
    m.holds = BMSHoldList([BMSHold(offset=float(rng.randrange(0, 30000)), column=rng.randrange(keys), length=rng.choice([1.0, 480.0]), sample=b"ln.wav") for _ in range(n // 2)])
    m.bpms = BMSBpmList([BMSBpm(offset=0.0, bpm=128.0)] + [BMSBpm(offset=float(rng.randrange(1, 30000)), bpm=rng.choice([64.0, 256.0])) for _ in range(n // 6)])
    m.title, m.artist, m.version = "題名 title".encode("shift_jis"), b"artist", b"ANOTHER"
    return m


def built_sm(rng, keys, n):
    ms = SMMapSet()
    ms.maps = []
    for d in range(2):
        m = SMMap()
        m.hits = SMHitList([SMHit(offset=float(rng.randrange(0, 30000)), column=rng.randrange(keys)) for _ in range(n)])
        m.holds = SMHoldList([SMHold(offset=float(rng.randrange(0, 30000)), column=rng.randrange(keys), length=rng.choice([5.0, 1234.5])) for _ in range(n // 2)])
        m.bpms = SMBpmList([SMBpm(offset=0.0, bpm=140.0)] + [SMBpm(offset=float(rng.randrange(1, 30000)), bpm=rng.choice([70.0, 280.0])) for _ in range(n // 6)])
        m.difficulty, m.difficulty_val, m.description = ["Hard", "Challenge"][d], 7 + d, f"desc {d} ♥"
        ms.maps.append(m)
    ms.title, ms.artist, ms.credit = "SM tïtle 日本", "SM artist ☆", "stepper"
    return ms


def built_o2j(rng, keys, n):
    ms = O2JMapSet()
    ms.maps = []
    for d in range(3):
        m = O2JMap()
        m.hits = O2JHitList([O2JHit(offset=float(rng.randrange(0, 30000)), column=rng.randrange(keys), volume=rng.randrange(16), pan=rng.randrange(16)) for _ in range(n + d)])
        m.holds = O2JHoldList([O2JHold(offset=float(rng.randrange(0, 30000)), column=rng.randrange(keys), length=rng.choice([2.0, 800.0])) for _ in range(n // 2)])
        m.bpms = O2JBpmList([O2JBpm(offset=0.0, bpm=130.0)] + [O2JBpm(offset=float(rng.randrange(1, 30000)), bpm=rng.choice([65.0, 260.0])) for _ in range(n // 6)])
        ms.maps.append(m)
    ms.level = [3, 15, 42, 0]
    ms.title, ms.artist, ms.creator = "O2 tïtle 한글", "O2 artist ♬", "noter"
    return ms


def sources():
    rng = random.Random(77)
    yield "osu", "Gravity", thin(OsuMap.read_file((MAPS / "osu/Gravity.osu").as_posix()), rng, 40)
    yield "osu", "AvengerHitsoundFile", thin(OsuMap.read_file((MAPS / "osu/AvengerHitsoundFile.osu").as_posix()), rng, 25)
    yield "osu", "built7k", built_osu(rng, 7, 24)
    yield "osu", "built4k", built_osu(rng, 4, 6)
    yield "osu", "blank", OsuMap()
    yield "qua", "CarryMeAway", thin(QuaMap.read_file((MAPS / "qua/CarryMeAway.qua").as_posix()), rng, 40)
    yield "qua", "NeuroCloud", thin(QuaMap.read_file((MAPS / "qua/NeuroCloud.qua").as_posix()), rng, 25)
    yield "qua", "built4k", built_qua(rng, 4, 20)
    yield "qua", "built7k", built_qua(rng, 7, 7)
    yield "qua", "blank", QuaMap()
    yield "bms", "coldBreath", thin(BMSMap.read_file(MAPS / "bms/coldBreath.bme"), rng, 40)
    yield "bms", "take", thin(BMSMap.read_file(MAPS / "bms/take.bms"), rng, 25)
    yield "bms", "built8k", built_bms(rng, 8, 20)
    yield "bms", "blank", BMSMap()
    yield "sm", "Escapes", thin(SMMapSet.read_file((MAPS / "sm/Escapes.sm").as_posix()), rng, 30)
    yield "sm", "Gravity", thin(SMMapSet.read_file((MAPS / "sm/Gravity.sm").as_posix()), rng, 20)
    yield "sm", "built4k", built_sm(rng, 4, 18)
    yield "sm", "noMaps", SMMapSet()
    yield "o2j", "o2ma178", thin(O2JMapSet.read_file((MAPS / "o2jam/o2ma178.ojn").as_posix()), rng, 30)
    yield "o2j", "o2ma120", thin(O2JMapSet.read_file((MAPS / "o2jam/o2ma120.ojn").as_posix()), rng, 20)
    yield "o2j", "built7k", built_o2j(rng, 7, 18)


def conversions(game):
    if game == "osu":
        yield "OsuToBMS", lambda s: OsuToBMS.convert(s)
        yield "OsuToBMS+1", lambda s: OsuToBMS.convert(s, move_right_by=1)
        yield "OsuToBMS-2", lambda s: OsuToBMS.convert(s, -2)
        yield "OsuToQua", lambda s: OsuToQua.convert(s)
        yield "OsuToSM", lambda s: OsuToSM.convert(s)
    elif game == "qua":
        yield "QuaToBMS", lambda s: QuaToBMS.convert(s)
        yield "QuaToBMS+3", lambda s: QuaToBMS.convert(s, move_right_by=3)
        yield "QuaToOsu", lambda s: QuaToOsu.convert(s)
        yield "QuaToSM", lambda s: QuaToSM.convert(s)
    elif game == "bms":
        yield "BMSToOsu", lambda s: BMSToOsu.convert(s)
        yield "BMSToQua", lambda s: BMSToQua.convert(s)
        yield "BMSToSM", lambda s: BMSToSM.convert(s)
    elif game == "sm":
        yield "SMToBMS", lambda s: SMToBMS.convert(s)
        yield "SMToOsu", lambda s: SMToOsu.convert(s)
        yield "SMToQua", lambda s: SMToQua.convert(s)
    elif game == "o2j":
        yield "O2JToBMS", lambda s: O2JToBMS.convert(s)
        yield "O2JToBMS0", lambda s: O2JToBMS.convert(s, move_right_by=0)
        yield "O2JToBMS+2", lambda s: O2JToBMS.convert(s, 2)
        yield "O2JToOsu", lambda s: O2JToOsu.convert(s)
        yield "O2JToQua", lambda s: O2JToQua.convert(s)
        yield "O2JToSM", lambda s: O2JToSM.convert(s)
        yield "O2JToSM.merge", lambda s: O2JToSM.convert_merge(s)


def part_convert():
    rng = random.Random(4242)
    n_src = 0
    for game, name, original in sources():
        for hist in HISTORIES:
            tag0 = f"convert/{game}/{name}/{hist.__name__}"
            src = attempt(tag0 + "/history", lambda: hist(original, rng))
            if src is None:
                continue
            n_src += 1
            dump_any(tag0 + "/source", src)
            frames_before = [(m, k, tl, tl.df, tl.df.copy(deep=True)) for m in each_map(src) for k, tl in m.objs.items()]
            for cname, fn in conversions(game):
                tag = f"{tag0}/{cname}"
                res = attempt(tag, lambda: fn(src))
                if res is not None:
                    dump_any(tag + "/result", res)
                    # results own their data: writing into them never reaches the source
                    for rm in maps_of(res):
                        for k, tl in rm.objs.items():
                            if len(tl):
                                tl.offset += 3.0
                                if "column" in tl.df.columns:
                                    tl.column = 0
                            for c in tl.df.columns:
                                if tl.df[c].dtype == object:
                                    for v in tl.df[c]:
                                        if isinstance(v, list):
                                            v.append("mutated")
                ok = all(
                    m.objs[k] is tl and tl.df is df and df.equals(copy) and list(df.index) == list(copy.index)
                    and df.dtypes.to_dict() == copy.dtypes.to_dict() and list(df.columns) == list(copy.columns)
                    for m, k, tl, df, copy in frames_before
                )
                out(tag, "source untouched", ok)
            dump_any(tag0 + "/source_after_all", src)
    out("convert", "sources", n_src)


part_empty()
part_cast()
part_convert()
out("lines", N_LINES)
print("DIGEST", H.hexdigest())
