"""Demo for refactoring 2: dominant_bpm (method chain -> named intermediate steps).

Exercises reamber.algorithms.utils.dominant_bpm.dominant_bpm directly and through
its two callers (scroll_speed, sv_normalize) on many generated charts (unsorted
rows, appended rows, reverse sorted, concatenated, ties on offset, repeated bpm
values, bpms after the last note, negative / zero / NaN values, empty lists,
several map classes) and prints one DIGEST line.
"""
import hashlib
import random
import warnings

import pandas as pd

from reamber.algorithms.analysis.scroll_speed import scroll_speed
from reamber.algorithms.generate.sv_normalize import sv_normalize
from reamber.algorithms.utils.dominant_bpm import dominant_bpm
from reamber.base.Map import Map
from reamber.base.lists.BpmList import BpmList
from reamber.base.lists.notes.HitList import HitList
from reamber.base.lists.notes.HoldList import HoldList
from reamber.bms.BMSMap import BMSMap
from reamber.o2jam.O2JMap import O2JMap
from reamber.osu.OsuMap import OsuMap
from reamber.quaver.QuaMap import QuaMap
from reamber.sm.SMMap import SMMap

warnings.simplefilter("ignore")
random.seed(1502)

OUT = []


def emit(*parts):
    OUT.append(" | ".join(str(p) for p in parts))


def cell(v):
    return f"{type(v).__name__}:{v!r}"


def dump_df(tag, df):
    emit(tag, "type", type(df).__name__)
    emit(tag, "columns", list(df.columns))
    emit(tag, "dtypes", [str(t) for t in df.dtypes])
    emit(tag, "index", type(df.index).__name__, [cell(i) for i in df.index])
    for row in df.itertuples(index=False):
        emit(tag, "row", [cell(v) for v in row])


def dump_series(tag, s):
    emit(tag, "type", type(s).__name__, "name", repr(s.name), "dtype", str(s.dtype))
    emit(tag, "index", type(s.index).__name__, repr(s.index.name), str(s.index.dtype),
         [cell(i) for i in s.index])
    emit(tag, "values", [cell(v) for v in s])


def dump_map(tag, m):
    emit(tag, "mapclass", type(m).__name__, "keys", list(m.objs.keys()))
    for k, v in m.objs.items():
        dump_df(f"{tag}.{k}:{type(v).__name__}", v.df)


def dump_result(tag, r):
    if isinstance(r, pd.Series):
        dump_series(tag, r)
    elif isinstance(r, pd.DataFrame):
        dump_df(tag, r)
    elif hasattr(r, "df"):
        emit(tag, "listclass", type(r).__name__)
        dump_df(tag, r.df)
    else:
        emit(tag, "scalar", cell(r))


def make_list(list_cls, rows, mode):
    """Builds a TimedList of list_cls from row dicts, in a row order per mode."""
    rows = list(rows)
    if mode == "sorted":
        rows.sort(key=lambda r: r["offset"])
        return list_cls.from_dict(rows)
    if mode == "shuffled":
        random.shuffle(rows)
        return list_cls.from_dict(rows)
    if mode == "reverse":
        rows.sort(key=lambda r: r["offset"])
        return list_cls.from_dict(rows).sorted(reverse=True)
    if mode == "append":
        # append defaults to sort=False
        random.shuffle(rows)
        half = len(rows) // 2
        return list_cls.from_dict(rows[:half]).append(list_cls.from_dict(rows[half:]))
    if mode == "concat":
        # plain concatenation keeps duplicated row labels
        random.shuffle(rows)
        half = len(rows) // 2
        a = list_cls.from_dict(rows[:half])
        b = list_cls.from_dict(rows[half:])
        return list_cls(pd.concat([a.df, b.df]))
    raise ValueError(mode)


MODES = ["sorted", "shuffled", "reverse", "append", "concat"]
SV_CLASSES = [OsuMap, QuaMap]
MAP_CLASSES = [OsuMap, QuaMap, SMMap, BMSMap, O2JMap]


def make_map(map_cls, hits, holds, bpms, svs, mode):
    m = map_cls()
    m.hits = make_list(type(m.hits), hits, mode)
    m.holds = make_list(type(m.holds), holds, mode)
    m.bpms = make_list(type(m.bpms), bpms, mode)
    if hasattr(m, "svs"):
        m.svs = make_list(type(m.svs), svs, mode)
    return m


def gen_chart(n_bpm, n_hits, n_holds, n_sv, ties, bpm_pool, late_bpm, neg):
    lo = -4 if neg else 0
    grid = [i * 250.0 for i in range(lo, 40)]

    def off():
        return random.choice(grid) if ties else round(random.uniform(lo * 250, 10000), 3)

    bpms = [dict(offset=off(), bpm=random.choice(bpm_pool)) for _ in range(n_bpm)]
    if late_bpm and bpms:
        # a bpm after the last object gives a negative duration
        bpms.append(dict(offset=20000.0, bpm=random.choice(bpm_pool)))
    hits = [dict(offset=off(), column=random.randrange(4)) for _ in range(n_hits)]
    holds = [
        dict(offset=off(), column=random.randrange(4),
             length=random.choice([0.0, 10.0, 500.0]))
        for _ in range(n_holds)
    ]
    svs = [
        dict(offset=off(), multiplier=random.choice([0.5, 1.0, 2.0, 0.0, -1.0]))
        for _ in range(n_sv)
    ]
    return hits, holds, bpms, svs


def run(tag, m):
    emit("CASE", tag)
    before = m.deepcopy()
    calls = [("dominant_bpm", lambda: dominant_bpm(m))]
    calls.append(("scroll_speed", lambda: scroll_speed(m)))
    calls.append(("scroll_speed_override", lambda: scroll_speed(m, override_bpm=150)))
    calls.append(("scroll_speed_override0", lambda: scroll_speed(m, override_bpm=0)))
    if hasattr(m, "svs"):
        calls.append(("sv_normalize", lambda: sv_normalize(m)))
        calls.append(("sv_normalize_override0", lambda: sv_normalize(m, override_bpm=0.0)))
    for name, f in calls:
        try:
            r = f()
        except Exception as e:  # noqa
            emit(tag, name, "EXC", type(e).__name__)
        else:
            dump_result(f"{tag}.{name}", r)
    # The map must be left as it was
    dump_map(tag + ".in_after", m)
    same = all(
        before.objs[k].df.equals(m.objs[k].df)
        and list(before.objs[k].df.index) == list(m.objs[k].df.index)
        for k in m.objs
    )
    emit(tag, "input_unchanged", same)


BPM_POOLS = [
    [120.0, 180.0, 240.0],
    [100.0, 100.0, 200.0],
    [60.0, 0.0, -120.0, 300.0],
    [150.0],
    [0.001, 1e6, 174.5],
]

case = 0
# Random charts
for map_cls in MAP_CLASSES:
    for mode in MODES:
        for rep in range(3):
            chart = gen_chart(
                n_bpm=random.choice([1, 2, 3, 6, 12]),
                n_hits=random.choice([0, 1, 5, 15]),
                n_holds=random.choice([0, 1, 5]),
                n_sv=random.choice([0, 1, 4, 10]),
                ties=random.random() < 0.6,
                bpm_pool=random.choice(BPM_POOLS),
                late_bpm=random.random() < 0.3,
                neg=random.random() < 0.4,
            )
            case += 1
            run(f"r{case}.{map_cls.__name__}.{mode}", make_map(map_cls, *chart, mode))

# The very same chart in every row order, for every map class
for pool in BPM_POOLS[:3]:
    chart = gen_chart(8, 12, 4, 6, True, pool, False, True)
    for map_cls in SV_CLASSES + [SMMap]:
        for mode in MODES:
            case += 1
            run(f"p{case}.{map_cls.__name__}.{mode}", make_map(map_cls, *chart, mode))

H = [dict(offset=0.0, column=0), dict(offset=4000.0, column=1)]
edge = [
    ("no_bpm", H, [], [], []),
    ("no_notes", [], [], [dict(offset=0.0, bpm=120.0), dict(offset=1000.0, bpm=240.0)], []),
    ("all_empty", [], [], [], []),
    ("one_bpm", H, [], [dict(offset=0.0, bpm=133.0)], []),
    ("one_bpm_after_notes", H, [], [dict(offset=9000.0, bpm=133.0)], []),
    ("one_bpm_on_last_note", H, [], [dict(offset=4000.0, bpm=133.0)], []),
    ("tie_offsets", H, [],
     [dict(offset=0.0, bpm=100.0), dict(offset=0.0, bpm=200.0), dict(offset=0.0, bpm=300.0)],
     []),
    ("equal_durations", H, [],
     [dict(offset=0.0, bpm=200.0), dict(offset=2000.0, bpm=100.0)], []),
    ("equal_durations_swapped", H, [],
     [dict(offset=0.0, bpm=100.0), dict(offset=2000.0, bpm=200.0)], []),
    ("repeated_bpm_sums", H, [],
     [dict(offset=0.0, bpm=100.0), dict(offset=1500.0, bpm=200.0),
      dict(offset=3000.0, bpm=100.0), dict(offset=3500.0, bpm=200.0)], []),
    ("nan_bpm", H, [],
     [dict(offset=0.0, bpm=float("nan")), dict(offset=1000.0, bpm=120.0)], []),
    ("nan_offset", H, [],
     [dict(offset=float("nan"), bpm=100.0), dict(offset=1000.0, bpm=120.0)], []),
    ("all_negative_durations", H, [],
     [dict(offset=9000.0, bpm=100.0), dict(offset=8000.0, bpm=120.0)], []),
    ("hold_tail_not_counted", [], [dict(offset=0.0, column=0, length=9000.0)],
     [dict(offset=0.0, bpm=100.0), dict(offset=10.0, bpm=120.0)], []),
    ("sv_only_after", H, [],
     [dict(offset=0.0, bpm=100.0)], [dict(offset=99999.0, multiplier=2.0)]),
    ("int_like", [dict(offset=0, column=0), dict(offset=3000, column=1)], [],
     [dict(offset=0, bpm=100), dict(offset=1000, bpm=200)], []),
]
for name, hits, holds, bpms, svs in edge:
    for map_cls in [OsuMap, QuaMap, SMMap]:
        for mode in ["sorted", "shuffled", "reverse", "concat"]:
            case += 1
            run(f"e{case}.{name}.{map_cls.__name__}.{mode}",
                make_map(map_cls, hits, holds, bpms, svs, mode))

# Base Map with the base lists
m = Map()
m.objs = dict(
    hits=HitList.from_dict([dict(offset=5000.0, column=1), dict(offset=0.0, column=1)]),
    holds=HoldList([]),
    bpms=BpmList.from_dict([dict(offset=3000.0, bpm=90.0), dict(offset=0.0, bpm=180.0)]),
)
run("base_map", m)

text = "\n".join(OUT)
print("DIGEST", hashlib.sha256(text.encode("utf8")).hexdigest())
