"""Demo for the dominant_bpm refactoring: prints one DIGEST line.

Run:  cd /tmp/wt7/C15 && PYTHONPATH=/tmp/wt7/C15 /venv/bin/python demo.py
"""
import hashlib
import random
import sys
import warnings

import numpy as np
import pandas as pd

from reamber.algorithms.analysis.scroll_speed import scroll_speed
from reamber.algorithms.generate.sv_normalize import sv_normalize
from reamber.algorithms.utils import dominant_bpm
from reamber.base.Bpm import Bpm
from reamber.base.Hit import Hit
from reamber.base.Hold import Hold
from reamber.base.Map import Map
from reamber.base.lists.BpmList import BpmList
from reamber.base.lists.notes.HitList import HitList
from reamber.base.lists.notes.HoldList import HoldList
from reamber.osu import OsuMap, OsuBpm, OsuHit, OsuHold, OsuSv
from reamber.osu.lists import OsuBpmList, OsuSvList
from reamber.osu.lists.notes import OsuHitList, OsuHoldList
from reamber.quaver import QuaMap, QuaBpm, QuaHit, QuaHold, QuaSv
from reamber.quaver.lists import QuaBpmList, QuaSvList
from reamber.quaver.lists.notes import QuaHitList, QuaHoldList
from reamber.sm import SMMap, SMBpm, SMHit, SMHold
from reamber.sm.lists import SMBpmList
from reamber.sm.lists.notes import SMHitList, SMHoldList

warnings.simplefilter("ignore")
random.seed(150115)

OUT = []


def emit(*parts):
    OUT.append(" | ".join(str(p) for p in parts))


def dump_scalar(v):
    return f"{type(v).__module__}.{type(v).__name__}:{v!r}"


def dump_series(s: pd.Series):
    return (
        f"Series(name={s.name!r}, dtype={s.dtype}, index_dtype={s.index.dtype}, "
        f"index_name={s.index.name!r}, index={s.index.tolist()!r}, values={s.tolist()!r})"
    )


def dump_df(df: pd.DataFrame):
    cols = [
        f"{c!r}:{df[c].dtype}:{df[c].tolist()!r}" for c in df.columns
    ]
    return f"DF(index={df.index.tolist()!r}, index_dtype={df.index.dtype}, cols=[{'; '.join(cols)}])"


def dump_map(m):
    return " ## ".join(f"{k}={dump_df(v.df)}" for k, v in m.objs.items())


def dump_result(r):
    if isinstance(r, pd.Series):
        return dump_series(r)
    if isinstance(r, pd.DataFrame):
        return dump_df(r)
    if hasattr(r, "df"):
        return f"{type(r).__name__}:{dump_df(r.df)}"
    return dump_scalar(r)


def attempt(tag, fn, m):
    before = dump_map(m)
    try:
        res = dump_result(fn(m))
    except Exception as e:  # noqa
        res = f"RAISED {type(e).__name__}"
    after = dump_map(m)
    emit(tag, res, "INPUT_UNCHANGED" if before == after else "INPUT_CHANGED", after)


KINDS = {
    "osu": (OsuMap, OsuBpm, OsuBpmList, OsuHit, OsuHitList, OsuHold, OsuHoldList, OsuSv, OsuSvList),
    "qua": (QuaMap, QuaBpm, QuaBpmList, QuaHit, QuaHitList, QuaHold, QuaHoldList, QuaSv, QuaSvList),
    "sm": (SMMap, SMBpm, SMBpmList, SMHit, SMHitList, SMHold, SMHoldList, None, None),
    "base": (Map, Bpm, BpmList, Hit, HitList, Hold, HoldList, None, None),
}

BPM_POOL = [60.0, 90.0, 100.0, 120.0, 120.0, 150.0, 174.5, 180.0, 200.0, 240.0, 0.0, -120.0, 1e-3, 300]
GRID = [-2000.0, -500.0, -0.0, 0.0, 0.1, 0.2, 0.3, 250.0, 500.0, 1000.0, 1500.0, 2000.0, 3000.0, 4000.0, 1e6]


def rand_offsets(n, ties):
    if ties:
        return [random.choice(GRID) for _ in range(n)]
    return [round(random.uniform(-3000, 9000), random.choice([0, 1, 3])) for _ in range(n)]


def permute(items, mode):
    items = list(items)
    if mode == "sorted":
        items.sort(key=lambda x: x.offset)
    elif mode == "reverse":
        items.sort(key=lambda x: x.offset, reverse=True)
    elif mode == "shuffle":
        random.shuffle(items)
    elif mode == "concat":
        items.sort(key=lambda x: x.offset)
        h = len(items) // 2
        items = items[h:] + items[:h]
    return items


def build(kind, n_bpm, n_hit, n_hold, n_sv, ties, mode):
    M, B, BL, H, HL, Ho, HoL, S, SL = KINDS[kind]
    m = M()
    bpms = [B(o, random.choice(BPM_POOL)) for o in rand_offsets(n_bpm, ties)]
    extra = dict(keysounds=[]) if kind == "qua" else {}
    hits = [H(o, random.randrange(0, 7), **extra) for o in rand_offsets(n_hit, ties)]
    holds = [
        Ho(o, random.randrange(0, 7), random.choice([0.0, 1.0, 100.0, 750.5, 5000.0]), **extra)
        for o in rand_offsets(n_hold, ties)
    ]
    m.bpms = BL(permute(bpms, mode))
    m.hits = HL(permute(hits, mode))
    m.holds = HoL(permute(holds, mode))
    if S is not None:
        svs = [S(o, random.choice([0.5, 1.0, 2.0, -1.0, 0.0, 10.0])) for o in rand_offsets(n_sv, ties)]
        m.svs = SL(permute(svs, mode))
    return m


def run_all(tag, m):
    attempt(tag + " dominant_bpm", dominant_bpm, m)
    attempt(tag + " scroll_speed", scroll_speed, m)
    if isinstance(m, (OsuMap, QuaMap)):
        attempt(tag + " sv_normalize", sv_normalize, m)


# ---------------------------------------------------------------- generated
case = 0
for kind in KINDS:
    for mode in ("sorted", "reverse", "shuffle", "concat"):
        for ties in (False, True):
            for n_bpm in (0, 1, 2, 3, 5, 9, 24):
                n_hit = random.choice([0, 0, 1, 2, 5, 20])
                n_hold = random.choice([0, 0, 1, 3, 8])
                n_sv = random.choice([0, 1, 4])
                m = build(kind, n_bpm, n_hit, n_hold, n_sv, ties, mode)
                case += 1
                run_all(f"G{case} {kind} {mode} ties={ties} nb={n_bpm}", m)

# ---------------------------------------------------------------- hand-made edge cases
# Exact tie of the cumulative times (first = smallest bpm wins), in every row order
tie_rows = [(0, 200.0), (1000, 100.0), (2000, 300.0)]
for i, perm in enumerate([[0, 1, 2], [2, 1, 0], [1, 2, 0], [2, 0, 1]]):
    m = OsuMap()
    m.bpms = OsuBpmList([OsuBpm(*tie_rows[j]) for j in perm])
    m.hits = OsuHitList([OsuHit(3000, 0), OsuHit(-50, 1)])
    run_all(f"E-tie{i}", m)

# Near ties: 0.1 + 0.2 against 0.3 (summation must be the same)
for i, perm in enumerate([[0, 1, 2, 3], [3, 2, 1, 0], [2, 0, 3, 1]]):
    rows = [(0.0, 100.0), (0.1, 200.0), (0.4, 100.0), (0.6, 200.0)]
    m = QuaMap()
    m.bpms = QuaBpmList([QuaBpm(*rows[j]) for j in perm])
    m.hits = QuaHitList([QuaHit(0.6 + 0.3, 0, [])])
    run_all(f"E-near{i}", m)

# Many small pieces summing to almost the same total
for seed in range(4):
    rnd = random.Random(seed)
    offs = [0.0]
    for _ in range(40):
        offs.append(offs[-1] + rnd.choice([0.1, 0.2, 0.3, 0.7]))
    rows = [(o, [100.0, 200.0, 300.0][k % 3]) for k, o in enumerate(offs)]
    rnd.shuffle(rows)
    m = OsuMap()
    m.bpms = OsuBpmList([OsuBpm(*r) for r in rows])
    m.hits = OsuHitList([OsuHit(offs[-1] + 0.1, 0)])
    run_all(f"E-small{seed}", m)

# The same bpm value at several places; duplicated rows; all bpm on one offset
m = OsuMap()
m.bpms = OsuBpmList([OsuBpm(500, 120), OsuBpm(0, 120), OsuBpm(500, 120), OsuBpm(250, 180), OsuBpm(250, 180)])
m.hits = OsuHitList([OsuHit(900, 0)])
run_all("E-dups", m)

m = OsuMap()
m.bpms = OsuBpmList([OsuBpm(100, 150), OsuBpm(100, 120), OsuBpm(100, 180)])
run_all("E-same-offset-no-notes", m)
m.hits = OsuHitList([OsuHit(100, 0)])
run_all("E-same-offset-note-on-it", m)
m.hits = OsuHitList([OsuHit(50, 0)])
run_all("E-same-offset-note-before", m)

# No notes at all / nothing at all / notes only before the first bpm
m = OsuMap()
run_all("E-empty-map", m)
m = SMMap()
run_all("E-empty-sm", m)
m = OsuMap()
m.hits = OsuHitList([OsuHit(10, 0), OsuHit(5, 1)])
run_all("E-no-bpm", m)
m = OsuMap()
m.bpms = OsuBpmList([OsuBpm(1000, 100), OsuBpm(0, 200)])
run_all("E-bpms-only", m)
m.hits = OsuHitList([OsuHit(-1000, 0)])
run_all("E-notes-before", m)
m = OsuMap()
m.bpms = OsuBpmList([OsuBpm(0, 100)])
run_all("E-single-bpm-alone", m)

# Hold whose head is the last object (tail is not an offset)
m = OsuMap()
m.bpms = OsuBpmList([OsuBpm(2000, 100), OsuBpm(0, 200)])
m.holds = OsuHoldList([OsuHold(2500, 0, 100000)])
run_all("E-hold-last", m)

# Integer-typed frames, non-default row labels, extra frame order
df = pd.DataFrame({"offset": [3000, 0, 1000, 1000], "bpm": [100, 200, 300, 200], "metronome": [4, 4, 4, 4]},
                  index=[7, 3, 3, 11])
m = Map()
m.bpms = BpmList(df)
m.hits = HitList(pd.DataFrame({"offset": [4000, -10], "column": [1, 0]}, index=[5, 5]))
attempt("E-int-frames dominant_bpm", dominant_bpm, m)
attempt("E-int-frames scroll_speed", scroll_speed, m)

df = pd.DataFrame({"bpm": [100.0, 200.0, np.nan, 200.0], "offset": [0.0, 10.0, 20.0, 45.0], "metronome": 4.0})
m = Map()
m.bpms = BpmList(df)
m.hits = HitList([Hit(50, 0)])
attempt("E-nan-bpm dominant_bpm", dominant_bpm, m)

df = pd.DataFrame({"offset": [0.0, np.nan, 20.0], "bpm": [100.0, 200.0, 300.0], "metronome": 4.0})
m = Map()
m.bpms = BpmList(df)
m.hits = HitList([Hit(50, 0)])
attempt("E-nan-offset dominant_bpm", dominant_bpm, m)

df = pd.DataFrame({"offset": [0.0, np.inf, np.inf], "bpm": [100.0, 200.0, 300.0], "metronome": 4.0})
m = Map()
m.bpms = BpmList(df)
m.hits = HitList([Hit(50, 0)])
attempt("E-inf-offset dominant_bpm", dominant_bpm, m)

df = pd.DataFrame({"offset": [0.0, 5.0], "bpm": [np.nan, np.nan], "metronome": 4.0})
m = Map()
m.bpms = BpmList(df)
m.hits = HitList([Hit(50, 0)])
attempt("E-all-nan-bpm dominant_bpm", dominant_bpm, m)

# override_bpm never looks at dominant_bpm, but keep it in the dump
m = build("osu", 4, 5, 2, 3, True, "shuffle")
attempt("E-override scroll_speed", lambda x: scroll_speed(x, override_bpm=123.0), m)
attempt("E-override sv_normalize", lambda x: sv_normalize(x, override_bpm=123.0), m)

text = "\n".join(OUT)
if len(sys.argv) > 1:  # optional: write the canonical dump for inspection
    with open(sys.argv[1], "w") as f:
        f.write(text)
print("DIGEST", hashlib.sha256(text.encode("utf-8")).hexdigest())
