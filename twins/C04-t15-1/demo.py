"""Demonstration for property C04 (BMS reading).

Drives BMSMap.read / BMSMap.read_file (public API) on generated BMS texts and
prints ONE sha256 digest over: results (values + dtypes), header tables,
exception types, captured log records, and the state of the inputs afterwards.

Run as:  cd <worktree> && PYTHONPATH=<worktree> /venv/bin/python demo.py
"""
import copy
import hashlib
import logging
import os
import random
import sys
import tempfile
import warnings

import reamber
from reamber.bms.BMSChannel import BMSChannel
from reamber.bms.BMSMap import BMSMap

print(reamber.__file__, file=sys.stderr)

warnings.simplefilter("ignore")

LAYOUTS = {
    "BMS": BMSChannel.BMS,
    "BME": BMSChannel.BME,
    "PMS": BMSChannel.PMS,
    "PMS_BME": BMSChannel.PMS_BME,
    "PMS_5B": BMSChannel.PMS_5B,
}
LAYOUTS_BEFORE = copy.deepcopy(LAYOUTS)

B36 = "0123456789ABCDEFGHIJKLMNOPQRSTUVWXYZ"


class Capture(logging.Handler):
    def __init__(self):
        super().__init__(level=logging.DEBUG)
        self.records = []

    def emit(self, record):
        self.records.append(f"{record.name}|{record.levelname}|{record.getMessage()}")


capture = Capture()
root = logging.getLogger()
for h in list(root.handlers):
    root.removeHandler(h)
root.addHandler(capture)
root.setLevel(logging.DEBUG)
logging.getLogger("reamber.bms.BMSMap").setLevel(logging.DEBUG)


def b36(rng, lo=1, hi=36 * 36 - 1):
    n = rng.randint(lo, hi)
    return B36[n // 36] + B36[n % 36]


def note_channels(layout):
    return [k.decode() for k, v in layout.items() if isinstance(v, int)]


def gen_chart(rng, layout, *, lnobj=True, shuffle=True, decorate=True):
    """A BMS text within the quantifier: 4/4 only, LNOBJ long notes, 03/08
    tempo changes at arbitrary subdivisions, repeated measure/channel lines."""
    chans = note_channels(layout)
    wav_ids = sorted({b36(rng) for _ in range(rng.randint(1, 8))})
    ln_id = "ZZ"
    while ln_id in wav_ids:
        ln_id = b36(rng)
    ex_ids = sorted({b36(rng) for _ in range(rng.randint(0, 4))})

    header = [
        f"#TITLE {rng.choice(['Song', 'A  B', 'タイトル', 'x #y: z', ''])}".rstrip()
        if rng.random() < 0.9
        else "#TITLE",
        f"#ARTIST {rng.choice(['me', 'あ い', 'a b c'])}",
        f"#PLAYLEVEL {rng.randint(1, 12)}",
        f"#BPM {rng.choice(['120', '133.5', '90', '200.25', '60'])}",
        f"#GENRE {rng.choice(['g', 'g h'])}",
        "#PLAYER 1",
    ]
    if lnobj:
        header.append(f"#LNOBJ {ln_id}")
    for i in wav_ids:
        key = rng.choice(["#WAV", "#wav", "#Wav"]) + i
        header.append(f"{key} {rng.choice(['kick', 's n', 'ド'])}{i}.wav")
    if rng.random() < 0.3:
        header.append("#WAV001 long_id.wav")  # odd key length -> k[-2:]
    if rng.random() < 0.3:
        header.append("#WAVE odd.wav")
    for i in ex_ids:
        key = rng.choice(["#BPM", "#bpm"]) + i
        header.append(f"{key} {rng.choice(['77.7', '150', '1e2', '240.125'])}")
    if rng.random() < 0.3:
        header.append("#BPMXYZ 99")  # len 6: not an exbpm, stays in misc
    if rng.random() < 0.3:
        header.append("#BPM 150")  # duplicate header: last one wins
    if rng.random() < 0.3:
        header.append("#STAGEFILE")  # unfilled header: ignored
    if rng.random() < 0.3:
        header.append("#00199 strange")  # digit start but has a space: header

    body = []
    n_measures = rng.randint(0, 6)
    base = rng.choice([0, 0, 1, 5, 998 - n_measures])
    # note lines, lane by lane so that LN tails always have a head
    for ch in rng.sample(chans, rng.randint(0, len(chans))):
        pending_head = False
        for m in range(base, base + n_measures):
            for _rep in range(rng.choice([1, 1, 2])):
                div = rng.choice([1, 2, 3, 4, 5, 7, 8, 12, 16])
                pairs = []
                for _ in range(div):
                    r = rng.random()
                    if r < 0.55:
                        pairs.append("00")
                    elif lnobj and pending_head and r < 0.75:
                        pairs.append(ln_id)
                        pending_head = False
                    else:
                        # sometimes an id without #WAV -> sample b""
                        pairs.append(
                            rng.choice(wav_ids) if rng.random() < 0.85 else "zz"
                        )
                        pending_head = True
                seq = "".join(pairs)
                if rng.random() < 0.05:
                    seq += "0"  # odd-length tail -> pair b"0" skipped
                body.append(f"#{m:03}{ch}:{seq}")
                if _rep == 0 and rng.random() < 0.5:
                    # a 2nd line for this lane may re-use earlier positions:
                    # the per-lane stack order then matters, so stop LN pairing
                    pending_head = False
    # tempo changes
    for m in range(base, base + n_measures):
        if rng.random() < 0.5:
            div = rng.choice([1, 2, 3, 4, 6, 8])
            seq = "".join(
                rng.choice(["00", "00", f"{rng.randint(1, 255):02X}"])
                for _ in range(div)
            )
            body.append(f"#{m:03}03:{seq}")
        if ex_ids and rng.random() < 0.5:
            div = rng.choice([1, 2, 4, 5, 16])
            seq = "".join(rng.choice(["00", "00", rng.choice(ex_ids)]) for _ in range(div))
            body.append(f"#{m:03}08:{seq}")
    # channels no layout knows: ignored
    if rng.random() < 0.5:
        body.append(f"#{base:03}01:0101")
        body.append(f"#{base:03}04:AA")

    lines = header + body
    if shuffle:
        # headers first matters for nothing but keep LN pairing order per lane:
        # shuffle headers among themselves and interleave tempo/other lines
        rng.shuffle(header)
        tempo = [l for l in body if l[4:6] in ("03", "08", "01", "04")]
        notes = [l for l in body if l not in tempo]
        merged = []
        ti = iter(rng.sample(tempo, len(tempo)))
        for l in notes:
            if rng.random() < 0.3:
                merged.extend([x for _, x in zip(range(1), ti)])
            merged.append(l)
        merged.extend(ti)
        lines = []
        hi = iter(header)
        # interleave header lines anywhere
        slots = sorted(rng.randint(0, len(merged)) for _ in header)
        pos = 0
        for s in slots:
            lines.extend(merged[pos:s])
            pos = s
            lines.append(next(hi))
        lines.extend(merged[pos:])
    if decorate:
        out = []
        for l in lines:
            r = rng.random()
            if r < 0.1:
                l = "  " + l + " \t"
            elif r < 0.2:
                l = l + "\r\n"
            elif r < 0.25:
                l = "　" + l
            out.append(l)
            if rng.random() < 0.08:
                out.append(rng.choice(["", "*---- HEADER", "; comment", "   ", "%URL x"]))
        lines = out
    return lines


def edge_cases():
    """Hand-written unusual inputs (several outside the quantifier, they must
    fail or succeed the same way)."""
    H = ["#BPM 120", "#LNOBJ ZZ", "#WAV01 a.wav", "#WAV02 b.wav", "#BPM0A 33.25"]
    return [
        ("empty", []),
        ("only_blank", ["", "  ", "\n"]),
        ("no_bpm", ["#TITLE x", "#00111:01"]),
        ("bad_bpm", ["#BPM abc"]),
        ("bad_exbpm", ["#BPM 120", "#BPM01 x", "#WAV01 y"]),
        ("bad_exbpm_and_no_bpm", ["#BPM01 x", "#WAV01 y"]),
        ("header_only", H),
        ("lone_hash", H + ["#"]),
        ("lone_hash_first", ["#", "#BPM 120"]),
        ("hash_space", H + ["# "]),
        ("hash_x", H + ["#x"]),
        ("two_colons", H + ["#00111:01:02"]),
        ("no_colon", H + ["#00111"]),
        ("no_colon_then_unencodable", H + ["#00111", "#TITLE ☃\U0001F600"]),
        ("unencodable_then_no_colon", H + ["#TITLE ☃\U0001F600", "#00111"]),
        ("unencodable_no_hash", H + ["\U0001F600 not a command", "#00111:01"]),
        ("non_str_line", H + [None]),
        ("bytes_line", H + [b"#00111:01"]),
        ("tuple_input", tuple(H + ["#00111:0102"])),
        ("ln_tail_unmatched", H + ["#00111:ZZ"]),
        ("ln_tail_other_lane", H + ["#00111:01", "#00112:ZZ"]),
        ("ln_zero_length", H + ["#00111:01", "#00111:ZZ"]),
        ("ln_across_lines", H + ["#00211:00ZZ", "#00111:0100"]),
        ("ln_across_lines_rev", H + ["#00111:0100", "#00211:00ZZ"]),
        ("lnobj_is_wav", ["#BPM 100", "#LNOBJ 01", "#WAV01 t.wav", "#00111:0201"]),
        ("lnobj_lower", ["#BPM 100", "#lnobj 01", "#00111:0201"]),
        ("no_lnobj", ["#BPM 100", "#00111:02ZZ", "#WAVZZ z.wav"]),
        ("undefined_exbpm", H + ["#00108:0B"]),
        ("exbpm_case", ["#BPM 100", "#bpm0a 50", "#00108:0A", "#00111:0101"]),
        ("exbpm_case_ok", ["#BPM 100", "#bpm0a 50", "#00108:0a", "#00111:0101"]),
        ("bpm_at_0_0", H + ["#00003:3C", "#00111:01010101", "#00011:0002"]),
        ("bpm_mid", H + ["#00003:0000F0", "#00108:000A", "#00211:01", "#00011:0102"]),
        ("bad_hex_bpm", H + ["#00103:GG"]),
        ("time_sig", H + ["#00102:0.75", "#00111:0101", "#00211:01"]),
        ("time_sig_after", H + ["#00111:0101", "#00102:0.75", "#00211:01"]),
        ("bad_measure", H + ["#0x111:01"]),
        ("short_cmd", H + ["#0:01", "#01:01", "#0011:01"]),
        ("empty_seq", H + ["#00111:", "#00103:"]),
        ("odd_seq", H + ["#00111:010", "#00112:0"]),
        ("dup_headers", ["#BPM 100", "#TITLE a", "#BPM 200", "#TITLE b", "#title c"]),
        ("double_space", ["#BPM  100", "#TITLE  a  b ", "#ARTIST\tx", "#GENRE 　g"]),
        ("wav_oddkeys", ["#BPM 100", "#WAV x", "#WAVE y", "#WAV0001 z", "#WA v", "#00111:AV01VE"]),
        ("bpm_keys", ["#BPM 100", "#BPMAB 1", "#BPMABC 2", "#BPMA 3", "#bpmcd 4", "#BPMS! 5", "#00108:ABcdS!"]),
        ("wav_before_bpm_err", ["#WAV01 a", "#BPM01 x", "#BPM zz"]),
        ("misc_order", ["#Z 1", "#WAV01 a", "#A 2", "#BPM01 3", "#BPM 4", "#M 5", "#ARTIST q", "#PLAYLEVEL 3", "#LNOBJ 0Z"]),
        ("kanji", ["#BPM 100", "#TITLE 漢字 かな", "#ARTIST ｱｲｳ", "#WAV01 音.wav", "#00111:01"]),
        ("unknown_channel", H + ["#00199:0101", "#001ZZ:01"]),
        ("measure_999", H + ["#99911:01", "#99903:0080"]),
    ]


def canon_list(lst):
    df = lst.df
    rows = [
        "|".join(f"{type(v).__name__}:{v!r}" for v in row)
        for row in df.itertuples(index=True, name=None)
    ]
    return (
        f"{type(lst).__name__} cols={list(df.columns)!r} "
        f"dtypes={[str(t) for t in df.dtypes]!r} index={df.index.dtype}"
        f"{list(df.index)!r}\n" + "\n".join(rows)
    )


def canon_map(m):
    out = [type(m).__name__]
    for name in ("title", "artist", "version", "ln_end_channel"):
        v = getattr(m, name)
        out.append(f"{name}={type(v).__name__}:{v!r}")
    for name in ("exbpms", "samples", "misc"):
        v = getattr(m, name)
        out.append(
            f"{name}={type(v).__name__}:"
            + repr([(type(k).__name__, k, type(x).__name__, x) for k, x in v.items()])
        )
    out.append(f"objs={list(m.objs.keys())!r}")
    out.append(canon_list(m.hits))
    out.append(canon_list(m.holds))
    out.append(canon_list(m.bpms))
    return "\n".join(out)


def run_case(tag, lines, layout_name, via_file=False, default_cfg=False):
    layout = LAYOUTS[layout_name]
    lines_before = copy.deepcopy(lines)
    capture.records.clear()
    text = [f"== {tag} layout={layout_name} file={via_file} default={default_cfg}"]
    try:
        if via_file:
            fd, path = tempfile.mkstemp(suffix=".bms")
            try:
                with os.fdopen(fd, "wb") as f:
                    f.write("\n".join(lines).encode("shift_jis"))
                if default_cfg:
                    m = BMSMap.read_file(path)
                else:
                    m = BMSMap.read_file(path, note_channel_config=layout)
            finally:
                os.unlink(path)
        elif default_cfg:
            m = BMSMap.read(lines)
        else:
            m = BMSMap.read(lines, layout)
        text.append(canon_map(m))
    except BaseException as e:  # noqa
        text.append(f"EXC {type(e).__name__}")
    text.append(f"inputs_same={lines == lines_before} type={type(lines).__name__}")
    text.append(f"inputs={lines!r}")
    text.append(f"layout_same={LAYOUTS == LAYOUTS_BEFORE}")
    text.append("log=" + repr(capture.records))
    return "\n".join(text)


def main():
    rng = random.Random(20251504)
    chunks = []
    n = 0
    # generated charts: every layout, several options
    for rep in range(12):
        for layout_name in LAYOUTS:
            lines = gen_chart(
                rng,
                LAYOUTS[layout_name],
                lnobj=rng.random() < 0.8,
                shuffle=rng.random() < 0.7,
                decorate=rng.random() < 0.7,
            )
            via_file = rep % 4 == 3
            if via_file:
                # a file cannot hold embedded newlines inside a line
                lines = [l.replace("\r\n", "") for l in lines]
            chunks.append(
                run_case(f"gen{rep}", lines, layout_name, via_file=via_file,
                         default_cfg=(rep % 6 == 5 and layout_name == "BME"))
            )
            n += 1
    # same text read with every layout (lanes land in other columns / ignored)
    lines = gen_chart(rng, BMSChannel.PMS_BME)
    for layout_name in LAYOUTS:
        chunks.append(run_case("cross", lines, layout_name))
        n += 1
    # edge cases
    for i, (tag, lines) in enumerate(edge_cases()):
        layout_name = list(LAYOUTS)[i % len(LAYOUTS)]
        chunks.append(run_case(tag, lines, layout_name))
        chunks.append(run_case(tag, lines, "BME", default_cfg=True))
        n += 2
    # independence of successive reads (no state shared between maps)
    a = BMSMap.read(["#BPM 100", "#WAV01 a", "#BPM01 5", "#X 1"])
    b = BMSMap.read(["#BPM 200", "#WAV02 b", "#BPM02 6", "#Y 2"])
    chunks.append("== indep\n" + canon_map(a) + "\n" + canon_map(b))
    chunks.append(f"class_defaults={BMSMap.__dataclass_fields__['ln_end_channel'].default!r}")

    text = "\n".join(chunks)
    n_exc = text.count("\nEXC ")
    print(f"cases={n} exceptions={n_exc} chars={len(text)}", file=sys.stderr)
    if os.environ.get("DEMO_DUMP"):
        with open(os.environ["DEMO_DUMP"], "w", encoding="utf-8", errors="backslashreplace") as f:
            f.write(text)
    print(hashlib.sha256(text.encode("utf-8", "backslashreplace")).hexdigest())


if __name__ == "__main__":
    main()
