"""Digest of BMS reading (property C04) over a broad, deterministic input set.

Run:  cd /tmp/wt7/C04 && PYTHONPATH=/tmp/wt7/C04 /venv/bin/python demo.py
Prints one line `DIGEST <sha256>`.
"""
import copy
import hashlib
import logging
import os
import random
import warnings
from fractions import Fraction
from pathlib import Path

import numpy as np

warnings.filterwarnings("ignore")


# --------------------------------------------------------------------------
# log capture (debug lines of the reader and the reseat warning are observable)
# --------------------------------------------------------------------------
class _Capture(logging.Handler):
    def __init__(self):
        super().__init__(level=logging.DEBUG)
        self.records = []

    def emit(self, record):
        self.records.append(f"{record.name}|{record.levelname}|{record.getMessage()}")


CAPTURE = _Capture()
root = logging.getLogger()
for h in list(root.handlers):
    root.removeHandler(h)
root.addHandler(CAPTURE)
root.setLevel(logging.DEBUG)

from reamber.bms.BMSMap import BMSMap  # noqa: E402
from reamber.bms.BMSChannel import BMSChannel  # noqa: E402
from reamber.algorithms.timing.TimingMap import TimingMap  # noqa: E402
from reamber.algorithms.timing.utils.BpmChangeSnap import BpmChangeSnap  # noqa: E402
from reamber.algorithms.timing.utils.snap import Snap  # noqa: E402

OUT = []


def emit(*parts):
    OUT.append(" ".join(str(p) for p in parts))


def cell(v):
    return f"{type(v).__module__}.{type(v).__name__}:{v!r}"


def dump_df(tag, df):
    emit(tag, "columns", list(df.columns))
    emit(tag, "dtypes", [str(t) for t in df.dtypes])
    emit(tag, "index", type(df.index).__name__, list(df.index))
    for i, row in enumerate(df.itertuples(index=False)):
        emit(tag, "row", i, [cell(v) for v in row])


def dump_map(tag, m):
    emit(tag, "type", type(m).__name__)
    for name in ("title", "artist", "version", "ln_end_channel"):
        emit(tag, name, cell(getattr(m, name)))
    emit(tag, "exbpms", [(cell(k), cell(v)) for k, v in m.exbpms.items()])
    emit(tag, "samples", [(cell(k), cell(v)) for k, v in m.samples.items()])
    emit(tag, "misc", [(cell(k), cell(v)) for k, v in m.misc.items()])
    emit(tag, "objs", list(m.objs.keys()), [type(v).__name__ for v in m.objs.values()])
    dump_df(tag + ".hits", m.hits.df)
    dump_df(tag + ".holds", m.holds.df)
    dump_df(tag + ".bpms", m.bpms.df)


LAYOUTS = {
    "BMS": BMSChannel.BMS,
    "BME": BMSChannel.BME,
    "PMS": BMSChannel.PMS,
    "PMS_BME": BMSChannel.PMS_BME,
    "PMS_5B": BMSChannel.PMS_5B,
}


def run_read(tag, lines, layout_name):
    config = LAYOUTS[layout_name]
    lines_before = list(lines)
    config_before = list(config.items())
    n_log = len(CAPTURE.records)
    try:
        if layout_name == "DEFAULT":
            m = BMSMap.read(lines)
        else:
            m = BMSMap.read(lines, note_channel_config=config)
    except BaseException as e:  # noqa
        emit(tag, "RAISED", type(e).__module__, type(e).__name__)
    else:
        dump_map(tag, m)
    emit(tag, "lines_unchanged", lines == lines_before, len(lines))
    emit(tag, "config_unchanged", list(config.items()) == config_before)
    for r in CAPTURE.records[n_log:]:
        emit(tag, "log", r)


# --------------------------------------------------------------------------
# chart generator
# --------------------------------------------------------------------------
B36 = "0123456789ABCDEFGHIJKLMNOPQRSTUVWXYZ"
DIVISIONS = [1, 2, 3, 4, 5, 6, 7, 8, 12, 16, 24, 32, 48, 64, 96, 192]


def b36(n):
    return B36[n // 36] + B36[n % 36]


def note_channels(layout):
    return [k.decode() for k, v in layout.items() if isinstance(v, int)]


def gen_chart(rng, layout_name, *, n_measures, density, ln, int_bpm, ex_bpm,
              shuffle, repeat, bpm_at_zero=False, float_bpm=False,
              lower_hex=False, gaps=False):
    layout = LAYOUTS[layout_name]
    chans = note_channels(layout)
    n_wav = rng.randint(1, 30)
    wav_ids = [b36(i + 1) for i in range(n_wav)]
    ln_id = "ZZ"
    head = [
        "",
        "*---------------------- HEADER FIELD",
        "#PLAYER 1",
        f"#GENRE genre {rng.randint(0, 99)}",
        f"#TITLE Some Title  with spaces {rng.randint(0, 999)} [{layout_name}]",
        f"#ARTIST artist / obj:{rng.randint(0, 99)}",
        "#BPM " + (f"{rng.uniform(60, 300):.3f}" if float_bpm else str(rng.randint(60, 300))),
        f"#PLAYLEVEL {rng.randint(1, 25)}",
        "#RANK 3",
        "#TOTAL 300.5",
        "#STAGEFILE",
        "#DIFFICULTY 4",
    ]
    if ln:
        head.append(f"#LNOBJ {ln_id}")
    ex_ids = []
    if ex_bpm:
        for i in range(rng.randint(1, 6)):
            eid = b36(i + 1)
            ex_ids.append(eid)
            head.append(f"#BPM{eid} {rng.choice([rng.uniform(30, 600), rng.randint(50, 400), 0.5 * rng.randint(100, 900)])}")
    for w in wav_ids:
        # leave some ids without a sample so that the default b"" is exercised
        if rng.random() < 0.85:
            head.append(f"#WAV{w} snd_{w.lower()} x.wav")
    head.append("")
    head.append("*---------------------- MAIN DATA FIELD")

    body = []
    measures = list(range(n_measures))
    if gaps:
        measures = sorted(rng.sample(range(n_measures * 3), n_measures)) if n_measures else []
    open_ln = {c: False for c in chans}
    for me in measures:
        # tempo lines
        if int_bpm and rng.random() < 0.5:
            div = rng.choice(DIVISIONS[:12])
            seq = ["00"] * div
            for _ in range(rng.randint(1, 2)):
                v = f"{rng.randint(1, 255):02X}"
                seq[rng.randrange(div)] = v.lower() if lower_hex else v
            body.append(f"#{me:03d}03:" + "".join(seq))
        if ex_ids and rng.random() < 0.5:
            div = rng.choice(DIVISIONS[:12])
            seq = ["00"] * div
            for _ in range(rng.randint(1, 2)):
                seq[rng.randrange(div)] = rng.choice(ex_ids)
            body.append(f"#{me:03d}08:" + "".join(seq))
        # background channel (ignored by the reader)
        if rng.random() < 0.3:
            body.append(f"#{me:03d}01:" + "".join(rng.choice(wav_ids + ["00"]) for _ in range(4)))
        for c in chans:
            n_lines = 1 + (1 if repeat and rng.random() < 0.4 else 0)
            for _ in range(n_lines):
                if rng.random() > density:
                    continue
                div = rng.choice(DIVISIONS)
                seq = ["00"] * div
                for pos in sorted(rng.sample(range(div), min(div, rng.randint(1, 4)))):
                    if ln and open_ln[c] and rng.random() < 0.6:
                        seq[pos] = ln_id
                        open_ln[c] = False
                    else:
                        seq[pos] = rng.choice(wav_ids)
                        open_ln[c] = True
                body.append(f"#{me:03d}{c}:" + "".join(seq))
    if bpm_at_zero:
        body.insert(0, "#00003:" + f"{rng.randint(1, 255):02X}" + "00" * rng.choice([0, 1, 3]))
    if shuffle:
        rng.shuffle(body)
    lines = head + body
    if rng.random() < 0.5:
        lines = [("  " + s + " \r\n") if i % 3 == 0 else s for i, s in enumerate(lines)]
    return lines


def main():
    rng = random.Random(20240804)

    # ---- layouts themselves (order of keys is observable)
    for name, layout in LAYOUTS.items():
        emit("layout", name, [(cell(k), cell(v)) for k, v in layout.items()])

    # ---- generated charts
    case = 0
    for layout_name in LAYOUTS:
        for variant in range(14):
            kw = dict(
                n_measures=rng.choice([0, 1, 2, 3, 5, 8]),
                density=rng.choice([0.15, 0.4, 0.8, 1.0]),
                ln=rng.random() < 0.6,
                int_bpm=rng.random() < 0.6,
                ex_bpm=rng.random() < 0.5,
                shuffle=rng.random() < 0.4,
                repeat=rng.random() < 0.5,
                bpm_at_zero=rng.random() < 0.25,
                float_bpm=rng.random() < 0.3,
                lower_hex=rng.random() < 0.2,
                gaps=rng.random() < 0.3,
            )
            if variant == 0:
                kw.update(n_measures=0, bpm_at_zero=False)  # header only
            if variant == 1:
                kw.update(n_measures=4, density=1.0, ln=False, shuffle=False)  # hits only
            if variant == 2:
                kw.update(n_measures=3, int_bpm=True, ex_bpm=True, shuffle=True, repeat=True)
            lines = gen_chart(rng, layout_name, **kw)
            run_read(f"gen{case:03d}.{layout_name}", lines, layout_name)
            case += 1

    # ---- hand written edge cases
    H = ["#TITLE t", "#ARTIST a", "#BPM 120", "#PLAYLEVEL 3", "#LNOBJ ZZ", "#WAV01 a.wav",
         "#WAV02 b.wav", "#BPM01 222.5", "#BPM0A 90", "#bpm0b 75.25", "#wav0c lower.wav"]
    edge = {
        "empty_input": [],
        "header_only": H,
        "no_bpm_header": ["#TITLE t", "#00111:01"],
        "lower_bpm_header": ["#bpm 120", "#00111:01"],
        "bad_exbpm_value": H + ["#BPM02 fast"],
        "holds_only": H + ["#00011:01ZZ", "#00112:0100ZZ00"],
        "hits_only": H + ["#00011:0102", "#00112:01000200"],
        "hit_and_hold_same_lane": H + ["#00011:01ZZ0201", "#00111:ZZ"],
        "ln_tail_without_head": H + ["#00011:ZZ"],
        "ln_tail_without_head_2": H + ["#00011:01ZZZZ"],
        "ln_head_in_other_lane": H + ["#00011:01", "#00012:ZZ"],
        "ln_lines_reversed": H + ["#00111:ZZ", "#00011:01"],
        "ln_across_measures": H + ["#00011:0001", "#00511:000000ZZ"],
        "zero_length_ln": H + ["#00011:01", "#00011:ZZ"],
        "unknown_sample": H + ["#00011:0X0Y"],
        "unknown_exbpm": H + ["#00008:0F", "#00011:01"],
        "exbpm_lower_key": H + ["#00108:0b", "#00111:0101"],
        "exbpm_upper_key_miss": H + ["#00108:0B", "#00111:0101"],
        "bpm_at_zero": H + ["#00003:78", "#00011:01010101"],
        "bpm_at_zero_late_line": H + ["#00103:3C", "#00003:78", "#00011:01010101", "#00211:01"],
        "two_bpm_same_snap": H + ["#00103:3C", "#00103:78", "#00111:0101", "#00211:01"],
        "two_bpm_same_snap_ext": H + ["#00108:01", "#00103:78", "#00111:0101", "#00211:01"],
        "bpm_off_measure": H + ["#00003:003C", "#00103:00007800", "#00111:01010101", "#00311:01"],
        "bpm_thirds": H + ["#00003:00FF3C", "#00108:000A0001", "#00111:010101", "#00311:01"],
        "bpm_192": H + ["#00003:" + "00" * 191 + "B4", "#00111:" + "01" * 192],
        "hex_lower": H + ["#00103:7f", "#00111:0101"],
        "hex_invalid": H + ["#00103:ZZ", "#00111:0101"],
        "odd_sequence": H + ["#00011:010", "#00011:0"],
        "odd_sequence_obj": H + ["#00011:1"],
        "empty_sequence": H + ["#00011:", "#00111:01"],
        "all_rests": H + ["#00011:00000000", "#00103:0000"],
        "unknown_channel": H + ["#00001:0101", "#00004:01", "#00009:01", "#00031:01", "#000D1:01"],
        "two_colons": H + ["#00011:01:02"],
        "no_colon": H + ["#00011"],
        "lone_hash": H + ["#"],
        "hash_digit": H + ["#1"],
        "non_command": H + ["*comment", "", "   ", "00011:01", "%URL x"],
        "header_no_value": H + ["#STAGEFILE", "#BACKBMP", "#00011:01"],
        "header_tab": H + ["#SUBTITLE\tx", "#00011:01"],
        "header_digit_space": H + ["#00011:01 02", "#00111:01"],
        "title_spaces": ["#TITLE  two  spaces  ", "#ARTIST あい", "#BPM 150.0", "#00011:01"],
        "title_unencodable": ["#TITLE ☃", "#BPM 150"],
        "dup_header": H + ["#TITLE second", "#BPM 180", "#WAV01 again.wav", "#00011:01"],
        "measure_999": H + ["#99911:01", "#00011:01"],
        "many_same_measure_lines": H + ["#00111:01", "#00111:0002", "#00111:00000102", "#00111:ZZ"],
        "whitespace_lines": ["  " + s + "\t\r\n" for s in H + ["#00011:0102", "#00103:78"]],
        "time_sig_line": H + ["#00102:0.75", "#00111:01010101", "#00211:01"],
        "wav_long_key": H + ["#WAVE1 x.wav", "#WAVXYZ y.wav", "#BPMXYZ 3", "#00011:E1YZ"],
        "fullwidth_space": ["#TITLE\u3000x y", "\u3000#ARTIST z\u3000", "#BPM 120", "#00011:01"],
        "nbsp": ["#ARTIST\xa0z", "#BPM 120", "#00011:01"],
        "hash_space_value": H + ["# foo", "#00011:01"],
        "hash_spaces_only": H + ["#   ", "#00011:01"],
        "space_before_colon": H + ["#000 11:01", "#00111:01"],
        "space_in_sequence": H + ["#00011:01 ZZ", "#00111:01"],
        "digit_header": H + ["#1UP x", "#9", "#00111:01"],
        "bytes_lines": [b"#BPM 120", b"#00011:01"],
        "colon_header": H + ["#A:B", "#:", "#00111:01"],
    }
    for name, lines in edge.items():
        for layout_name in ("BME", "PMS_BME"):
            run_read(f"edge.{name}.{layout_name}", list(lines), layout_name)
    # default layout argument
    m = BMSMap.read(list(edge["hit_and_hold_same_lane"]))
    dump_map("edge.default_layout", m)

    # ---- a real chart from the repository (every shipped layout)
    real = Path("tests/unit_tests/bms/searoad.bml")
    if real.exists():
        for layout_name in LAYOUTS:
            n_log = len(CAPTURE.records)
            try:
                m = BMSMap.read_file(real, note_channel_config=LAYOUTS[layout_name])
            except BaseException as e:  # noqa
                emit("real", layout_name, "RAISED", type(e).__name__)
            else:
                dump_map(f"real.{layout_name}", m)
            emit("real", layout_name, "nlog", len(CAPTURE.records) - n_log,
                 hashlib.sha256("\n".join(CAPTURE.records[n_log:]).encode()).hexdigest())

    # ---- TimingMap.offsets / from_bpm_changes_snap directly
    for t in range(40):
        n_bpm = rng.choice([1, 1, 2, 3, 6, 12])
        bcs_s = [BpmChangeSnap(rng.choice([120, 150.5, 60, 333]), 4, Snap(0, 0, 4))]
        for _ in range(n_bpm - 1):
            bcs_s.append(
                BpmChangeSnap(
                    rng.choice([rng.randint(1, 255), rng.uniform(20, 700)]), 4,
                    Snap(rng.randint(0, 8), Fraction(rng.randrange(0, 48), 12), 4),
                )
            )
        if t % 3 == 0:
            bcs_s.sort(key=lambda x: x.snap)
        bcs_before = repr(bcs_s)
        tm = TimingMap.from_bpm_changes_snap(rng.choice([0, 0.0, 12.5, -300]), bcs_s, reseat=False)
        emit("tm", t, "bcs_unchanged", repr(bcs_s) == bcs_before)
        emit("tm", t, "bco", [(cell(b.bpm), cell(b.metronome), cell(b.offset)) for b in tm.bpm_changes_offset])
        n = rng.choice([0, 1, 2, 5, 17, 60])
        snaps = [
            Snap(rng.randint(0, 10), Fraction(rng.randrange(0, 192), 48), rng.choice([None, 4]))
            for _ in range(n)
        ]
        if n >= 5:
            snaps[3] = snaps[0]  # same object twice
            snaps[4] = Snap(snaps[1].measure, snaps[1].beat, 4)  # equal, distinct object
        for kind, arg in (("list", list(snaps)), ("tuple", tuple(snaps)),
                          ("sorted", sorted(snaps)), ("reversed", sorted(snaps, reverse=True)),
                          ("ndarray", np.array(list(snaps) + [None], dtype=object)[:-1])):
            keep = list(arg)
            before = [repr(s) for s in arg]
            try:
                res = tm.offsets(arg)
            except BaseException as e:  # noqa
                emit("tm", t, kind, "RAISED", type(e).__name__)
                continue
            emit("tm", t, kind, type(res).__name__, res.dtype, res.shape, [cell(v) for v in res])
            emit("tm", t, kind, "arg_unchanged", type(arg).__name__,
                 all(a is b for a, b in zip(keep, arg)), [repr(s) for s in arg] == before)
        emit("tm", t, "bco_after", [(cell(b.bpm), cell(b.metronome), cell(b.offset)) for b in tm.bpm_changes_offset])
        r = tm.reseat()
        emit("tm", t, "reseat", [(cell(b.bpm), cell(b.metronome), cell(b.offset)) for b in r.bpm_changes_offset])
    # a snap before the first bpm change cannot be placed
    tm = TimingMap.from_bpm_changes_snap(0, [BpmChangeSnap(120, 4, Snap(0, 0, 4))], reseat=False)
    for bad in ([Snap(-1, 0, None)], [Snap(2, 1, None), Snap(0, -1, None)]):
        try:
            res = tm.offsets(bad)
            emit("tm.bad", [cell(v) for v in res])
        except BaseException as e:  # noqa
            emit("tm.bad", "RAISED", type(e).__name__)

    emit("total_log_records", len(CAPTURE.records))
    text = "\n".join(OUT)
    if os.environ.get("DEMO_DUMP"):  # optional: keep the canonical dump for diffing
        Path(os.environ["DEMO_DUMP"]).write_text(text, encoding="utf-8", errors="backslashreplace")
    print("DIGEST", hashlib.sha256(text.encode("utf-8", "backslashreplace")).hexdigest())


if __name__ == "__main__":
    main()
