"""Facts about the timing engine shared by C02/C04/C05/C07/C10 (always re-derived from the current source)."""
from __future__ import annotations

import ast
from typing import Optional, Tuple

from ..model import AnalysisError
from .common import call_name, unparse

UTILS = "reamber.algorithms.timing.utils"
FROM_SNAP = f"{UTILS}.from_bpm_changes_snap.from_bpm_changes_snap"
FROM_OFFSET = f"{UTILS}.from_bpm_changes_offset.from_bpm_changes_offset"
OFFSET_TO_SNAP = f"{UTILS}.bpm_changes_offset_to_snap.bpm_changes_offset_to_snap"
RESEAT = f"{UTILS}.reseat_bpm_changes_snap.reseat_bpm_changes_snap"
TIMINGMAP = "reamber.algorithms.timing.TimingMap.TimingMap"


def sort_key_attr(call: ast.Call) -> Optional[str]:
    """'snap' for x.sort(key=lambda x: x.snap) / sorted(xs, key=lambda x: x.snap); '' for the default key; None if unknown."""
    k = next((kw.value for kw in call.keywords if kw.arg == "key"), None)
    if any(kw.arg == "reverse" and not (isinstance(kw.value, ast.Constant) and kw.value.value is False)
           for kw in call.keywords):
        return None
    if k is None:
        return ""
    if isinstance(k, ast.Lambda) and isinstance(k.body, ast.Attribute) and isinstance(k.body.value, ast.Name) and \
            k.args.args and k.body.value.id == k.args.args[0].arg:
        return k.body.attr
    return None


def first_sort_of(fn_node: ast.FunctionDef, name: str) -> Optional[Tuple[int, ast.Call, Optional[str]]]:
    """(index of the top-level statement, call, key attribute) of the first sort of local/param ``name``."""
    for i, s in enumerate(fn_node.body):
        if isinstance(s, ast.Expr) and isinstance(s.value, ast.Call) and call_name(s.value) == "sort" and \
                isinstance(s.value.func, ast.Attribute) and isinstance(s.value.func.value, ast.Name) and \
                s.value.func.value.id == name:
            return i, s.value, sort_key_attr(s.value)
        if isinstance(s, ast.Assign) and isinstance(s.targets[0], ast.Name) and s.targets[0].id == name and \
                isinstance(s.value, ast.Call) and call_name(s.value) == "sorted" and s.value.args and \
                isinstance(s.value.args[0], ast.Name) and s.value.args[0].id == name:
            return i, s.value, sort_key_attr(s.value)
    return None


def first_positional_use(fn_node: ast.FunctionDef, name: str) -> Optional[int]:
    """index of the first top-level statement that uses ``name`` positionally (subscript / zip of slices / iteration)."""
    for i, s in enumerate(fn_node.body):
        for n in ast.walk(s):
            if isinstance(n, ast.Subscript) and isinstance(n.value, ast.Name) and n.value.id == name:
                return i
            if isinstance(n, (ast.For, ast.comprehension)) and isinstance(n.iter, ast.Name) and n.iter.id == name:
                return i
    return None


def callee_sorts_param(ctx, qual: str, param: str, key_attr: str) -> Tuple[bool, str]:
    """Does the resolved function sort its parameter by ``key_attr`` before any positional use of it?"""
    fn = ctx.M.fn(qual)
    srt = first_sort_of(fn.node, param)
    use = first_positional_use(fn.node, param)
    if srt is None:
        return False, f"{fn.name} does not sort '{param}'"
    if srt[2] != key_attr:
        return False, f"{fn.name} sorts '{param}' by '{srt[2]}' (not by '{key_attr}')"
    if use is not None and use < srt[0]:
        return False, f"{fn.name} uses '{param}' positionally before sorting it"
    return True, f"{fn.name} sorts '{param}' by {key_attr} before use"
