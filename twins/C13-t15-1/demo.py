"""Demonstration for C13 / k=1: OsuMap.rate keeps its behaviour.

Run from the worktree root:
    cd /tmp/r15/C13 && PYTHONPATH=/tmp/r15/C13 /venv/bin/python demo.py

Prints ONE line on stdout: the sha256 digest of a canonical text holding, for
every generated case, the rated map (all lists with values, dtypes and row
labels, every meta field with its type), the file written from it, the maps
read back from that file, any exception type raised and the state of the input
map afterwards.
"""
import dataclasses
import hashlib
import random
import sys
import warnings

import numpy as np
import pandas as pd

import reamber
from reamber.osu import OsuMap, OsuHit, OsuHold, OsuBpm, OsuSv
from reamber.osu.OsuSample import OsuSample
from reamber.osu.lists.OsuBpmList import OsuBpmList
from reamber.osu.lists.OsuSampleList import OsuSampleList
from reamber.osu.lists.OsuSvList import OsuSvList
from reamber.osu.lists.notes.OsuHitList import OsuHitList
from reamber.osu.lists.notes.OsuHoldList import OsuHoldList

print(reamber.__file__, file=sys.stderr)
warnings.simplefilter("ignore")

RNG = random.Random(1513_1)
OUT = []


def emit(*parts):
    OUT.append(" | ".join(str(p) for p in parts))


def canon_value(v):
    if isinstance(v, (float, np.floating)):
        return f"{type(v).__name__}:{float(v)!r}"
    if isinstance(v, (bool, np.bool_)):
        return f"{type(v).__name__}:{bool(v)!r}"
    if isinstance(v, (int, np.integer)):
        return f"{type(v).__name__}:{int(v)!r}"
    return f"{type(v).__name__}:{v!r}"


def canon_df(df: pd.DataFrame):
    lines = [
        "cols=" + ",".join(f"{c}:{df[c].dtype}" for c in df.columns),
        f"index={type(df.index).__name__}:{df.index.dtype}:{list(df.index)!r}",
    ]
    for row in df.itertuples(index=False, name=None):
        lines.append(";".join(canon_value(v) for v in row))
    return lines


def canon_map(tag, m: OsuMap):
    emit(tag, "type", type(m).__name__)
    for name, lst in m.objs.items():
        emit(tag, "list", name, type(lst).__name__)
        for ln in canon_df(lst.df):
            emit(tag, name, ln)
    emit(tag, "list", "samples", type(m.samples).__name__)
    for ln in canon_df(m.samples.df):
        emit(tag, "samples", ln)
    for f in dataclasses.fields(m):
        if f.name in ("objs", "samples"):
            continue
        emit(tag, "meta", f.name, canon_value(getattr(m, f.name)))


def snapshot(m: OsuMap):
    before = len(OUT)
    canon_map("snap", m)
    snap = OUT[before:]
    del OUT[before:]
    return snap


# ---------------------------------------------------------------- generators
def gen_time(kind):
    if kind == "int":
        return float(RNG.randrange(0, 200000))
    if kind == "frac":
        return RNG.uniform(0, 200000)
    if kind == "neg":
        return RNG.uniform(-5000, 5000)
    return float(RNG.randrange(0, 200000))


def gen_map(case: int) -> OsuMap:
    keys = RNG.choice([1, 3, 4, 4, 5, 6, 7, 8, 9, 10, 18])
    tkind = RNG.choice(["int", "frac", "neg"])
    n_hits = RNG.choice([0, 1, 5, 20])
    n_holds = RNG.choice([0, 0, 1, 4, 12])
    n_bpms = RNG.choice([0, 1, 1, 3])
    n_svs = RNG.choice([0, 0, 2, 6])
    n_samples = RNG.choice([0, 0, 1, 3, 7])

    m = OsuMap()
    m.circle_size = float(keys)
    m.title = f"case{case}"
    m.title_unicode = f"ケース{case}"
    m.artist = "a"
    m.version = f"v{case}"
    m.audio_file_name = "audio.mp3"
    m.preview_time = RNG.choice(
        [-1, -1, 0, 1, 1234, 50000, 33333, 12.5, -1.0, 0.0, np.float64(777.25), -20]
    )
    m.audio_lead_in = RNG.choice([0, 500])
    m.tags = ["x", "y"]

    hits = [
        OsuHit(
            offset=gen_time(tkind),
            column=RNG.randrange(keys),
            hitsound_set=RNG.randrange(4),
            volume=RNG.randrange(100),
            hitsound_file=RNG.choice(["", "a.wav"]),
        )
        for _ in range(n_hits)
    ]
    holds = [
        OsuHold(
            offset=gen_time(tkind),
            column=RNG.randrange(keys),
            length=RNG.choice([0.0, 1.0, 100.0, RNG.uniform(0, 3000)]),
            custom_set=RNG.randrange(3),
        )
        for _ in range(n_holds)
    ]
    bpms = [
        OsuBpm(
            offset=gen_time(tkind),
            bpm=RNG.choice([60.0, 120.0, 174.0, RNG.uniform(30, 400)]),
            metronome=RNG.choice([3, 4, 7]),
            kiai=RNG.choice([True, False]),
        )
        for _ in range(n_bpms)
    ]
    svs = [
        OsuSv(offset=gen_time(tkind), multiplier=RNG.uniform(0.1, 10))
        for _ in range(n_svs)
    ]
    samples = [
        OsuSample(
            offset=gen_time(tkind),
            sample_file=RNG.choice(["s.wav", "t.ogg"]),
            volume=RNG.randrange(101),
        )
        for _ in range(n_samples)
    ]
    # Unsorted rows are what the generator gives; sometimes sort instead
    m.hits = OsuHitList(hits)
    m.holds = OsuHoldList(holds)
    m.bpms = OsuBpmList(bpms)
    m.svs = OsuSvList(svs)
    m.samples = OsuSampleList(samples)

    style = case % 6
    if style == 1:
        # sorted lists (sort keeps the old row labels -> non-default labels)
        m.hits = m.hits.sorted()
        m.holds = m.holds.sorted()
        m.samples = m.samples.sorted(reverse=True)
    elif style == 2:
        # filtered lists: non-default row labels after a boolean filter
        if len(m.hits):
            m.hits = m.hits[m.hits.offset >= m.hits.offset.median()]
        if len(m.samples):
            m.samples = m.samples[m.samples.volume >= 30]
        if len(m.holds):
            m.holds = m.holds[m.holds.column % 2 == 0]
    elif style == 3:
        # from_dict built lists with integer times
        m.samples = OsuSampleList.from_dict(
            dict(offset=[3000, 1000, 2000], sample_file=["a", "b", "c"])
        )
        m.hits = OsuHitList.from_dict(dict(offset=[0, 10, 20], column=[0, 0, 0]))
    elif style == 4:
        # sample list sharing its frame with another list object
        m.samples = OsuSampleList(m.samples)
    return m


RATES = [1, 1.0, 0.5, 2, 1.5, 1.1, 1 / 3, 0.75, 3, 1e-3, 1e3, np.float64(1.25)]
BAD_RATES = [0, 0.0, "2", None, -1.5, float("nan"), float("inf")]


def run_case(case: int, m: OsuMap, by):
    tag = f"c{case}"
    emit(tag, "rate", canon_value(by))
    before = snapshot(m)
    rated = None
    try:
        rated = m.rate(by)
        emit(tag, "same-object", rated is m)
        emit(tag, "shares-samples", rated.samples is m.samples,
             rated.samples.df is m.samples.df)
        canon_map(tag + ".rated", rated)
    except Exception as e:  # noqa
        emit(tag, "rate-exception", type(e).__name__)
    after = snapshot(m)
    emit(tag, "input-unchanged", before == after)
    for ln in after:
        emit(tag, "input", ln)
    if rated is None:
        return

    # composition and identity
    for by2 in (1, 2, 0.7):
        try:
            canon_map(tag + f".then{by2}", rated.rate(by2))
        except Exception as e:  # noqa
            emit(tag, f"then{by2}-exception", type(e).__name__)

    # write of the result and read back
    try:
        lines = rated.write()
        for ln in lines:
            emit(tag, "written", repr(ln))
        back = OsuMap.read("\n".join(lines).split("\n"))
        canon_map(tag + ".readback", back)
    except Exception as e:  # noqa
        emit(tag, "write-exception", type(e).__name__)
    after2 = snapshot(m)
    emit(tag, "input-unchanged-after-write", before == after2)


def main():
    case = 0
    for _ in range(48):
        m = gen_map(case)
        run_case(case, m, RNG.choice(RATES))
        case += 1
    for by in BAD_RATES:
        for _ in range(2):
            m = gen_map(case)
            run_case(case, m, by)
            case += 1
    # a completely empty map, and a default map with a preview point
    run_case(case, OsuMap(), 1.5)
    case += 1
    m = OsuMap()
    m.preview_time = 4000
    run_case(case, m, 0)
    case += 1
    # a file based map
    try:
        m = OsuMap.read_file("tests/unit_tests/osu/map_read.osu")
        run_case(case, m, 1.25)
    except FileNotFoundError:
        emit("file-map", "missing")
    case += 1

    emit("cases", case)
    text = "\n".join(OUT)
    print(len(OUT), "lines", file=sys.stderr)
    print(hashlib.sha256(text.encode("utf8")).hexdigest())


if __name__ == "__main__":
    main()
