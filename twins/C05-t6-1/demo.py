"""Demo for C05 refactoring 1 (BMSMap._write_notes: LCM slot assignment + line generation).

Builds several dozen in-memory BMS charts from the quantified domain (4/4 tempo
points on measure lines, every channel layout, on-grid and off-grid times, with
and without known samples, empty / unsorted lists ...), writes them, and dumps the
bytes, raised exception types, the chart state afterwards and a read-back.
Prints one line: DIGEST <sha256>.
"""
import hashlib
import random
import warnings
from fractions import Fraction

import numpy as np
import pandas as pd

from reamber.bms.BMSMap import BMSMap
from reamber.bms.BMSChannel import BMSChannel
from reamber.bms.BMSHit import BMSHit
from reamber.bms.BMSHold import BMSHold
from reamber.bms.BMSBpm import BMSBpm
from reamber.bms.lists.BMSBpmList import BMSBpmList
from reamber.bms.lists.notes.BMSHitList import BMSHitList
from reamber.bms.lists.notes.BMSHoldList import BMSHoldList

warnings.simplefilter("ignore")
random.seed(50501)
np.random.seed(50501)

OUT = []


def emit(*a):
    OUT.append(" ".join(str(x) for x in a))


LAYOUTS = {
    "BMS": BMSChannel.BMS,
    "BME": BMSChannel.BME,
    "PMS": BMSChannel.PMS,
    "PMS_BME": BMSChannel.PMS_BME,
    "PMS_5B": BMSChannel.PMS_5B,
}
SAMPLES = {b"01": b"kick.wav", b"02": b"snare.wav", b"0A": b"hat.wav", b"ZY": b"fx.ogg"}
GRID = [1, 2, 3, 4, 6, 8, 12, 16]


def dump_list(name, lst):
    df = lst.df
    emit(name, "cols", list(df.columns), "dtypes", [str(t) for t in df.dtypes],
         "index", list(df.index))
    for row in df.itertuples(index=True):
        emit("  ", tuple(repr(x) for x in row))


def dump_map(tag, m):
    emit(tag, "title", repr(m.title), "artist", repr(m.artist), "version", repr(m.version),
         "ln", repr(m.ln_end_channel), "samples", sorted(m.samples.items()),
         "misc", sorted(m.misc.items(), key=repr), "exbpms", sorted(m.exbpms.items()))
    dump_list(tag + ".bpms", m.bpms)
    dump_list(tag + ".hits", m.hits)
    dump_list(tag + ".holds", m.holds)


def tempo_points(n, first_offset=0.0, bpm_pool=(60, 90, 120, 150, 180, 200, 133.33, 75.5)):
    """n 4/4 tempo points, each one on a measure line of the previous one."""
    pts = []
    off = float(first_offset)
    for i in range(n):
        bpm = random.choice(bpm_pool)
        pts.append((off, bpm))
        measures = random.randint(1, 4)
        off += measures * 4 * 60000.0 / bpm
    return pts


def time_at(pts, measure_beats):
    """offset of a (tempo point index, beat as Fraction) pair"""
    i, beat = measure_beats
    off, bpm = pts[i]
    return off + float(beat) * 60000.0 / bpm


def build(layout, n_bpm, n_hit, n_hold, off_grid, known_samples, shuffle, ln=None,
          first_offset=0.0, int_offsets=False):
    cols = sorted(v for v in layout.values() if isinstance(v, int))
    pts = tempo_points(n_bpm, first_offset)
    used = set()

    def pick_time():
        for _ in range(100):
            i = random.randrange(len(pts))
            # stay inside the span of this tempo point (1 measure at least)
            den = random.choice(GRID)
            beat = Fraction(random.randrange(0, 4 * den), den)
            col = random.choice(cols)
            key = (i, beat, col)
            if key in used:
                continue
            used.add(key)
            t = time_at(pts, (i, beat))
            if off_grid:
                t += random.uniform(-0.4, 0.4)
                t = max(t, pts[0][0])
            return t, col
        raise RuntimeError

    def sample():
        if known_samples == "all":
            return random.choice(list(SAMPLES.values()))
        if known_samples == "none":
            return random.choice([b"", b"unknown.wav"])
        return random.choice(list(SAMPLES.values()) + [b"", b"nope.wav"])

    hits = []
    for _ in range(n_hit):
        t, c = pick_time()
        hits.append(BMSHit(int(t) if int_offsets else t, c, sample()))
    holds = []
    for _ in range(n_hold):
        t, c = pick_time()
        # tail: some beats later on the grid of the first tempo that contains it
        length = random.choice([1, 2, 3, 4, 6]) * 60000.0 / pts[0][1] / random.choice([1, 2, 4])
        if off_grid:
            length += random.uniform(0, 0.3)
        holds.append(BMSHold(int(t) if int_offsets else t, c, int(length) + 1 if int_offsets else length, sample()))
    bpms = [BMSBpm(o, b) for o, b in pts]
    if shuffle:
        random.shuffle(hits)
        random.shuffle(holds)
        random.shuffle(bpms)
        if bpms:
            # keep the list's first row the initial tempo or not: both are legal inputs
            pass
    m = BMSMap()
    m.title = b"t"
    m.artist = "artist"
    m.version = b"7"
    m.samples = dict(SAMPLES) if known_samples != "none" else {}
    m.misc = {b"GENRE": b"x"}
    if ln is not None:
        m.ln_end_channel = ln
    m.bpms = BMSBpmList(bpms)
    m.hits = BMSHitList(hits)
    m.holds = BMSHoldList(holds)
    return m


def run_case(tag, m, layout_name, **kw):
    layout = LAYOUTS[layout_name]
    layout_before = dict(layout)
    emit("=== CASE", tag, layout_name, kw)
    dump_map("before", m)
    try:
        b = m.write(note_channel_config=layout, **kw)
        emit("WRITE type", type(b).__name__, "len", len(b))
        for ln_ in b.split(b"\r\n"):
            emit("  L", ln_.hex())
    except Exception as e:  # noqa
        b = None
        emit("WRITE raised", type(e).__name__)
    dump_map("after", m)
    emit("layout unchanged", layout == layout_before, list(layout.items()) == list(layout_before.items()))
    if b is not None:
        try:
            lines = b.decode("shift_jis").split("\r\n")
            r = BMSMap.read(lines, note_channel_config=layout)
            dump_map("readback", r)
        except Exception as e:  # noqa
            emit("READ raised", type(e).__name__)
    # the lower-level entry point too
    try:
        b2 = m._write_notes(layout, **kw)
        emit("NOTES", type(b2).__name__, hashlib.sha256(b2).hexdigest(), b is not None and b.endswith(b"\r\n\r\n" + b2))
    except Exception as e:  # noqa
        emit("NOTES raised", type(e).__name__)


n = 0
# --- broad random sweep over every layout -----------------------------------
for layout_name in LAYOUTS:
    for off_grid in (False, True):
        for known in ("all", "mixed", "none"):
            n += 1
            m = build(LAYOUTS[layout_name], n_bpm=random.randint(1, 6), n_hit=random.randint(0, 25),
                      n_hold=random.randint(0, 8), off_grid=off_grid, known_samples=known,
                      shuffle=bool(n % 2))
            run_case(f"sweep{n}", m, layout_name)

# --- edge cases -----------------------------------------------------------------
# only a tempo point, no objects at all
run_case("only_bpm", build(BMSChannel.BME, 1, 0, 0, False, "all", False), "BME")
# no hits, some holds / no holds, some hits
run_case("only_holds", build(BMSChannel.BMS, 2, 0, 6, False, "mixed", False), "BMS")
run_case("only_hits", build(BMSChannel.PMS, 2, 9, 0, False, "mixed", True), "PMS")
# one object at time zero
m = build(BMSChannel.BME, 1, 0, 0, False, "all", False)
m.hits = BMSHitList([BMSHit(0, 0, b"kick.wav")])
run_case("hit_at_zero", m, "BME")
# many tempo points (two-digit base-36 ids beyond 'Z', 10->'0A', 36->'10')
run_case("many_bpm_80", build(BMSChannel.BME, 80, 30, 5, False, "mixed", False), "BME")
run_case("many_bpm_200", build(BMSChannel.PMS_BME, 200, 10, 2, True, "all", True), "PMS_BME")
# other default sample id / custom LN object id
run_case("no_sample_default", build(BMSChannel.BME, 2, 12, 3, False, "none", False), "BME",
         no_sample_default=b"0Z")
run_case("custom_ln", build(BMSChannel.BMS, 2, 6, 6, False, "all", False, ln=b"ZY"), "BMS")
# integer offsets (int64 offset columns)
run_case("int_offsets", build(BMSChannel.BME, 1, 15, 4, False, "mixed", True, int_offsets=True), "BME")
# first tempo point not at zero
run_case("late_first_bpm", build(BMSChannel.BME, 3, 10, 2, False, "all", False, first_offset=1000.0), "BME")
# dense measure: every 1/16 of one measure in one lane + 1/12 in another (LCM splitting)
m = build(BMSChannel.BME, 1, 0, 0, False, "all", False)
bl = 60000.0 / m.bpms[0].bpm
m.hits = BMSHitList([BMSHit(i * bl / 4, 1, b"kick.wav") for i in range(16)]
                    + [BMSHit(i * bl / 3, 2, b"") for i in range(12)]
                    + [BMSHit(i * bl / 5, 3, b"snare.wav") for i in range(20)]
                    + [BMSHit(bl * Fraction(k, d), 4, b"hat.wav") for k, d in ((1, 7), (1, 9), (5, 32), (3, 64), (95, 96))])
run_case("dense_lcm", m, "BME")
# a column that the layout does not have -> KeyError
m = build(BMSChannel.PMS_5B, 1, 3, 0, False, "all", False)
m.hits = BMSHitList([BMSHit(0, 0, b""), BMSHit(500, 7, b"")])
run_case("bad_column", m, "PMS_5B")
# an object before the first tempo point -> IndexError
m = build(BMSChannel.BME, 2, 3, 0, False, "all", False, first_offset=500.0)
m.hits = BMSHitList([BMSHit(100.0, 0, b""), BMSHit(900.0, 1, b"")])
run_case("before_first_bpm", m, "BME")
# empty tempo list -> error from the header writer
m = build(BMSChannel.BME, 1, 3, 0, False, "all", False)
m.bpms = BMSBpmList([])
run_case("no_bpm", m, "BME")

print("DIGEST", hashlib.sha256("\n".join(OUT).encode()).hexdigest())
