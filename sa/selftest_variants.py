"""Self-test variants (DESIGN §8): small edits of the CURRENT tree that still compile.

Each entry: (property, file relative to /repo, old text, new text, kind, rule)
  kind "break"  the edit breaks the property; the check must report a NEW violation of `rule` (prefix match)
  kind "twin"   behaviour-preserving rewrite; the check must stay silent (no new violation, no new analysis error)
An entry whose `old` text is absent from the current tree is skipped and counted (the repository moved on).
The edits are applied to an in-memory overlay of the parsed sources; nothing is executed and nothing is written.
"""

B, T = "break", "twin"
BMS = "reamber/bms/BMSMap.py"
O2P = "reamber/o2jam/O2JEventPackage.py"
TM = "reamber/algorithms/timing/TimingMap.py"
FLN = "reamber/algorithms/generate/full_ln.py"
HSC = "reamber/algorithms/osu/hitsound_copy.py"
PTN = "reamber/algorithms/pattern/Pattern.py"

VARIANTS = [
    # ---- C01
    ("C01", "reamber/osu/OsuHit.py", "int(self.offset)", "int(self.offset + 0.5)", B, "C01.R3"),
    ("C01", "reamber/osu/OsuMapMeta.py", 'k, *v = line.split(":", 1)', 'k, *v = line.split(":")', B, "C01.R2"),
    ("C01", "reamber/osu/OsuMapMeta.py", 'k, *v = line.split(":", 1)', 'k, *v = line.split(":", maxsplit=1)', T, ""),
    ("C01", "reamber/osu/OsuHold.py", "hitsound_set=int(s_comma[4]),", "hitsound_set=int(s_comma[3]),", B, "C01.R3"),
    ("C01", "reamber/osu/OsuHold.py", "length=float(s_colon[0]) - float(s_comma[2]),", "length=float(s_colon[0]),", B, "C01.R3"),
    ("C01", "reamber/osu/OsuNoteMeta.py", 'return s.count(":") == 5 and s.count(",") == 5', 'return s.count(":") == 5 and s.count(",") == 6', B, "C01.R5"),
    ("C01", "reamber/osu/OsuMapMeta.py", 'self.tags = [i.strip() for i in v.split(" ") if i]', "self.tags = v.split()", B, "C01.R1"),
    # ---- C02
    ("C02", "reamber/sm/SMMapSet.py", 'if "#NOTES:" in token:', 'if token.startswith("#NOTES:"):', B, "C02.R5"),
    ("C02", "reamber/sm/SMMap.py", "for k, snaps_ht in enumerate(snaps_s):\n                if not snaps_ht:\n                    continue",
     "for k, snaps_ht in enumerate(filter(None, snaps_s)):", B, "C02.R7"),
    ("C02", "reamber/sm/SMMap.py", "tm = TimingMap.from_bpm_changes_snap(initial_offset, bcs_s, False)",
     "tm = TimingMap.from_bpm_changes_snap(initial_offset, bcs_s, True)", B, "C02.R4"),
    # ---- C03
    ("C03", "reamber/sm/SMMap.py", "keys = SMMapChartTypes.get_keys(self.chart_type)", "keys = int(notes.column.max()) + 1", B, "C03.R6"),
    ("C03", "reamber/sm/SMMap.py", "*self.lifts.column,\n                *self.mines.column,", "*self.mines.column,\n                *self.lifts.column,", B, "C03.R3"),
    ("C03", "reamber/base/lists/notes/HoldList.py", "return self.offset + self.length", "return self.offset + self.length - 1", B, "C03.D"),
    ("C01", "reamber/base/lists/notes/HoldList.py", "return self.offset + self.length", "return self.offset + self.length - 1", T, ""),
    ("C02", "reamber/algorithms/timing/utils/snap.py", "self.measure == other.measure and self.beat < other.beat", "self.measure == other.measure and self.beat <= other.beat", B, "C02.D"),
    # ---- C04
    ("C04", BMS, "hits[column].pop(-1)", "hits[column].pop(0)", B, "C04.R3"),
    ("C04", BMS, "int(pair, 16)", "int(pair, 36)", B, "C04.R3"),
    ("C04", BMS, "Fraction(i, division) * metronome", "Fraction(i + 1, division) * metronome", B, "C04.R7"),
    ("C04", BMS, "cols, samples, snaps_head, snaps_tail = list(", "cols, samples, snaps_tail, snaps_head = list(", B, "C04.R8"),
    ("C04", "reamber/bms/BMSChannel.py", 'b"18": 6,', 'b"18": 7,', B, "C04.R1"),
    ("C04", BMS, "self.exbpms[k[3:]] = float(v)", "self.exbpms[k[4:]] = float(v)", B, "C04.R3"),
    ("C04", BMS, "initial_offset=0, bcs_s=bcs_s, reseat=False", "initial_offset=0, bcs_s=bcs_s, reseat=True", B, "C04.R5"),
    ("C04", BMS, "bcs_s.sort(key=lambda x: x.snap)", "pass", T, ""),
    ("C04", BMS, "division = len(sequence) // 2", "division = len(pairs)", T, ""),
    # ---- C05
    ("C05", BMS, 'bytes(base_repr(e + 1, 36).zfill(2), "ascii")', 'bytes(base_repr(e, 36).zfill(2), "ascii")', B, "C05.R1"),
    ("C05", BMS, "tm.snaps(self.holds.tail_offset, snapper), self.holds.column", "tm.snaps(self.holds.offset, snapper), self.holds.column", B, "C05.R3"),
    ("C05", BMS, "[*hits, *hold_heads, *hold_tails, *bpms, *time_sigs]", "[*hits, *hold_heads, *bpms, *time_sigs]", B, "C05.R4"),
    ("C05", BMS, 'f"#{int(measure):03}"', 'f"#{int(measure):02}"', B, "C05.R5"),
    ("C05", BMS, "i.beat.denominator * i.metronome for", "i.beat.denominator for", B, "C05.R6"),
    ("C05", BMS, "df.num *= df.new_den / df.den", "df.num *= df.den / df.new_den", B, "C05.R6"),
    ("C05", BMS, "df.num *= df.new_den / df.den", "df.num = df.num * df.new_den / df.den", T, ""),
    ("C05", "reamber/base/lists/notes/HoldList.py", "return self.offset + self.length", "return self.offset + self.length - 1", B, "C05.D"),
    # ---- C06
    ("C06", "reamber/quaver/lists/notes/QuaHitList.py", "df.column += 1", "df.column += 0", B, "C06.R2"),
    ("C06", "reamber/quaver/lists/notes/QuaHoldList.py", "dict(offset=int, column=int, EndTime=int)", "dict(offset=int, column=int)", B, "C06.R3"),
    ("C06", "reamber/quaver/lists/QuaBpmList.py", '.drop("metronome", axis=1)', "", B, "C06.R3"),
    ("C06", "reamber/quaver/QuaMapMeta.py", '"DifficultyName": self.difficulty_name', '"DifficultyName": self.description', B, "C06.R1"),
    ("C06", "reamber/quaver/QuaMap.py", 'if "EndTime" not in n.keys():', 'if not n.get("EndTime"):', B, "C06.R4"),
    ("C06", "reamber/quaver/QuaHold.py", "EndTime=int(self.tail_offset)", "EndTime=int(self.length)", B, "C06.R2"),
    ("C06", "reamber/quaver/QuaMap.py", 'file = f.read().split("\\n")', "file = f.readlines()", B, "C06.R7"),
    ("C06", "reamber/quaver/lists/notes/QuaHitList.py", "        df.keysounds = df.keysounds.apply(lambda k: k if isinstance(k, list) else [])\n", "", B, "C06.R6"),
    # ---- C07
    ("C07", "reamber/o2jam/O2JMapSetMeta.py", "self.title = decode_replace(meta_fields[15])\n        self.artist = decode_replace(meta_fields[16])",
     "self.title = decode_replace(meta_fields[16])\n        self.artist = decode_replace(meta_fields[15])", B, "C07.R1"),
    ("C07", O2P, "pkg.channel - 2,", "pkg.channel - 1,", B, "C07.R3"),
    ("C07", O2P, "sub_measure = i / event_count + curr_measure", "sub_measure = (i + 1) / event_count + curr_measure", B, "C07.R5"),
    ("C07", O2P, "hold = hold_buffer.pop(column)", "hold = hold_buffer.pop(next(iter(hold_buffer)))", B, "C07.R4"),
    ("C07", "reamber/o2jam/O2JMap.py", "4 * (note_measure - measure) / bpm_val", "(note_measure - measure) / bpm_val", B, "C07.R8"),
    ("C07", O2P, 'unpack("<s", data[2 + i * 4 : 3 + i * 4])', 'unpack("<s", data[3 + i * 4 : 4 + i * 4])', B, "C07.R2"),
    ("C07", "reamber/o2jam/O2JMapSet.py", "b[300:], ms.package_count", "b[300:], ms.note_count", B, "C07.R7"),
    ("C07", O2P, "sub_measure = i / event_count + curr_measure", "sub_measure = curr_measure + i / event_count", T, ""),
    # ---- C08
    ("C08", "reamber/algorithms/convert/OsuToQua.py", "qua.svs = cls.cast(", "qua.sv = cls.cast(", B, "C08.R2"),
    ("C08", "reamber/algorithms/convert/ConvertBase.py", "val = val.to_numpy()", "val = val", B, "C08.R8"),
    # ---- C09
    ("C09", "reamber/algorithms/convert/BMSToOsu.py", "osu.circle_size = bms.stack().column.max() + 1", "osu.circle_size = bms.hits.column.max() + 1", B, "C09.R2"),
    ("C09", "reamber/algorithms/convert/QuaToOsu.py", "QuaMapMode.get_keys(qua.mode)", "SMMapChartTypes.get_keys(qua.mode)", B, "C09.R2"),
    ("C09", "reamber/algorithms/convert/BMSToSM.py", "bms.stack().column.max() + 1", "bms.stack().column.max()", B, "C09.R2"),
    ("C09", "reamber/algorithms/convert/OsuToSM.py", "sms.offset = osu.bpms.first_offset()", "sms.offset = 0.0", B, "C09.R4"),
    ("C09", "reamber/algorithms/convert/QuaToSM.py", "sms.offset = qua.bpms.first_offset()", "sms.offset = qua.stack().offset.min()", B, "C09.R4"),
    # ---- C10
    ("C10", TM, "return np.array(offsets)[sorter[::-1].argsort()]", "return np.array(offsets)[sorter.argsort()]", B, "C10.R1"),
    ("C10", TM, "for snap in reversed(snaps[sorter]):", "for snap in snaps[sorter]:", B, "C10.R1"),
    ("C10", TM, "return np.array(beats)[sorter.argsort()]", "return np.array(beats)[sorter]", B, "C10.R1"),
    ("C10", TM, "while bcs_s[bc_i].snap > snap:", "while bcs_s[bc_i].snap >= snap:", B, "C10.R1"),
    ("C10", "reamber/algorithms/timing/utils/from_bpm_changes_snap.py", "offset += diff_snap.offset(parent_bcs)", "offset += diff_snap.offset(child_bcs)", B, "C10.R4"),
    ("C10", "reamber/algorithms/timing/utils/snap.py", "self.measure == other.measure and self.beat < other.beat", "self.measure == other.measure and self.beat <= other.beat", B, "C10.R3"),
    ("C10", "reamber/algorithms/timing/utils/Snapper.py", "if left_diff < right_diff:", "if left_diff > right_diff:", B, "C10.R5"),
    ("C10", "reamber/algorithms/timing/utils/BpmChangeBase.py", "return self.beat_length * self.metronome", "return self.beat_length * 4", B, "C10.R4"),
    ("C10", TM, "return np.array(offsets)[sorter[::-1].argsort()]", "unsort = sorter[::-1].argsort()\n        return np.array(offsets)[unsort]", T, ""),
    ("C10", "reamber/algorithms/timing/utils/bpm_changes_offset_to_snap.py", "bco_s.sort(key=lambda x: x.offset)", "pass", T, ""),
    ("C10", "reamber/algorithms/timing/utils/from_bpm_changes_offset.py", "bco_s.sort(key=lambda x: x.offset)", "pass", T, ""),
    # ---- C12
    ("C12", "reamber/base/MapSet.py", "return pd.DataFrame([i[item] for i in self.stackers])", "return pd.DataFrame([i[item] for i in self.stackers if len(i._stacked) > 0])", B, "C12.R6"),
    # ---- C13
    ("C13", "reamber/base/Map.py", "stack.bpm *= by", "stack.bpm /= by", B, "C13.R2"),
    ("C13", "reamber/base/Map.py", "stack = copy.stack()", "stack = copy.stack((HitList, HoldList))", B, "C13.R2"),
    ("C13", "reamber/osu/OsuMap.py", "osu.preview_time /= by", "pass", B, "C13.R4"),
    ("C13", "reamber/base/MapSet.py", "copy.maps = [m.rate(by=by) for m in copy.maps]", "copy.maps = [m.rate(by=by) for m in copy.maps[:1]]", B, "C13.R3"),
    ("C13", "reamber/base/Map.py", "stack.offset /= by", "stack.offset = stack.offset / by", T, ""),
    ("C13", "reamber/base/Map.py", "obj.df = self._stacked[obj.df.columns].iloc[ix_i:ix_j]", "obj.df = self._stacked[obj.df.columns].iloc[ix_i:ix_j - 1]", B, "C13.D"),
    # ---- C14
    ("C14", "reamber/base/lists/TimedList.py", "        return max(self.offset)", "        self.df.sort_values('offset', inplace=True)\n        return max(self.offset)", B, "C14.R1"),
    ("C14", "reamber/algorithms/generate/sv_normalize.py", "df_bpm = m.bpms.df.copy()", "df_bpm = m.bpms.df", B, "C14.R1"),
    # ---- C15
    ("C15", FLN, '.sort_values(["offset"])', "", B, "C15.R2"),
    ("C15", "reamber/algorithms/analysis/scroll_speed.py", '        # Sort by Offset (due to head and tail out of order)\n        .sort_values("offset")', "", B, "C15.R2"),
    ("C15", BMS, "tm.snaps(self.hits.offset, snapper), self.hits.column, self.hits.sample", "tm.snaps(self.hits.sorted().offset, snapper), self.hits.column, self.hits.sample", B, "C15.R1"),
    ("C15", "reamber/sm/SMMapSetMeta.py", "zip(bpm_beats, self[0].bpms)", "zip(sorted(bpm_beats), self[0].bpms)", B, "C15.R1"),
    ("C15", "reamber/algorithms/utils/dominant_bpm.py", 'bpms = m.bpms.df.sort_values("offset", kind="stable")', "bpms = m.bpms.df", B, "C15.R1"),
    ("C15", "reamber/algorithms/utils/dominant_bpm.py", 'bpms = m.bpms.df.sort_values("offset", kind="stable")', "bpms = m.bpms.sorted().df", T, ""),
    ("C15", "reamber/algorithms/analysis/scroll_speed.py", '            # Make sure to sort offset before filling\n            .sort_values("offset")', "", T, ""),
    # ---- C16
    ("C16", "reamber/base/lists/TimedList.py", "self[self.offset >= offset] if include_end else self[self.offset > offset]", "self[self.offset > offset] if include_end else self[self.offset >= offset]", B, "C16.R6"),
    ("C16", "reamber/base/lists/TimedList.py", "self[self.offset <= offset] if include_end else self[self.offset < offset]", "self[self.offset <= offset]", B, "C16.R6"),
    ("C16", "reamber/base/lists/TimedList.py", "        return max(self.offset)", "        return self.offset.iloc[-1]", B, "C16.R3"),
    ("C16", "reamber/base/lists/TimedList.py", "                df[col_name] = pd.Series([default] * len(df), index=df.index)", "                df[col_name] = default", B, "C16.R8"),
    ("C16", "reamber/base/lists/TimedList.py", 'kind="stable"', 'kind="quicksort"', B, "C16.R4"),
    # ---- C17
    ("C17", FLN, "inv_length >= ln_as_hit_thres", "inv_length > ln_as_hit_thres", B, "C17.R2"),
    ("C17", FLN, 'dfg["offset"].diff().shift(-1)', 'dfg["offset"].diff()', B, "C17.R2"),
    ("C17", FLN, "inv_length = diff - gap", "inv_length = diff + gap", B, "C17.R2"),
    ("C17", FLN, "for offset, column, length, diff in dfg.itertuples(index=False):", "for offset, length, column, diff in dfg.itertuples(index=False):", B, "C17.R1"),
    ("C17", FLN, "m = m.deepcopy()", "m = m", B, "C17.R3"),
    ("C17", FLN, '.sort_values(["offset"])', '.sort_values(["offset"], ascending=False)', B, "C17.R2"),
    ("C17", FLN, 'dfg["offset"].diff().shift(-1)', 'dfg["offset"].shift(-1) - dfg["offset"]', T, ""),
    # ---- C18
    ("C18", HSC, "                    continue\n                log.debug(f\"Slotted Hitsound {file}", "                    break\n                log.debug(f\"Slotted Hitsound {file}", B, "C18.R3"),
    ("C18", HSC, 'df = df.sort_values("offset").reset_index(drop=True)\n    df_to_offsets', 'df = df.sort_values("offset")\n    df_to_offsets', B, "C18.R2"),
    ("C18", HSC, 'osu_tgt.hits.df = df[np.isnan(df.length)].drop("length", axis=1)', 'osu_tgt.hits.df = df[~np.isnan(df.length)].drop("length", axis=1)', B, "C18.R2"),
    ("C18", HSC, "osu_tgt = deepcopy(osu_tgt)", "osu_tgt = osu_tgt", B, "C18.R1"),
    ("C18", "reamber/osu/OsuMap.py", '                notes.hitsound_file = ""', "                pass", B, "C18.R4"),
    ("C18", HSC, 'df_src["hitsound_set"] = df_src["hitsound_set"].astype(int)', "pass", B, "C18.R5"),
    # ---- C19
    ("C19", "reamber/algorithms/generate/sv_normalize.py", 'bpm_dom / df_bpm["bpm"]', 'df_bpm["bpm"] / bpm_dom', B, "C19.R3"),
    ("C19", "reamber/algorithms/analysis/scroll_speed.py", '.groupby("offset").last()', '.groupby("offset").first()', B, "C19.R2"),
    ("C19", "reamber/algorithms/analysis/scroll_speed.py", "bpm = override_bpm if override_bpm else dominant_bpm(m)", "bpm = dominant_bpm(m)", B, "C19.R4"),
    ("C19", "reamber/algorithms/utils/dominant_bpm.py", "s = m.stack()", "s = m.stack((HitList,))", B, "C19.R1"),
    ("C19", "reamber/algorithms/generate/sv_normalize.py", "df_bpm = m.bpms.df.copy()", 'df_bpm = m.bpms.df.drop_duplicates("bpm").copy()', B, "C19.R3"),
    # ---- C20
    ("C20", PTN, ').sort_values("offset", ignore_index=True)', ').sort_values("offset")', B, "C20.R1"),
    ("C20", PTN, "df_groups.append(ar_ungrouped[mask])", "df_groups.append(ar[mask])", B, "C20.R2"),
    ("C20", "reamber/algorithms/pattern/combos/PtnCombo.py", "range(size, len(self.groups) + 1),", "range(size, len(self.groups)),", B, "C20.R3"),
    ("C20", "reamber/algorithms/pattern/combos/PtnCombo.py", 'combos = combos[type_filter(combos["type"])]', 'combos = combos[type_filter(combos["column"])]', B, "C20.R3"),
    ("C20", PTN, 'mask[abs(column - ar["column"]) <= h_window] = True', 'mask[abs(column - ar["column"]) < h_window] = True', B, "C20.R2"),
    ("C20", "reamber/algorithms/pattern/filters/PtnFilter.py", "AND_HIGHER: int = 2**2", "AND_HIGHER: int = 3", B, "C20.R4"),
    ("C20", PTN, "end = bisect_right(offsets, offset + v_window, lo=start)", "end = bisect_left(offsets, offset + v_window, lo=start)", B, "C20.R2"),
    ("C20", "reamber/algorithms/pattern/filters/PtnFilter.py", "is_in = bool(np.any(np.all(self.ar == np.asarray(data), axis=1)))", "is_in = data in self.ar", B, "C20.R4"),
    ("C20", "reamber/base/Hold.py", "import item_props\n\n\n@item_props()\nclass HoldTail(Note):", "import item_props\nfrom reamber.base.Hit import Hit\n\n\n@item_props()\nclass HoldTail(Hit):", B, "C20.R6"),
    ("C20", "reamber/base/Hold.py", "import item_props\n\n\n@item_props()\nclass HoldTail(Note):", "import item_props\nfrom reamber.base.Timed import Timed\n\n\n@item_props()\nclass HoldTail(Timed):", T, ""),
    ("C06", "reamber/quaver/QuaNoteMeta.py", '_props = dict(keysounds=["object", []])', '_props = dict(keysounds=["object", None])', B, "C06.R3"),
    ("C06", "reamber/algorithms/generate/sv_normalize.py", "return SvList(df_bpm.loc[:, SvList([]).df.columns])", 'return SvList(df_bpm.drop(columns="bpm"))', B, "C06.R9"),
    # ---- rules added after seeding round 3 (overrides, generated accessors, hidden state, units, paired tables, cells)
    ("C16", "reamber/base/lists/notes/NoteList.py", '    """Extends from the TimedList to give more base functions to Notes"""\n\n    ...', '    """Extends from the TimedList to give more base functions to Notes"""\n\n    def sorted(self, reverse: bool = False):\n        return self.__class__(self.df.sort_values(["offset", "column"], ascending=not reverse))', B, "C16.R12"),
    ("C16", "reamber/base/lists/notes/NoteList.py", '    """Extends from the TimedList to give more base functions to Notes"""\n\n    ...', '    """Extends from the TimedList to give more base functions to Notes"""\n\n    def sorted(self, reverse: bool = False):\n        return super().sorted(reverse=reverse)', T, ""),
    ("C16", "reamber/base/Property.py", "            def setter(self, val, k_=k):\n                self.df[k_] = val", "            def setter(self, val, k_=k):\n                if hasattr(val, '__len__') and len(val) == 0:\n                    return\n                self.df[k_] = val", B, "C16.R11"),
    ("C16", "reamber/base/Property.py", "            def setter(self, val, k_=k):\n                self.df[k_] = val", "            def setter(self, val, k_=k):\n                self.df[k_] = val.astype(self.df[k_].dtype) if hasattr(val, 'astype') else val", B, "C16.R11"),
    ("C16", "reamber/base/Property.py", "                self.objs[k_].df = val.df", "                df = val.df\n                self.objs[k_].df = df", T, ""),
    ("C16", "reamber/base/Property.py", "                self.objs[k_].df = val.df", "                self.objs[k_].df = val.df.astype(self.objs[k_].df.dtypes.to_dict())", B, "C16.R11"),
    ("C16", "reamber/osu/OsuSample.py", "offset=offset, sample_file=sample_file, volume=volume, **kwargs", "offset=int(offset), sample_file=sample_file, volume=volume, **kwargs", B, "C16.R7"),
    ("C16", "reamber/base/lists/TimedList.py", "        self._df = value", "        self._df = value.reset_index(drop=True)", B, "C16.R12"),
    ("C16", "reamber/base/lists/TimedList.py", "        first = self.first_offset()\n", "        first = self.offset.iloc[0]\n", B, "C16.R3"),
    ("C12", "reamber/osu/OsuMap.py", "    def rate(self, by: float):", "    def stack(self, include_types=None):\n        objs = [*self.objs.values(), self.samples]\n        return self.Stacker(objs)\n\n    def rate(self, by: float):", B, "C12.R5"),
    ("C12", "reamber/osu/OsuMap.py", "    def rate(self, by: float):", "    def deepcopy(self):\n        return self\n\n    def rate(self, by: float):", B, "C12.R9"),
    ("C12", "reamber/osu/OsuMap.py", "    def rate(self, by: float):", "    def deepcopy(self):\n        return super().deepcopy()\n\n    def rate(self, by: float):", T, ""),
    ("C19", "reamber/osu/OsuMap.py", "    def rate(self, by: float):", "    def stack(self, include_types=None):\n        objs = [*self.objs.values(), self.samples]\n        return self.Stacker(objs)\n\n    def rate(self, by: float):", B, "C19.D"),
    ("C14", "reamber/base/lists/notes/HoldList.py", "        return self.offset + self.length", "        if getattr(self, '_t', None) is None:\n            self._t = self.offset + self.length\n        return self._t", B, "C14.R4"),
    ("C14", "reamber/quaver/lists/notes/QuaHitList.py", "        df = self.df.copy()\n        df.column += 1", "        df = self.df.copy()\n        for ks in df.keysounds:\n            ks.clear()\n        df.column += 1", B, "C14.R5"),
    ("C14", "reamber/quaver/lists/notes/QuaHitList.py", "        df = self.df.copy()\n        df.column += 1", "        df = self.df.copy()\n        df['keysounds'] = [list(ks) for ks in df.keysounds]\n        df.column += 1", T, ""),
    ("C10", "reamber/base/RAConst.py", "return float(msecs * RAConst.MSEC_TO_SEC)", "return round(msecs * RAConst.MSEC_TO_SEC, 3)", B, "C10.R8"),
    ("C10", "reamber/base/RAConst.py", "return float(msecs * RAConst.MSEC_TO_SEC)", "return float(RAConst.MSEC_TO_SEC * msecs)", T, ""),
    ("C10", "reamber/base/RAConst.py", "return float(mins * RAConst.MIN_TO_MSEC)", "return mins * RAConst.MIN_TO_MSEC", T, ""),  # harmless since fix F31 (the setter no longer casts)
    ("C10", "reamber/base/RAConst.py", "    SEC_TO_MSEC: float = 1000.0", "    SEC_TO_MSEC: float = 100.0", B, "C10.R8"),
    ("C10", "reamber/algorithms/timing/utils/BpmChangeBase.py", "return RAConst.MIN_TO_MSEC / self.bpm", "return RAConst.MIN_TO_MSEC / max(self.bpm, 1)", B, "C10.R4"),
    ("C10", "reamber/algorithms/timing/utils/bpm_changes_offset_to_snap.py", "        bcs_s.append(\n", "        if snap != bcs_s[-1].snap: bcs_s.append(\n", B, "C10.R9"),
    ("C03", "reamber/base/RAConst.py", "return float(msecs * RAConst.MSEC_TO_SEC)", "return round(msecs * RAConst.MSEC_TO_SEC, 3)", B, "C03.D"),
    ("C03", "reamber/sm/SMMapMeta.py", "        elif chart == SMMapChartTypes.DANCE_THREEPANEL:\n            return 3", "        elif chart == SMMapChartTypes.DANCE_THREEPANEL:\n            return 4", B, "C03.D"),
    ("C08", "reamber/quaver/QuaMapMeta.py", "        elif s == QuaMapMode.KEYS_8:\n            return 8", "        elif s == QuaMapMode.KEYS_8:\n            return 7", B, "C08.R9"),
    ("C02", "reamber/sm/SMMap.py", "                            key_sounds[col].append(snap_obj)\n                        snap_set.add(snap_obj)", "                            key_sounds[col].append(snap_obj)\n                            snap_set.add(snap_obj)", B, "C02.R10"),
    ("C02", "reamber/base/RAConst.py", "return float(secs * RAConst.SEC_TO_MSEC)", "return float(round(secs * RAConst.SEC_TO_MSEC))", B, "C02.D"),
    ("C07", "reamber/o2jam/O2JMap.py", "        events = [event for pkg in pkgs for event in pkg.events]\n        events.sort(key=lambda x: x.measure)", "        pkgs = sorted(pkgs, key=lambda x: x.measure)\n        events = [event for pkg in pkgs for event in pkg.events]", B, "C07.R9"),
    ("C07", "reamber/o2jam/O2JMap.py", "        events.sort(key=lambda x: x.measure)", "        events = sorted(events, key=lambda x: x.measure)", T, ""),
    ("C07", "reamber/base/RAConst.py", "return float(mins * RAConst.MIN_TO_MSEC)", "return mins * RAConst.MIN_TO_MSEC", T, ""),  # harmless since fix F31
    ("C07", "reamber/base/Property.py", "            def setter(self, val, k_=k):\n                self.data[k_] = val", "            def setter(self, val, k_=k):\n                self.data[k_] = val.astype(self.data[k_].dtype) if hasattr(val, 'astype') else val", B, "C07.D"),
    ("C13", "reamber/quaver/lists/notes/QuaHoldList.py", "        df = self.df.copy()\n        df[\"EndTime\"]", "        df = self.df.astype(dict(offset=int, length=int))\n        df[\"EndTime\"]", B, "C13.D"),
    ("C09", "reamber/quaver/lists/notes/QuaHitList.py", "        df = self.df.copy()\n        df.column += 1", "        df = self.df\n        df.column += 1", B, "C09.D"),
    ("C01", "reamber/osu/OsuSampleSet.py", '        elif sample_set == "Drum":\n            return OsuSampleSet.DRUM', '        elif sample_set == "Drum":\n            return OsuSampleSet.SOFT', B, "C01.R1"),
    ("C07", "reamber/o2jam/O2JMap.py", "bpms[bpm_ix + 1].measure <= note_measure", "bpms[bpm_ix].measure <= note_measure", B, "C07.R10"),
    ("C07", "reamber/o2jam/O2JMap.py", "bpms[bpm_ix + 1].measure <= note_measure", "bpms[bpm_ix + 1].measure < note_measure", T, ""),
    ("C07", "reamber/o2jam/O2JMap.py", "bpms[bpm_ix + 1].measure <= note_measure", "note_measure >= bpms[bpm_ix + 1].measure", T, ""),
    ("C07", "reamber/o2jam/O2JMap.py", "while bpm_ix + 1 < len(bpms) and", "while bpm_ix < len(bpms) and", B, "C07.R10"),
    ("C07", "reamber/o2jam/O2JMap.py", "        for bpm in bpms[bpm_ix + 1 :]:", "        for bpm in bpms[:0]:", B, "C07.R10"),
    ("C07", "reamber/o2jam/O2JMap.py", "        bpm_ix = -1", "        bpm_ix = 0", B, "C07.R10"),
    ("C06", "reamber/quaver/QuaMap.py", 'm._read_svs(file.pop("SliderVelocities", None) or [])', 'm._read_svs(file.pop("SliderVelocities"))', B, "C06.R5"),
    ("C06", "reamber/quaver/QuaMap.py", 'm._read_svs(file.pop("SliderVelocities", None) or [])', 'm._read_svs(file.pop("SliderVelocities", []))', T, ""),
    ("C06", "reamber/quaver/lists/notes/QuaHitList.py", 'df = df.reindex(["offset", "column", "keysounds"], axis=1)', 'df = df.reindex(df.columns.union(["offset", "column", "keysounds"], sort=False), axis=1)', B, "C06.R10"),
    ("C06", "reamber/quaver/QuaMapMeta.py", "initial_scroll_velocity: float = 1.0", 'initial_scroll_velocity: float = ""', B, "C06.R12"),
    ("C06", "reamber/quaver/QuaMapMeta.py", "initial_scroll_velocity: float = 1.0", "initial_scroll_velocity: float = 1", T, ""),
    ("C06", "reamber/quaver/QuaMapMeta.py", 'str(d.get("Tags") or "").split(" ")', 'd.get("Tags", "").split(" ")', B, "C06.R11"),
    ("C06", "reamber/quaver/QuaMapMeta.py", 'str(d.get("Tags") or "").split(" ")', 'str(d.get("Tags")).split(" ")', B, "C06.R11"),
]
