"""Demo for change 1: TimingMap.snaps (and its callers beats / round trip).

Prints one line `DIGEST <hex>`: sha256 over a canonical dump of every result.
"""
import hashlib
import random
from copy import deepcopy
from fractions import Fraction

import numpy as np
import pandas as pd

from reamber.algorithms.timing.TimingMap import TimingMap
from reamber.algorithms.timing.utils.BpmChangeOffset import BpmChangeOffset
from reamber.algorithms.timing.utils.BpmChangeSnap import BpmChangeSnap
from reamber.algorithms.timing.utils.Snapper import Snapper
from reamber.algorithms.timing.utils.snap import Snap
from reamber.base.Bpm import Bpm
from reamber.base.lists.BpmList import BpmList

random.seed(1010)
OUT = []


def emit(*parts):
    OUT.append(" | ".join(str(p) for p in parts))


def t(v):
    return f"{type(v).__module__}.{type(v).__name__}:{v!r}"


def dump_snap(s):
    return f"Snap({t(s.measure)}, {t(s.beat)}, {t(s.metronome)})"


def dump_arr(a):
    if not isinstance(a, np.ndarray):
        return t(a)
    items = [dump_snap(x) if isinstance(x, Snap) else t(x) for x in a]
    return f"ndarray dtype={a.dtype} shape={a.shape} [{'; '.join(items)}]"


def dump_bcos(bcos):
    return "[" + "; ".join(f"{t(b.bpm)},{t(b.metronome)},{t(b.offset)}" for b in bcos) + "]"


def attempt(label, fn):
    try:
        r = fn()
    except Exception as e:  # noqa
        emit(label, "EXC", type(e).__name__)
        return None
    emit(label, dump_arr(r))
    return r


def dump_input(q):
    if isinstance(q, pd.Series):
        return f"Series dtype={q.dtype} index={list(q.index)} values={[t(x) for x in q]}"
    if isinstance(q, np.ndarray):
        return dump_arr(q)
    return f"{type(q).__name__} {[t(x) for x in q]}"


BPMS = [60, 90, 120, 150, 174.5, 200, 222.22, 60000, 1, 0.5, 333, 100, 140, 180, 7.25]
snapper = Snapper()
snapper12 = Snapper(divisions=(1, 2, 3, 4, 6, 12))


def random_tm(const_metronome):
    n = random.randint(1, 6)
    init = random.choice([0, 0.0, -1500.0, -37.5, 250, 1234.567, -0.0, 100000.0])
    metro = random.randint(1, 8)
    kind = random.choice(["offset_grid", "offset_free", "snap"])
    if kind == "snap":
        bcs = []
        measure = 0
        for i in range(n):
            m = metro if const_metronome else random.randint(1, 8)
            bcs.append(BpmChangeSnap(random.choice(BPMS), m, Snap(measure, 0, m)))
            measure += random.randint(0 if i else 1, 5)
        random.shuffle(bcs)
        return TimingMap.from_bpm_changes_snap(init, bcs), kind
    bcos = []
    off = init
    for i in range(n):
        m = metro if const_metronome else random.randint(1, 8)
        bpm = random.choice(BPMS)
        bcos.append(BpmChangeOffset(bpm, m, off))
        beat_len = 60000 / bpm
        if kind == "offset_grid":
            off = off + beat_len * m * random.randint(0, 4) + beat_len * random.choice(
                [0, 0, 1, 0.5, 0.25, 1 / 3]
            )
        else:
            off = off + random.choice([0, 1, 333.3, 1000, 12345.678, beat_len * 2.7])
    random.shuffle(bcos)
    return TimingMap.from_bpm_changes_offset(bcos), kind


def random_queries(tm):
    bcos = sorted(tm.bpm_changes_offset, key=lambda b: b.offset)
    first = bcos[0].offset
    last = bcos[-1].offset
    k = random.choice([0, 1, 2, 5, 12, 25])
    qs = []
    for _ in range(k):
        c = random.random()
        if c < 0.25:
            # exactly on a bpm change
            qs.append(random.choice(bcos).offset)
        elif c < 0.55:
            # on the snap grid of some segment
            b = random.choice(bcos)
            d = random.choice([1, 2, 3, 4, 6, 8, 12, 16])
            qs.append(b.offset + (60000 / b.bpm) * random.randint(0, 40) / d)
        elif c < 0.8:
            qs.append(first + random.random() * (last - first + 5000))
        elif c < 0.9 and qs:
            qs.append(random.choice(qs))  # duplicate
        else:
            qs.append(last + random.random() * 1e5)
    qs = [q for q in qs if q >= first]
    random.shuffle(qs)
    return qs


def as_container(qs):
    c = random.choice(["list", "ndarray", "series", "tuple", "intlist"])
    if c == "list":
        return list(qs)
    if c == "ndarray":
        return np.array(qs, dtype=float)
    if c == "series":
        return pd.Series(qs, dtype=float, index=range(10, 10 + len(qs)))
    if c == "tuple":
        return tuple(qs)
    return [int(np.ceil(q)) for q in qs]


def run_case(i, const_metronome):
    tm, kind = random_tm(const_metronome)
    emit("CASE", i, kind, "const" if const_metronome else "var")
    emit("bco before", dump_bcos(tm.bpm_changes_offset))
    qs = as_container(random_queries(tm))
    keep = deepcopy(qs)
    sn = random.choice([snapper, snapper, snapper12])
    emit("query", dump_input(qs))
    snaps = attempt("snaps", lambda: tm.snaps(qs, sn))
    emit("query after", dump_input(qs), "same" if dump_input(qs) == dump_input(keep) else "CHANGED")
    emit("bco after", dump_bcos(tm.bpm_changes_offset))
    emit("bcs", "; ".join(f"{t(b.bpm)},{t(b.metronome)},{dump_snap(b.snap)}" for b in tm.bpm_changes_snap()))
    if snaps is not None:
        back = attempt("offsets(snaps)", lambda: tm.offsets(list(snaps)))
        if back is not None and len(back):
            again = attempt("snaps(offsets(snaps))", lambda: tm.snaps(back, sn))
            if again is not None:
                emit("idempotent", all(a == b for a, b in zip(again, snaps)))
    if const_metronome:
        attempt("beats", lambda: tm.beats(qs, sn))
    for q in list(qs)[:3]:
        try:
            bco, bcs = tm.get_active_bpm_by_offset(q)
            emit("active", t(q), t(bco.offset), dump_snap(bcs.snap))
        except Exception as e:  # noqa
            emit("active", "EXC", type(e).__name__)


for i in range(70):
    run_case(i, const_metronome=(i % 2 == 0))

# --- fixed edge cases ---------------------------------------------------
tm1 = TimingMap.from_bpm_changes_offset([BpmChangeOffset(60000, 4, 0)])
for qs in ([0, 1, 2], [2, 1, 0], [0, 0, 0], [1, 1, 1], [], [5], [0.5, 0.25, 7.75, 0.25], (3, 3)):
    attempt(f"tm1 snaps {qs}", lambda: tm1.snaps(qs, snapper))
    attempt(f"tm1 beats {qs}", lambda: tm1.beats(qs, snapper))
attempt("tm1 snaps ndarray empty", lambda: tm1.snaps(np.array([]), snapper))
attempt("tm1 snaps series empty", lambda: tm1.snaps(pd.Series([], dtype=float), snapper))

# ties between bpm changes (two changes on the same offset) and queries on them
tm2 = TimingMap.from_bpm_changes_offset(
    [
        BpmChangeOffset(120, 4, 2000.0),
        BpmChangeOffset(60, 3, -1000.0),
        BpmChangeOffset(240, 5, 2000.0),
        BpmChangeOffset(100, 8, 8000.0),
    ]
)
attempt("tm2 snaps", lambda: tm2.snaps([8000.0, 2000.0, -1000.0, 1999.999, 2000.001, 7999.5, 2000.0, 123456.0], snapper))
attempt("tm2 snaps before first", lambda: tm2.snaps([0.0, -1000.1], snapper))
attempt("tm2 snaps all before first", lambda: tm2.snaps([-5000.0], snapper))
emit("tm2 bco", dump_bcos(tm2.bpm_changes_offset))

# negative initial offset, negative queries
tm3 = TimingMap.from_bpm_changes_snap(
    -3000,
    [
        BpmChangeSnap(150, 4, Snap(0, 0, 4)),
        BpmChangeSnap(75, 7, Snap(3, 0, 7)),
        BpmChangeSnap(300, 2, Snap(5, 0, 2)),
    ],
)
grid = [Snap(m, Fraction(b, d), 4) for m in range(0, 9) for b, d in ((0, 1), (1, 2), (2, 3), (5, 4))]
random.shuffle(grid)
offs = attempt("tm3 offsets(grid)", lambda: tm3.offsets(grid))
attempt("tm3 snaps(offsets(grid))", lambda: tm3.snaps(offs, snapper))
attempt("tm3 snaps neg", lambda: tm3.snaps([-3000, -2999, -1, 0, -1500.5, -3000], snapper))

# via BpmList (numpy-typed bpm / metronome / offset columns)
bl = BpmList([Bpm(500, 120, 4), Bpm(-700, 90, 4), Bpm(4500, 180.5, 4)])
tm4 = bl.to_timing_map()
attempt("tm4 snaps", lambda: tm4.snaps(bl.offset, snapper))
attempt("tm4 snaps 2", lambda: tm4.snaps(pd.Series([4500, -700, 0, 9999, 500, 500]), snapper))
attempt("tm4 beats", lambda: tm4.beats(pd.Series([4500, -700, 0, 9999, 500, 500]), snapper))
print("DIGEST", hashlib.sha256("\n".join(OUT).encode()).hexdigest())
