"""Demo for property C13 (rate change).

Generates a broad, deterministic set of charts / mapsets of all five games
(synthetic ones with empty lists, ties, unsorted rows, negative offsets, int and
float columns, several key counts; plus a few files shipped with the repository),
rates them, composes rates, writes the rated chart and reads it back, and also
drives the ``Map.Stacker`` machinery that ``rate`` is built on directly.

Everything observable (values bit-exact via float.hex, dtypes, column order, row
labels, meta fields, raised exception types, inputs after the call) goes into one
canonical text dump; its sha256 is printed as ``DIGEST <hex>``.
"""
import dataclasses
import hashlib
import math
import random
import sys
import warnings
from pathlib import Path

import numpy as np
import pandas as pd

import logging

warnings.simplefilter("ignore")
logging.disable(logging.CRITICAL)

from reamber.base.Map import Map
from reamber.base.MapSet import MapSet
from reamber.base.Hit import Hit
from reamber.base.Hold import Hold
from reamber.base.Bpm import Bpm
from reamber.base.lists.BpmList import BpmList
from reamber.base.lists.TimedList import TimedList
from reamber.base.lists.notes.HitList import HitList
from reamber.base.lists.notes.HoldList import HoldList
from reamber.base.lists.notes.NoteList import NoteList
from reamber.osu import OsuMap, OsuHit, OsuHold, OsuBpm, OsuSv
from reamber.osu.OsuSample import OsuSample
from reamber.osu.lists import OsuBpmList, OsuSvList, OsuSampleList
from reamber.osu.lists.notes import OsuHitList, OsuHoldList
from reamber.quaver import QuaMap, QuaHit, QuaHold, QuaBpm, QuaSv
from reamber.quaver.lists import QuaBpmList, QuaSvList
from reamber.quaver.lists.notes import QuaHitList, QuaHoldList
from reamber.bms import BMSMap, BMSHit, BMSHold, BMSBpm
from reamber.bms.lists import BMSBpmList
from reamber.bms.lists.notes import BMSHitList, BMSHoldList
from reamber.o2jam import O2JMapSet, O2JMap, O2JHit, O2JHold, O2JBpm
from reamber.o2jam.lists import O2JBpmList
from reamber.o2jam.lists.notes import O2JHitList, O2JHoldList
from reamber.sm import (
    SMMapSet, SMMap, SMHit, SMHold, SMBpm, SMStop, SMMine, SMRoll, SMFake, SMLift,
    SMKeySound,
)
from reamber.sm.lists import SMBpmList, SMStopList
from reamber.sm.lists.notes import (
    SMHitList, SMHoldList, SMMineList, SMRollList, SMFakeList, SMLiftList,
    SMKeySoundList,
)

ROOT = Path(__file__).resolve().parent
if not (ROOT / "rsc").exists():
    ROOT = Path.cwd()
RSC = ROOT / "rsc" / "maps"
UT = ROOT / "tests" / "unit_tests"

OUT = []


def emit(*parts):
    OUT.append(" ".join(str(p) for p in parts))


# --------------------------------------------------------------- canonical dump
def cell(v):
    if isinstance(v, (float, np.floating)):
        v = float(v)
        return "f:nan" if math.isnan(v) else "f:" + v.hex()
    if isinstance(v, (bool, np.bool_)):
        return "b:" + str(bool(v))
    if isinstance(v, (int, np.integer)):
        return "i:" + str(int(v))
    if isinstance(v, (list, tuple)):
        return type(v).__name__ + "[" + ",".join(cell(i) for i in v) + "]"
    if isinstance(v, TimedList):
        return "TL<" + dump_df_str(v.df, type(v).__name__) + ">"
    if isinstance(v, pd.DataFrame):
        return "DF<" + dump_df_str(v, "") + ">"
    if isinstance(v, pd.Series):
        return "S<%s|%s|%s|%s>" % (
            v.name, v.dtype, list(v.index), ",".join(cell(i) for i in v.tolist()))
    if isinstance(v, np.ndarray):
        return "A<%s|%s>" % (v.dtype, ",".join(cell(i) for i in v.tolist()))
    if dataclasses.is_dataclass(v) and not isinstance(v, type):
        return type(v).__name__ + "(" + dump_fields(v) + ")"
    return type(v).__name__ + ":" + repr(v)


def dump_df_str(df, name):
    rows = []
    for tup in df.itertuples(index=True, name=None):
        rows.append("(" + ",".join(cell(c) for c in tup) + ")")
    return "%s cols=%s dtypes=%s index=%s/%s rows=%s" % (
        name,
        list(df.columns),
        [str(t) for t in df.dtypes],
        type(df.index).__name__,
        [cell(i) for i in df.index],
        ";".join(rows),
    )


def dump_fields(obj):
    parts = []
    for f in dataclasses.fields(obj):
        if f.name in ("objs", "maps"):
            continue
        parts.append("%s=%s" % (f.name, cell(getattr(obj, f.name))))
    return ",".join(parts)


def dump_map(tag, m):
    emit(tag, "class", type(m).__name__)
    emit(tag, "meta", dump_fields(m))
    emit(tag, "objkeys", list(m.objs.keys()))
    for k, v in m.objs.items():
        emit(tag, "obj", k, dump_df_str(v.df, type(v).__name__))
    # extra attributes set by hand (e.g. samples live in the osu meta)


def dump_set(tag, ms):
    emit(tag, "class", type(ms).__name__, "n", len(ms.maps),
         "mapscontainer", type(ms.maps).__name__)
    if dataclasses.is_dataclass(ms):
        emit(tag, "meta", dump_fields(ms))
    for i, m in enumerate(ms.maps):
        dump_map("%s[%d]" % (tag, i), m)


def dump_any(tag, x):
    if isinstance(x, MapSet):
        dump_set(tag, x)
    elif isinstance(x, Map):
        dump_map(tag, x)
    else:
        emit(tag, cell(x))


def attempt(tag, fn):
    """Runs fn, dumps its result or the exception type."""
    try:
        res = fn()
    except BaseException as e:  # noqa
        emit(tag, "RAISED", type(e).__name__)
        return None
    dump_any(tag, res)
    return res


# ------------------------------------------------------------------- generators
def rnd_offsets(rng, n, style):
    if style == "int":
        return [rng.randrange(-2000, 200000) for _ in range(n)]
    if style == "grid":  # many ties
        return [float(rng.randrange(0, 12) * 250) for _ in range(n)]
    if style == "neg":
        return [rng.uniform(-50000, 1000) for _ in range(n)]
    return [rng.uniform(0, 180000) for _ in range(n)]


def rnd_bpm(rng):
    return rng.choice([60, 90.5, 120, 150.25, 174, 200, 222.22, 300, 0.5, 1000.0])


def rnd_len(rng, style):
    if style == "int":
        return rng.randrange(0, 5000)
    return rng.choice([0.0, rng.uniform(1, 4000), 125.0, 1e-3])


def gen_base_map(rng, style, nh, nl, nb):
    m = Map()
    keys = rng.choice([1, 4, 7, 10])
    m.hits = HitList([Hit(o, rng.randrange(keys)) for o in rnd_offsets(rng, nh, style)])
    m.holds = HoldList([Hold(o, rng.randrange(keys), rnd_len(rng, style))
                        for o in rnd_offsets(rng, nl, style)])
    m.bpms = BpmList([Bpm(o, rnd_bpm(rng)) for o in rnd_offsets(rng, nb, style)])
    return m


def gen_osu_map(rng, style, nh, nl, nb, ns, nsmp):
    m = OsuMap()
    keys = rng.choice([4, 5, 7, 8, 10])
    m.circle_size = float(keys) if rng.random() < 0.7 else keys
    m.title = "t%d" % rng.randrange(1000)
    m.title_unicode = "タイトル%d" % rng.randrange(10)
    m.artist = "art"
    m.version = "v%d" % rng.randrange(10)
    m.creator = "me"
    m.tags = ["a", "b"]
    m.audio_file_name = "audio.mp3"
    m.preview_time = rng.choice([-1, 0, 1, 12345, 99999, 777.5, -5])
    m.hits = OsuHitList([
        OsuHit(o, rng.randrange(keys), rng.randrange(4), rng.randrange(4),
               rng.randrange(4), rng.randrange(3), rng.randrange(101),
               rng.choice(["", "hit.wav"]))
        for o in rnd_offsets(rng, nh, style)])
    m.holds = OsuHoldList([
        OsuHold(o, rng.randrange(keys), rnd_len(rng, style), rng.randrange(4),
                rng.randrange(4), rng.randrange(4), rng.randrange(3),
                rng.randrange(101), rng.choice(["", "ln.wav"]))
        for o in rnd_offsets(rng, nl, style)])
    m.bpms = OsuBpmList([
        OsuBpm(o, rnd_bpm(rng), rng.choice([3, 4, 7]), rng.randrange(4),
               rng.randrange(3), rng.randrange(101), rng.random() < 0.3)
        for o in rnd_offsets(rng, nb, style)])
    m.svs = OsuSvList([
        OsuSv(o, rng.choice([0.1, 0.5, 1.0, 1.5, 2.0, 10.0]), 4, rng.randrange(4),
              rng.randrange(3), rng.randrange(101), rng.random() < 0.3)
        for o in rnd_offsets(rng, ns, style)])
    m.samples = OsuSampleList([
        OsuSample(o, "s%d.wav" % rng.randrange(5), rng.randrange(101))
        for o in rnd_offsets(rng, nsmp, style)])
    return m


def gen_qua_map(rng, style, nh, nl, nb, ns):
    m = QuaMap()
    keys = rng.choice([4, 7])
    m.mode = "Keys4" if keys == 4 else "Keys7"
    m.title = "q%d" % rng.randrange(100)
    m.song_preview_time = rng.randrange(0, 10000)
    m.hits = QuaHitList([QuaHit(o, rng.randrange(keys), rng.choice([[], ["k.wav"]]))
                         for o in rnd_offsets(rng, nh, style)])
    m.holds = QuaHoldList([QuaHold(o, rng.randrange(keys), rnd_len(rng, style), [])
                           for o in rnd_offsets(rng, nl, style)])
    m.bpms = QuaBpmList([QuaBpm(o, rnd_bpm(rng)) for o in rnd_offsets(rng, nb, style)])
    m.svs = QuaSvList([QuaSv(o, rng.choice([0.25, 1.0, 3.0]))
                       for o in rnd_offsets(rng, ns, style)])
    return m


def gen_bms_map(rng, style, nh, nl, nb):
    m = BMSMap()
    m.title = b"bms"
    m.hits = BMSHitList([BMSHit(o, rng.randrange(7), rng.choice([b"", b"01", b"ZZ"]))
                         for o in rnd_offsets(rng, nh, style)])
    m.holds = BMSHoldList([BMSHold(o, rng.randrange(7), rnd_len(rng, style), b"0A")
                           for o in rnd_offsets(rng, nl, style)])
    m.bpms = BMSBpmList([BMSBpm(o, rnd_bpm(rng)) for o in rnd_offsets(rng, nb, style)])
    return m


def gen_o2j_set(rng, style, sizes):
    ms = O2JMapSet()
    ms.maps = []
    for nh, nl, nb in sizes:
        m = O2JMap()
        m.hits = O2JHitList([O2JHit(o, rng.randrange(7), rng.randrange(16),
                                    rng.randrange(16))
                             for o in rnd_offsets(rng, nh, style)])
        m.holds = O2JHoldList([O2JHold(o, rng.randrange(7), rnd_len(rng, style))
                               for o in rnd_offsets(rng, nl, style)])
        m.bpms = O2JBpmList([O2JBpm(o, rnd_bpm(rng))
                             for o in rnd_offsets(rng, nb, style)])
        ms.maps.append(m)
    return ms


def gen_sm_set(rng, style, sizes, offset):
    ms = SMMapSet()
    ms.title = "sm%d" % rng.randrange(100)
    ms.artist = "a"
    ms.music = "m.ogg"
    ms.offset = offset
    ms.sample_start = rng.choice([0.0, 1000.0, 33333.3, 5])
    ms.sample_length = rng.choice([10.0, 10000.0, 12345.6, 7])
    ms.maps = []
    for nh, nl, nb, nst in sizes:
        m = SMMap()
        keys = 4
        m.hits = SMHitList([SMHit(o, rng.randrange(keys))
                            for o in rnd_offsets(rng, nh, style)])
        m.holds = SMHoldList([SMHold(o, rng.randrange(keys), rnd_len(rng, style))
                              for o in rnd_offsets(rng, nl, style)])
        m.bpms = SMBpmList([SMBpm(o, rnd_bpm(rng)) for o in rnd_offsets(rng, nb, style)])
        m.stops = SMStopList([SMStop(o, rnd_len(rng, style))
                              for o in rnd_offsets(rng, nst, style)])
        if rng.random() < 0.5:
            m.mines = SMMineList([SMMine(o, rng.randrange(keys))
                                  for o in rnd_offsets(rng, rng.randrange(3), style)])
            m.rolls = SMRollList([SMRoll(o, rng.randrange(keys), rnd_len(rng, style))
                                  for o in rnd_offsets(rng, rng.randrange(3), style)])
            m.fakes = SMFakeList([SMFake(o, rng.randrange(keys))
                                  for o in rnd_offsets(rng, rng.randrange(2), style)])
            m.lifts = SMLiftList([SMLift(o, rng.randrange(keys))
                                  for o in rnd_offsets(rng, rng.randrange(2), style)])
            m.keysounds = SMKeySoundList(
                [SMKeySound(o, rng.randrange(keys))
                 for o in rnd_offsets(rng, rng.randrange(2), style)])
        ms.maps.append(m)
    return ms


def clean_osu_map(rng, nh, nl, nb, ns, nsmp):
    """A well-formed osu map (sorted bpms on the ms grid) that can be written."""
    m = gen_osu_map(rng, "int", nh, nl, 0, ns, nsmp)
    t = rng.randrange(0, 500)
    bpms = []
    for _ in range(nb):
        bpms.append(OsuBpm(t, rng.choice([120, 150, 180, 200]), 4))
        t += rng.randrange(1, 20) * 2000
    m.bpms = OsuBpmList(bpms)
    return m


def clean_sm_set(rng, nmaps, offset, with_stops):
    ms = SMMapSet()
    ms.title = "clean"
    ms.music = "x.ogg"
    ms.offset = offset
    ms.sample_start = 20000.0
    ms.sample_length = 15000.0
    bpm_vals = [rng.choice([120.0, 150.0, 180.0, 240.0]) for _ in range(rng.randrange(1, 4))]
    ms.maps = []
    for _ in range(nmaps):
        m = SMMap()
        t = float(offset if offset is not None else 0.0)
        bpms = []
        for b in bpm_vals:
            bpms.append(SMBpm(t, b))
            t += 4 * 60000.0 / b * rng.choice([1, 2, 4])
        m.bpms = SMBpmList(bpms)
        beat = 60000.0 / bpm_vals[0]
        start = bpms[0].offset
        m.hits = SMHitList([SMHit(start + beat * rng.randrange(0, 4) / 2, c)
                            for c in range(4) for _ in range(rng.randrange(0, 3))])
        m.holds = SMHoldList([SMHold(start + beat * c / 4, c, beat / 2)
                              for c in range(rng.randrange(0, 4))])
        if with_stops:
            m.stops = SMStopList([SMStop(start + beat * 2, 250.0)])
        ms.maps.append(m)
    return ms


# ------------------------------------------------------------------ scenarios
RATES = [1, 1.0, 0.5, 2, 1.1, 1 / 3, 0.75, 1.5, 7, 1e-3, 123.456]


def rate_checks(tag, chart, rng, rates):
    before = []
    for r in rates:
        attempt("%s.rate(%r)" % (tag, r), lambda r=r: chart.rate(r))
    a, b = rng.choice(RATES), rng.choice(RATES)
    attempt("%s.rate(%r).rate(%r)" % (tag, a, b), lambda: chart.rate(a).rate(b))
    attempt("%s.rate(%r*%r)" % (tag, a, b), lambda: chart.rate(a * b))
    attempt("%s.rate(by=np.float64)" % tag, lambda: chart.rate(by=np.float64(1.25)))
    dump_any(tag + ".AFTER", chart)


def write_checks(tag, chart, r):
    """Writes the rated chart, dumps the text, reads it back and dumps that."""
    def go():
        rated = chart.rate(r)
        if isinstance(rated, OsuMap):
            lines = rated.write()
            emit(tag, "written", cell(lines))
            return OsuMap.read(lines)
        if isinstance(rated, SMMapSet):
            s = rated.write()
            emit(tag, "written", cell(s))
            return SMMapSet.read(s)
        if isinstance(rated, QuaMap):
            s = rated.write()
            emit(tag, "written", cell(s))
            return QuaMap.read(s)
        if isinstance(rated, BMSMap):
            b = rated.write()
            emit(tag, "written", cell(b))
            return BMSMap.read(b.decode("ascii", errors="replace").split("\r\n"))
        raise NotImplementedError
    attempt("%s.write_read(%r)" % (tag, r), go)


def stacker_checks(tag, m, rng):
    """Drives the Map.Stacker / MapSet.Stacker machinery directly."""
    def ops():
        c = m.deepcopy()
        s = c.stack()
        emit(tag, "ixs", cell(list(s._ixs)))
        emit(tag, "stacked", dump_df_str(s._stacked, "stacked"))
        s.offset *= 2
        s.offset += 10
        s.column = s.column  # round trip
        emit(tag, "get", cell(s.offset), cell(s["bpm"]))
        s.loc[s.offset > 1000, "offset"] -= 1
        emit(tag, "locget", cell(s.loc[s.offset > 1000, ["offset", "column"]]))
        s["offset"] = s["offset"] / 4
        return c
    attempt(tag + ".stackops", ops)

    def typed():
        c = m.deepcopy()
        s = c.stack(include_types=(NoteList,))
        emit(tag, "ixs-notes", cell(list(s._ixs)))
        s.offset -= 500
        s.length *= 3
        return c
    attempt(tag + ".stacknotes", typed)

    def typed_hold():
        c = m.deepcopy()
        s = c.stack(include_types=HoldList)
        s.length /= 3
        s.offset /= 3
        return c
    attempt(tag + ".stackholds", typed_hold)

    def missing():
        c = m.deepcopy()
        s = c.stack(include_types=(HitList,))
        s.length /= 3
        return c
    attempt(tag + ".stackmissing", missing)
    dump_any(tag + ".AFTERSTACK", m)


def set_stacker_checks(tag, ms):
    def ops():
        c = ms.deepcopy()
        s = c.stack()
        s.offset *= 2
        s.bpm /= 2
        emit(tag, "setget", cell(s.offset))
        return c
    attempt(tag + ".setstack", ops)
    dump_any(tag + ".AFTERSETSTACK", ms)


def main(extra=None):
    random.seed(20261001)
    rng = random.Random(1337)
    styles = ["float", "int", "grid", "neg"]
    size_grid = [(0, 0, 0), (0, 0, 1), (1, 0, 1), (0, 1, 1), (3, 2, 1), (5, 0, 2),
                 (0, 4, 3), (8, 6, 4), (2, 2, 0), (12, 9, 5)]

    charts = []  # (tag, chart)

    # ---- base Map / MapSet
    for i, (nh, nl, nb) in enumerate(size_grid):
        st = styles[i % 4]
        charts.append(("base%d" % i, gen_base_map(rng, st, nh, nl, nb)))
    base_maps = [c for _, c in charts]
    charts.append(("baseset0", MapSet([])))
    charts.append(("baseset1", MapSet(base_maps[3:6])))
    shared = base_maps[7]
    charts.append(("baseset-shared", MapSet([shared, shared])))
    charts.append(("baseset-tuple", MapSet(tuple(base_maps[4:6]))))

    # ---- osu
    for i, (nh, nl, nb) in enumerate(size_grid):
        st = styles[(i + 1) % 4]
        ns = [0, 0, 2, 1, 0, 3, 5, 0, 1, 6][i]
        nsmp = [0, 1, 0, 2, 0, 0, 3, 1, 0, 4][i]
        charts.append(("osu%d" % i, gen_osu_map(rng, st, nh, nl, nb, ns, nsmp)))
    for i in range(6):
        charts.append(("osuclean%d" % i, clean_osu_map(
            rng, [0, 3, 6, 0, 10, 4][i], [0, 0, 2, 5, 7, 1][i], [1, 1, 2, 3, 1, 2][i],
            [0, 1, 0, 2, 4, 0][i], [0, 0, 1, 2, 0, 3][i])))

    # ---- quaver
    for i, (nh, nl, nb) in enumerate(size_grid[:8]):
        st = styles[(i + 2) % 4]
        charts.append(("qua%d" % i, gen_qua_map(rng, st, nh, nl, nb, [0, 1, 0, 2, 3, 0, 1, 4][i])))

    # ---- bms
    for i, (nh, nl, nb) in enumerate(size_grid[:8]):
        st = styles[(i + 3) % 4]
        charts.append(("bms%d" % i, gen_bms_map(rng, st, nh, nl, nb)))

    # ---- o2jam
    charts.append(("o2j0", gen_o2j_set(rng, "float", [(0, 0, 0), (2, 1, 1), (5, 5, 2)])))
    charts.append(("o2j1", gen_o2j_set(rng, "int", [(3, 0, 1), (0, 3, 1), (6, 2, 3)])))
    charts.append(("o2j2", gen_o2j_set(rng, "grid", [(4, 4, 1)])))
    charts.append(("o2jmap", gen_o2j_set(rng, "neg", [(4, 2, 2)]).maps[0]))

    # ---- stepmania
    charts.append(("sm0", gen_sm_set(rng, "float", [(0, 0, 0, 0), (3, 2, 1, 1)], 0.0)))
    charts.append(("sm1", gen_sm_set(rng, "int", [(4, 0, 2, 0), (0, 3, 1, 2), (5, 5, 3, 1)], -1234.5)))
    charts.append(("sm2", gen_sm_set(rng, "grid", [(6, 3, 2, 2)], 500)))
    charts.append(("sm3", gen_sm_set(rng, "neg", [(2, 2, 1, 0), (1, 1, 1, 1)], None)))
    charts.append(("sm-empty", gen_sm_set(rng, "float", [], 10.0)))
    charts.append(("smmap", gen_sm_set(rng, "float", [(3, 3, 2, 2)], 0.0).maps[0]))
    for i in range(5):
        charts.append(("smclean%d" % i, clean_sm_set(
            rng, [1, 2, 1, 3, 1][i], [0.0, -500.0, 1234.5, 250.0, None][i],
            [False, True, False, True, True][i])))

    # ---- files shipped with the repository
    files = [
        ("f-osu-noln", lambda: OsuMap.read_file(UT / "osu" / "map_noln.osu")),
        ("f-osu-read", lambda: OsuMap.read_file(UT / "osu" / "map_read.osu")),
        ("f-osu-test", lambda: OsuMap.read_file(RSC / "test.osu")),
        ("f-qua", lambda: QuaMap.read_file(UT / "qua" / "map.qua")),
        ("f-bms", lambda: BMSMap.read_file(UT / "bms" / "take.bms")),
        ("f-o2j", lambda: O2JMapSet.read_file(UT / "o2jam" / "o2ma120.ojn")),
        ("f-sm", lambda: SMMapSet.read_file(RSC / "test.sm")),
    ]
    for tag, loader in files:
        try:
            charts.append((tag, loader()))
        except BaseException as e:  # noqa
            emit(tag, "LOADFAIL", type(e).__name__)

    emit("NCHARTS", len(charts))

    for tag, chart in charts:
        big = tag.startswith("f-")
        dump_any(tag + ".ORIG", chart) if not big else emit(tag, "orig-skipped")
        rates = [1, 0.5, 1.1] if big else [rng.choice(RATES) for _ in range(3)] + [1]
        rate_checks(tag, chart, rng, rates)
        if isinstance(chart, (OsuMap, SMMapSet, QuaMap, BMSMap)):
            for r in ([1.25] if big else [1, rng.choice(RATES)]):
                write_checks(tag, chart, r)
        if isinstance(chart, Map) and not big:
            stacker_checks(tag, chart, rng)
        if isinstance(chart, MapSet) and not big:
            set_stacker_checks(tag, chart)

    # ---- bad arguments / degenerate rates: exception types must stay the same
    probe_charts = [charts[4], charts[18], ("baseset1", MapSet(base_maps[3:6])),
                    [c for c in charts if c[0] == "sm1"][0],
                    [c for c in charts if c[0] == "o2j1"][0],
                    [c for c in charts if c[0] == "qua4"][0],
                    [c for c in charts if c[0] == "bms4"][0]]
    for tag, chart in probe_charts:
        for bad in ["2", None, 0, 0.0, -1, -0.5, float("inf"), float("nan"),
                    [2], np.array([2.0]), True]:
            attempt("%s.badrate(%r)" % (tag, bad), lambda bad=bad: chart.rate(bad))
        dump_any(tag + ".AFTERBAD", chart)

    # ---- stackers on odd inputs
    def empty_objs():
        m = Map()
        m.objs = {}
        return m.rate(2)
    attempt("emptyobjs.rate", empty_objs)
    attempt("emptystack", lambda: Map.Stacker([]))

    def one_list():
        s = Map.Stacker([HitList([Hit(1, 1), Hit(5, 2)])])
        s.offset *= 3
        return cell(s._unstacked[0])
    attempt("onelist", one_list)

    # ---- Stacker over many lists of very different lengths (bounds bookkeeping)
    for trial in range(12):
        n_lists = rng.randrange(1, 9)
        lens = [rng.choice([0, 0, 1, 2, 5, 9]) for _ in range(n_lists)]

        def many(lens=lens):
            lists = []
            for k, n in enumerate(lens):
                kind = rng.randrange(3)
                offs = rnd_offsets(rng, n, rng.choice(["int", "float", "grid"]))
                if kind == 0:
                    lists.append(HitList([Hit(o, rng.randrange(4)) for o in offs]))
                elif kind == 1:
                    lists.append(HoldList([Hold(o, rng.randrange(4), rnd_len(rng, "float"))
                                           for o in offs]))
                else:
                    lists.append(BpmList([Bpm(o, rnd_bpm(rng)) for o in offs]))
            s = Map.Stacker(lists)
            emit("many%d" % trial, "ixs", cell(list(s._ixs)), "type", type(s._ixs).__name__)
            s.offset /= 3
            s.loc[s.offset > 100, "offset"] *= -1
            s["offset"] = s["offset"] + 0.5
            return [cell(li) for li in lists] + [cell(s._stacked)]
        attempt("many%d" % trial, many)

    # ---- osu writer: ties between holds and hits, odd circle sizes, no notes
    for trial in range(10):
        def tie(trial=trial):
            m = clean_osu_map(rng, 0, 0, 1, trial % 3, trial % 2)
            keys = int(m.circle_size)
            times = [rng.randrange(0, 6) * 500 for _ in range(8)]
            m.hits = OsuHitList([OsuHit(t, rng.randrange(keys)) for t in times[:5]])
            m.holds = OsuHoldList([OsuHold(t, rng.randrange(keys), 250) for t in times[3:]])
            if trial % 4 == 3:
                m.hits = m.hits.sorted(reverse=True)
            r = m.rate(rng.choice(RATES))
            return [r.write(), m.write()]
        attempt("osutie%d" % trial, tie)

    def write_with(circle_size, with_notes, tags=None):
        m = clean_osu_map(rng, 3 if with_notes else 0, 2 if with_notes else 0, 1, 1, 1)
        m.circle_size = circle_size
        if tags is not None:
            m.tags = tags
        return m.rate(1.5).write()
    for cs in [float("nan"), None, "7", 7.9, 0, -3, 18]:
        for with_notes in (False, True):
            attempt("osucs(%r,%r)" % (cs, with_notes),
                    lambda cs=cs, with_notes=with_notes: write_with(cs, with_notes))
    attempt("osubadtags", lambda: write_with(float("nan"), True, tags=5))

    def write_no_lists():
        m = clean_osu_map(rng, 2, 2, 1, 0, 0)
        del m.objs["holds"]
        return m.write()
    attempt("osunoholds", write_no_lists)

    if extra is not None:
        extra(rng, charts, emit, attempt, cell, dump_any)

    text = "\n".join(OUT)
    if "--dump" in sys.argv:
        sys.stderr.write(text + "\n")
    print("DIGEST " + hashlib.sha256(text.encode("utf8")).hexdigest())


if __name__ == "__main__":
    main()
