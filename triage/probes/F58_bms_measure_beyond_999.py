"""F58 (C05): an object beyond measure 999 is written as '#1000cc:...' — the measure field of a BMS line is three digits, a reader
slices [1:4] and takes the 4th digit as part of the channel: the line is syntactically invalid, silently.
Run: PYTHONPATH=<tree> /venv/bin/python F58_bms_measure_beyond_999.py   (exit 1 = defect present)"""
import sys, warnings
warnings.simplefilter("ignore")
from reamber.bms.BMSMap import BMSMap
from reamber.bms.BMSBpm import BMSBpm
from reamber.bms.BMSHit import BMSHit
from reamber.bms.lists.BMSBpmList import BMSBpmList
from reamber.bms.lists.notes.BMSHitList import BMSHitList

m = BMSMap()
m.bpms = BMSBpmList([BMSBpm(0, 120)])
m.hits = BMSHitList([BMSHit(2000.0 * 1000, 0, b"")])     # measure 1000 at 120 bpm
try:
    out = m.write().decode("ascii", "replace")
except ValueError as e:
    print("refused:", e)
    sys.exit(0)
bad = [l for l in out.splitlines() if l.startswith("#") and ":" in l and len(l.split(":")[0]) != 6]
print(bad)
if bad:
    print("DEFECT: lines whose '#mmmcc' head is not 6 characters")
    sys.exit(1)
print("ok")
