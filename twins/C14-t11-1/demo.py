"""Demo for change 1: TimedList.after / before (and between, which chains them)
and the HoldList overrides.

Prints one line ``DIGEST <hex>``: sha256 over a canonical dump of every result,
every warning, every raised exception type and every input after the call.
"""
import hashlib
import random
import warnings
from pathlib import Path

import numpy as np
import pandas as pd

from reamber.base.lists.TimedList import TimedList
from reamber.base.lists.BpmList import BpmList
from reamber.base.lists.notes.HitList import HitList
from reamber.base.lists.notes.HoldList import HoldList
from reamber.osu.lists import OsuBpmList, OsuSvList
from reamber.osu.lists.notes import OsuHitList, OsuHoldList
from reamber.quaver.lists import QuaBpmList, QuaSvList
from reamber.quaver.lists.notes import QuaHitList, QuaHoldList
from reamber.sm.lists import SMBpmList, SMStopList
from reamber.sm.lists.notes import SMHitList, SMHoldList, SMRollList, SMMineList
from reamber.bms.lists import BMSBpmList
from reamber.bms.lists.notes import BMSHitList, BMSHoldList
from reamber.o2jam.lists import O2JBpmList
from reamber.o2jam.lists.notes import O2JHitList, O2JHoldList
from reamber.osu import OsuMap
from reamber.quaver import QuaMap
from reamber.sm import SMMapSet
from reamber.bms.BMSMap import BMSMap
from reamber.o2jam import O2JMapSet

random.seed(1401)
MAPS = Path(__file__).resolve().parent / "rsc" / "maps"
if not MAPS.exists():
    MAPS = Path.cwd() / "rsc" / "maps"

OUT = []


def emit(*parts):
    OUT.append(" | ".join(str(p) for p in parts))


def dump_df(df: pd.DataFrame) -> str:
    cols = []
    for c in df.columns:
        cols.append(f"{c}:{df[c].dtype}:[" + ",".join(repr(v) for v in df[c].tolist()) + "]")
    return (
        f"idx<{type(df.index).__name__}:{df.index.dtype}>"
        f"{[repr(i) for i in df.index.tolist()]} " + " ; ".join(cols)
    )


def dump(tl) -> str:
    if isinstance(tl, TimedList):
        return f"{type(tl).__module__}.{type(tl).__name__} {dump_df(tl.df)}"
    return f"{type(tl).__name__} {tl!r}"


def call(label, inputs, fn):
    """Runs fn, records result / exception type, warnings, and the inputs afterwards."""
    before = [dump(i) for i in inputs]
    with warnings.catch_warnings(record=True) as ws:
        warnings.simplefilter("always")
        try:
            res = fn()
            emit(label, "OK", dump(res))
        except Exception as e:  # noqa
            res = None
            emit(label, "EXC", type(e).__name__)
    for w in ws:
        emit(label, "WARN", w.category.__name__, str(w.message))
    after = [dump(i) for i in inputs]
    emit(label, "INPUT_SAME", before == after)
    for a in after:
        emit(label, "INPUT", a)
    # the result is a copy: writing into it does not reach the input
    if isinstance(res, TimedList) and len(res):
        with warnings.catch_warnings():
            warnings.simplefilter("ignore")
            try:
                res.df.iloc[0, res.df.columns.get_loc("offset")] = -987654.0
            except Exception as e:  # noqa
                emit(label, "MUT_EXC", type(e).__name__)
        emit(label, "INPUT_AFTER_MUT_SAME", [dump(i) for i in inputs] == before)
    return res


# ---------------------------------------------------------------- inputs
def rand_offsets(n, kind):
    if kind == "int":
        return [random.randrange(-500, 3000, 50) for _ in range(n)]
    if kind == "ties":
        pool = [0, 100, 100.0, 250.5, -0.0, 1000]
        return [random.choice(pool) for _ in range(n)]
    if kind == "sorted":
        return sorted(random.uniform(-1000, 5000) for _ in range(n))
    if kind == "nan":
        return [random.choice([float("nan"), 0.0, 10.5, 300.0]) for _ in range(n)]
    return [round(random.uniform(-1000, 5000), random.choice([0, 1, 3])) for _ in range(n)]


def rand_lengths(n, kind):
    if kind == "pos":
        return [random.choice([1, 50, 100.5, 1000]) for _ in range(n)]
    if kind == "zero":
        return [random.choice([0, 0.0, 100]) for _ in range(n)]
    if kind == "neg":
        return [random.choice([-200, -0.5, 0, 300]) for _ in range(n)]
    return [random.choice([float("nan"), 10.0, 500.0]) for _ in range(n)]


PLAIN = [TimedList, HitList, BpmList, OsuHitList, OsuBpmList, OsuSvList, QuaHitList,
         QuaBpmList, QuaSvList, SMHitList, SMMineList, SMBpmList, SMStopList, BMSHitList,
         BMSBpmList, O2JHitList, O2JBpmList]
HOLDS = [HoldList, OsuHoldList, QuaHoldList, SMHoldList, SMRollList, BMSHoldList,
         O2JHoldList]

lists = []  # (name, list)
okinds = ["float", "int", "ties", "sorted", "nan"]
lkinds = ["pos", "zero", "neg", "nanlen"]
for cls in PLAIN:
    lists.append((f"{cls.__name__}/empty", cls([])))
    for n in (1, 7):
        k = random.choice(okinds)
        d = {"offset": rand_offsets(n, k)}
        if issubclass(cls, HitList):
            d["column"] = [random.randrange(0, 10) for _ in range(n)]
        lists.append((f"{cls.__name__}/{k}{n}", cls.from_dict(d)))
for cls in HOLDS:
    lists.append((f"{cls.__name__}/empty", cls([])))
    for n, lk in ((1, "pos"), (6, "pos"), (6, "zero"), (6, "neg"), (5, "nanlen")):
        k = random.choice(okinds)
        d = {"offset": rand_offsets(n, k), "length": rand_lengths(n, lk),
             "column": [random.randrange(0, 10) for _ in range(n)]}
        lists.append((f"{cls.__name__}/{k}{n}{lk}", cls.from_dict(d)))

# lists with row labels that are not 0..n-1 (a filtered list, a reversed list,
# duplicate labels) and integer dtypes
h = HoldList.from_dict({"offset": [5, 1, 3, 3, 9], "length": [2, 2, 0, 4, 1],
                        "column": [0, 1, 2, 3, 0]})
h.df = h.df.astype({"offset": "int64", "length": "int64"})
lists.append(("HoldList/int64", h))
lists.append(("HoldList/gaps", h[h.column != 1]))
lists.append(("HoldList/reversed", HoldList(h.df.iloc[::-1])))
lists.append(("HoldList/duplabels", HoldList(pd.concat([h.df, h.df]))))
t = HitList.from_dict({"offset": [300, 100, 200, 100], "column": [1, 2, 3, 4]})
lists.append(("HitList/duplabels", HitList(pd.concat([t.df, t.df.iloc[:2]]))))
lists.append(("HitList/strlabels", HitList(t.df.set_axis(list("dcba")))))

# lists of real charts of every game
osu = OsuMap.read_file((MAPS / "osu/Gravity.osu").as_posix())
qua = QuaMap.read_file((MAPS / "qua/CarryMeAway.qua").as_posix())
sm = SMMapSet.read_file((MAPS / "sm/Escapes.sm").as_posix())[0]
bms = BMSMap.read_file(MAPS / "bms/coldBreath.bme")
o2j = O2JMapSet.read_file((MAPS / "o2jam/o2ma178.ojn").as_posix())[0]
for nm, m in (("osu", osu), ("qua", qua), ("sm", sm), ("bms", bms), ("o2j", o2j)):
    for key, tl in m.objs.items():
        # a slice keeps the dump small; every 37th row, unsorted labels kept
        lists.append((f"{nm}.{key}", type(tl)(tl.df.iloc[::37])))

emit("N_LISTS", len(lists))

# ---------------------------------------------------------------- operations
FLAGS = [False, True, 0, 1, None, "yes", ""]


def bounds_for(tl):
    offs = [o for o in tl.df["offset"].tolist() if o == o]
    bs = [0, -1e9, 1e9, float("inf"), float("-inf"), float("nan"), 100, np.float64(250.5),
          np.int64(3)]
    if offs:
        bs += [random.choice(offs), min(offs), max(offs), random.choice(offs) + 0.5]
    if isinstance(tl, HoldList) and len(tl):
        tails = [v for v in (tl.df["offset"] + tl.df["length"]).tolist() if v == v]
        if tails:
            bs += [random.choice(tails), max(tails)]
    return bs


for name, tl in lists:
    is_hold = isinstance(tl, HoldList)
    bs = bounds_for(tl)
    for b in bs:
        for inc in (False, True):
            call(f"{name}.after({b!r},{inc})", [tl], lambda: tl.after(b, inc))
            call(f"{name}.before({b!r},{inc})", [tl], lambda: tl.before(b, inc))
            if is_hold:
                for x in (False, True):
                    call(f"{name}.after({b!r},{inc},tail={x})", [tl],
                         lambda: tl.after(b, include_end=inc, include_tail=x))
                    call(f"{name}.before({b!r},{inc},head={x})", [tl],
                         lambda: tl.before(b, include_end=inc, include_head=x))
    # odd but accepted flag values (truthiness is what counts)
    b = random.choice(bs)
    for f in FLAGS:
        call(f"{name}.after({b!r},flag={f!r})", [tl], lambda: tl.after(b, f))
        call(f"{name}.before({b!r},flag={f!r})", [tl], lambda: tl.before(b, f))
        if is_hold:
            call(f"{name}.after({b!r},tailflag={f!r})", [tl],
                 lambda: tl.after(b, True, f))
            call(f"{name}.before({b!r},headflag={f!r})", [tl],
                 lambda: tl.before(b, False, f))
    # between: every form of include_ends, ordered and swapped bounds
    for _ in range(4):
        lo, hi = random.choice(bs), random.choice(bs)
        for ends in (True, False, (True, False), (False, True), (True, True), [False, False],
                     (1, 0, 1), (), (True,), None):
            call(f"{name}.between({lo!r},{hi!r},{ends!r})", [tl],
                 lambda: tl.between(lo, hi, ends))
            if is_hold:
                for hd in (True, False):
                    for tt in (True, False):
                        call(f"{name}.between({lo!r},{hi!r},{ends!r},h={hd},t={tt})", [tl],
                             lambda: tl.between(lo, hi, ends, include_head=hd,
                                                include_tail=tt))
        call(f"{name}.between-default({lo!r},{hi!r})", [tl], lambda: tl.between(lo, hi))
    # bounds of a wrong kind
    for bad in ("abc", None, [1, 2], np.array([1.0, 2.0])):
        call(f"{name}.after(bad {type(bad).__name__})", [tl], lambda: tl.after(bad))
        call(f"{name}.before(bad {type(bad).__name__})", [tl], lambda: tl.before(bad, True))
        call(f"{name}.between(bad {type(bad).__name__})", [tl],
             lambda: tl.between(bad, 100))
        if is_hold:
            call(f"{name}.after-tail(bad {type(bad).__name__})", [tl],
                 lambda: tl.after(bad, True, True))
            call(f"{name}.before-tail(bad {type(bad).__name__})", [tl],
                 lambda: tl.before(bad, True, False))
    # a bound given as a Series of the same / a different length
    call(f"{name}.after(series)", [tl], lambda: tl.after(tl.offset))
    call(f"{name}.before(series+1)", [tl], lambda: tl.before(tl.offset + 1, True))
    # sequences of operations
    call(f"{name}.seq1", [tl],
         lambda: tl.sorted().after(0, True).before(2000).append(tl, sort=True).between(
             -100, 1500, True))
    call(f"{name}.seq2", [tl],
         lambda: tl.append(tl).sorted(reverse=True).between(50, 5000, (False, True)).after(
             100))

# the selectors are usable through the class too
call("unbound.after", [lists[5][1]], lambda: TimedList.after(lists[5][1], 100, True))
call("unbound.hold.before", [h], lambda: HoldList.before(h, 4, True, False))

text = "\n".join(OUT)
print("LINES", len(OUT))
print("DIGEST", hashlib.sha256(text.encode()).hexdigest())
