import warnings; warnings.filterwarnings("ignore")
from reamber.quaver.QuaMap import QuaMap
from reamber.quaver.QuaHit import QuaHit
from reamber.quaver.QuaBpm import QuaBpm
from reamber.quaver.lists.notes.QuaHitList import QuaHitList
from reamber.quaver.lists.QuaBpmList import QuaBpmList
from reamber.algorithms.generate.full_ln import full_ln
m = QuaMap()
m.hits = QuaHitList([QuaHit(0, 0, []), QuaHit(1000, 0, []), QuaHit(500, 1, [])])
m.bpms = QuaBpmList([QuaBpm(0, 120)])
try:
    o = full_ln(m)
    print(o.hits.df.to_dict("records"), o.holds.df.to_dict("records"))
except Exception as e:
    import traceback; traceback.print_exc()
print(QuaHitList.from_dict([dict(offset=1, column=2)]).df.to_dict("records"))
