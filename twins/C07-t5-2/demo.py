"""Behaviour digest of the O2Jam (.ojn) reader.

Generates several dozen synthetic OJN byte strings (plus the two bundled
files and a set of direct calls of the reader's building blocks, including
edge cases and malformed input) and prints one sha256 over a canonical text
dump of everything that is observable: values (floats as hex), dtypes,
column order, row labels, header fields, raised exception types and the state
of the arguments after the call.
"""
import copy
import hashlib
import logging
import os
import random
import struct
import sys
import warnings

import pandas as pd

from reamber.o2jam.O2JBpm import O2JBpm
from reamber.o2jam.O2JEventPackage import (
    O2JEventPackage,
    O2JEventMeasureChange,
)
from reamber.o2jam.O2JHit import O2JHit
from reamber.o2jam.O2JHold import O2JHold
from reamber.o2jam.O2JMap import O2JMap
from reamber.o2jam.O2JMapSet import O2JMapSet
from reamber.o2jam.O2JMapSetMeta import O2JMapSetMeta

logging.disable(logging.CRITICAL)
warnings.simplefilter("ignore")
random.seed(70707)

OUT = []


def emit(*a):
    OUT.append(" ".join(str(x) for x in a))


def canon(v):
    if isinstance(v, float):
        return "f:" + (v.hex() if v == v else "nan")
    if isinstance(v, bool):
        return "b:" + str(v)
    if isinstance(v, int):
        return "i:" + str(v)
    if isinstance(v, (bytes, bytearray)):
        return type(v).__name__ + ":" + bytes(v).hex()
    if isinstance(v, str):
        return "s:" + repr(v)
    if isinstance(v, (list, tuple)):
        return type(v).__name__ + "[" + ",".join(canon(x) for x in v) + "]"
    if isinstance(v, dict):
        return "{" + ",".join(canon(k) + "=" + canon(x) for k, x in v.items()) + "}"
    if v is None:
        return "None"
    if hasattr(v, "item") and hasattr(v, "dtype"):
        return "np(" + str(v.dtype) + "):" + canon(v.item())
    return type(v).__name__ + ":" + repr(v)


def dump_df(tag, df):
    emit(tag, "type", type(df).__name__, "shape", df.shape)
    emit(tag, "columns", list(df.columns), "dtypes", [str(t) for t in df.dtypes])
    emit(tag, "index", type(df.index).__name__, str(df.index.dtype), list(df.index))
    for row in df.itertuples(index=True, name=None):
        emit(tag, "row", ",".join(canon(x) for x in row))


def dump_item(tag, e):
    """An event as produced by the package reader (pandas-Series backed)."""
    if e is None:
        emit(tag, "None")
        return
    if isinstance(e, O2JEventMeasureChange):
        emit(tag, "MeasureChange", canon(e.frac_length))
        return
    d = e.data
    emit(
        tag,
        type(e).__name__,
        "keys",
        list(d.index),
        "dtype",
        str(d.dtype),
        "vals",
        ",".join(canon(x) for x in d.tolist()),
        "extra",
        canon({k: v for k, v in sorted(vars(e).items()) if k not in ("data", "_data")}),
    )


def dump_pkgs(tag, lvls):
    emit(tag, "levels", len(lvls))
    for li, lvl in enumerate(lvls):
        emit(tag, "level", li, "pkgs", len(lvl))
        for pi, pkg in enumerate(lvl):
            if pkg is None:
                emit(tag, li, pi, "None")
                continue
            emit(tag, li, pi, "measure", canon(pkg.measure), "channel", canon(pkg.channel),
                 "n", len(pkg.events))
            for ei, e in enumerate(pkg.events):
                dump_item(f"{tag}.{li}.{pi}.{ei}", e)


def dump_map(tag, m):
    emit(tag, type(m).__name__, "objs", list(m.objs.keys()),
         [type(v).__name__ for v in m.objs.values()])
    dump_df(tag + ".hits", m.hits.df)
    dump_df(tag + ".holds", m.holds.df)
    dump_df(tag + ".bpms", m.bpms.df)


META_FIELDS = [
    "song_id", "signature", "encode_version", "genre", "bpm", "level",
    "event_count", "note_count", "measure_count", "package_count",
    "old_encode_version", "old_song_id", "old_genre", "bmp_size",
    "old_file_version", "title", "artist", "creator", "ojm_file",
    "cover_size", "duration", "note_offset", "cover_offset",
]


def dump_meta(tag, ms):
    for f in META_FIELDS:
        emit(tag, f, canon(getattr(ms, f)))


def dump_mapset(tag, ms):
    emit(tag, type(ms).__name__, "maps", len(ms.maps))
    dump_meta(tag + ".meta", ms)
    for i, m in enumerate(ms.maps):
        dump_map(f"{tag}.map{i}", m)


def attempt(tag, fn):
    try:
        r = fn()
        emit(tag, "OK")
        return r
    except Exception as e:  # noqa
        emit(tag, "RAISED", type(e).__name__, [type(a).__name__ for a in e.args])
        return None


# --------------------------------------------------------------------------
# OJN writer
# --------------------------------------------------------------------------
def pad(s: bytes, n: int) -> bytes:
    return s[:n] + b"\x00" * (n - len(s[:n]))


def header(bpm, pkg_counts, song_id=1, sig=b"ojn\x00", enc=2.9, genre=2,
           level=(1, 2, 3, 0), event_count=(0, 0, 0), note_count=(0, 0, 0),
           measure_count=(0, 0, 0), old_enc=29, old_id=1,
           old_genre=b"\x00" * 19 + b"\x01", bmp_size=0, old_ver=0,
           title=b"title", artist=b"artist ", creator=b"creator",
           ojm=b"x.ojm", cover_size=0, duration=(1, 2, 3),
           note_offset=(300, 300, 300), cover_offset=0) -> bytes:
    h = struct.pack("<i", song_id) + pad(sig, 4) + struct.pack("<f", enc)
    h += struct.pack("<i", genre) + struct.pack("<f", bpm)
    h += struct.pack("<4h", *level)
    h += struct.pack("<3i", *event_count) + struct.pack("<3i", *note_count)
    h += struct.pack("<3i", *measure_count) + struct.pack("<3i", *pkg_counts)
    h += struct.pack("<h", old_enc) + struct.pack("<h", old_id) + pad(old_genre, 20)
    h += struct.pack("<i", bmp_size) + struct.pack("<i", old_ver)
    h += pad(title, 64) + pad(artist, 32) + pad(creator, 32) + pad(ojm, 32)
    h += struct.pack("<i", cover_size) + struct.pack("<3i", *duration)
    h += struct.pack("<3i", *note_offset) + struct.pack("<i", cover_offset)
    assert len(h) == 300, len(h)
    return h


def pkg_bytes(measure, channel, events) -> bytes:
    return struct.pack("<ihh", measure, channel, len(events)) + b"".join(events)


EMPTY = b"\x00\x00\x00\x00"


def note_ev(kind, value=None, vol=None, pan=None) -> bytes:
    value = random.randint(1, 900) if value is None else value
    vol = random.randint(0, 15) if vol is None else vol
    pan = random.randint(0, 15) if pan is None else pan
    return struct.pack("<h", value) + bytes([vol * 16 + pan]) + bytes([kind])


SLOT_CHOICES = [1, 2, 3, 4, 6, 8, 12, 16, 24, 32, 48, 5, 7, 192]
BPM_CHOICES = [60.0, 90.0, 120.0, 130.0, 150.0, 174.5, 200.0, 222.22, 33.3, 400.0, 1000.0]


def gen_level(n_measures, density, n_bpm, start_measure=0, bpm_after=0,
              close_holds=True, cols=range(7), order="sorted", split=False,
              autoplay=False):
    """Returns the package list [(measure, channel, [events])] of one level."""
    pkgs = []
    open_hold = {c: False for c in cols}
    last = start_measure + n_measures - 1
    for measure in range(start_measure, start_measure + n_measures):
        for c in cols:
            if random.random() > density and not (measure == last and open_hold[c]):
                continue
            parts = 2 if (split and random.random() < 0.4) else 1
            for _ in range(parts):  # several packages of one channel and measure
                slots = random.choice(SLOT_CHOICES)
                evs = []
                for s in range(slots):
                    r = random.random()
                    if r < 0.45 and slots > 1:
                        evs.append(EMPTY)
                    elif open_hold[c]:
                        if r < 0.8:
                            evs.append(note_ev(3))
                            open_hold[c] = False
                        else:
                            evs.append(EMPTY)
                    elif r < 0.75:
                        evs.append(note_ev(0))
                    else:
                        evs.append(note_ev(2))
                        open_hold[c] = True
                if measure == last and open_hold[c] and close_holds and _ == parts - 1:
                    # close in the last slot
                    if evs[-1] == EMPTY:
                        evs[-1] = note_ev(3)
                        open_hold[c] = False
                pkgs.append((measure, c + 2, evs))
        if autoplay and random.random() < 0.5:
            ch = random.choice(range(9, 23))
            slots = random.choice([1, 2, 4, 8])
            pkgs.append((measure, ch, [note_ev(0) if random.random() < 0.5 else EMPTY
                                       for _ in range(slots)]))
    if close_holds:
        for c in cols:
            if open_hold[c]:
                pkgs.append((last + 1, c + 2, [note_ev(3), EMPTY]))
                open_hold[c] = False
    # tempo events
    total = n_measures + bpm_after
    bpm_measures = sorted(
        random.choice(range(start_measure, start_measure + max(1, total)))
        for _ in range(n_bpm)
    )
    if bpm_after and n_bpm:
        bpm_measures[-1] = start_measure + total - 1 + (1 if close_holds else 0) + 1
    for bm in bpm_measures:
        slots = random.choice([1, 1, 2, 4, 8, 3, 16])
        evs = []
        for s in range(slots):
            if random.random() < 0.5 or slots == 1:
                evs.append(struct.pack("<f", random.choice(BPM_CHOICES)))
            else:
                evs.append(struct.pack("<f", 0.0))
        pkgs.append((bm, 1, evs))
    if order == "sorted":
        pkgs.sort(key=lambda p: (p[0], p[1]))
    elif order == "channel":
        pkgs.sort(key=lambda p: (p[1], p[0]))  # stable: keeps split order
    elif order == "bpm_last":
        pkgs.sort(key=lambda p: (p[1] == 1, p[0], p[1]))
    elif order == "shuffle":
        random.shuffle(pkgs)
    return pkgs


def build(bpm, levels, declared=None, **kw) -> bytes:
    body = b"".join(pkg_bytes(*p) for lvl in levels for p in lvl)
    counts = declared if declared is not None else [len(lvl) for lvl in levels]
    return header(bpm, counts, **kw) + body


def run_bytes(tag, b):
    before = bytes(b)
    ms = attempt(tag, lambda: O2JMapSet.read(b))
    emit(tag, "input-unchanged", b == before, len(b))
    if ms is not None:
        dump_mapset(tag, ms)
    return ms


# --------------------------------------------------------------------------
# 1. bundled files
# --------------------------------------------------------------------------
HERE = os.getcwd()
for name in ("o2ma178.ojn", "o2ma120.ojn"):
    p = os.path.join(HERE, "rsc", "maps", "o2jam", name)
    ms = attempt("file." + name, lambda: O2JMapSet.read_file(p))
    if ms is not None:
        dump_mapset("file." + name, ms)
        for m in ms:
            emit("file." + name, "metadata", repr(m.metadata(ms)), canon(ms.level_name(m)))
    with open(p, "rb") as f:
        raw = f.read()
    run_bytes("bytes." + name, raw)
    # pathlib as well
    import pathlib
    ms2 = attempt("path." + name, lambda: O2JMapSet.read_file(pathlib.Path(p)))
    if ms2 is not None:
        emit("path." + name, len(ms2.maps), [len(m.hits) for m in ms2], [len(m.holds) for m in ms2])

# --------------------------------------------------------------------------
# 2. generated well-formed files
# --------------------------------------------------------------------------
CONFIGS = []
for i in range(48):
    CONFIGS.append(dict(
        bpm=random.choice(BPM_CHOICES),
        lv=[dict(
            n_measures=random.choice([0, 1, 2, 3, 5, 8]),
            density=random.choice([0.2, 0.5, 0.9, 1.0]),
            n_bpm=random.choice([0, 0, 1, 2, 3, 6]),
            start_measure=random.choice([0, 0, 0, 1, 4]),
            bpm_after=random.choice([0, 0, 1, 3]),
            order=random.choice(["sorted", "sorted", "channel", "bpm_last"]),
            split=random.random() < 0.4,
            autoplay=random.random() < 0.3,
        ) for _ in range(3)],
    ))

for i, cfg in enumerate(CONFIGS):
    levels = [gen_level(**lv) for lv in cfg["lv"]]
    b = build(cfg["bpm"], levels, song_id=i, title=b"song %d" % i,
              level=(i % 30, i % 17, i % 9, i % 2),
              event_count=tuple(sum(len(p[2]) for p in lvl) for lvl in levels),
              duration=(i, i + 1, i + 2), old_id=i % 100,
              artist=random.choice([b"  spaced  ", b"", b"A" * 32, b"non\xffascii\x80!"]),
              creator=random.choice([b"c", b"", b"\x00mid\x00dle\x00"]))
    run_bytes(f"gen{i}", b)

# --------------------------------------------------------------------------
# 3. hand-made edge cases
# --------------------------------------------------------------------------
f32 = lambda x: struct.pack("<f", x)

EDGE = {}
# nothing at all in any level
EDGE["empty"] = build(120.0, [[], [], []])
# only tempo events, no notes (all are "after the last note")
EDGE["only_bpm"] = build(100.0, [[(0, 1, [f32(200.0)]), (2, 1, [f32(0.0), f32(50.0)]), (5, 1, [f32(75.0)])], [], []])
# tempo event exactly on a note measure, and several on the same measure
EDGE["bpm_ties"] = build(120.0, [[
    (0, 2, [note_ev(0, 1, 3, 4)]),
    (0, 1, [f32(240.0)]),
    (0, 1, [f32(60.0)]),
    (1, 1, [f32(0.0), f32(180.0)]),
    (1, 3, [note_ev(0, 1, 1, 1), note_ev(0, 2, 2, 2)]),
    (1, 1, [f32(90.0), f32(91.0)]),
    (3, 1, [f32(30.0)]),
], [], []])
# long notes spanning packages and measures on all columns, tempo in between
EDGE["ln_span"] = build(150.0, [[
    *[(0, c + 2, [EMPTY, note_ev(2, 5, c, c)]) for c in range(7)],
    (1, 1, [f32(300.0), f32(0.0), f32(75.0), f32(0.0)]),
    *[(2 + c, c + 2, [EMPTY] * c + [note_ev(3, 5, 0, 0)] + [EMPTY] * 2) for c in range(7)],
    (9, 1, [f32(10.0)]),
], [(0, 5, [note_ev(2), note_ev(3), note_ev(2), note_ev(3)])], [(7, 8, [note_ev(0)])]])
# head and tail in the same slot measure / zero length long note across packages
EDGE["ln_zero"] = build(150.0, [[(1, 2, [note_ev(2)]), (1, 2, [note_ev(3)])], [], []])
# unclosed hold in level 0, closed in level 1 (buffer is shared)
EDGE["ln_leak"] = build(150.0, [[(1, 4, [note_ev(2, 1, 2, 3)])], [(3, 4, [EMPTY, note_ev(3)])], [(0, 4, [note_ev(0)])]])
# tail without a head
EDGE["tail_no_head"] = build(150.0, [[(0, 2, [note_ev(3)])], [], []])
# unknown note type bytes are ignored
EDGE["odd_types"] = build(150.0, [[(0, 2, [note_ev(1), note_ev(4), note_ev(0), note_ev(255)])], [], []])
# negative note value is still "enabled"
EDGE["neg_value"] = build(150.0, [[(0, 2, [note_ev(0, -5), note_ev(0, -32768), note_ev(0, 32767)])], [], []])
# zero events in a package, negative event count
EDGE["zero_events"] = build(150.0, [[(0, 2, []), (0, 1, []), (1, 3, [note_ev(0)])], [], []])
EDGE["neg_event_count"] = header(150.0, [2, 0, 0]) + struct.pack("<ihh", 0, 2, -3) + pkg_bytes(1, 2, [note_ev(0)])
# autoplay / unknown channels are skipped
EDGE["other_channels"] = build(150.0, [[(0, 9, [note_ev(0)]), (0, 22, [note_ev(0)]), (0, 23, [note_ev(0)]),
                                         (0, -1, [note_ev(0)]), (1, 8, [note_ev(0)])], [], []])
# measure fraction channel (outside the domain, still deterministic)
EDGE["measure_fraction"] = build(150.0, [[(0, 0, [f32(0.75)]), (1, 2, [note_ev(0)])], [], []])
# negative measure
EDGE["neg_measure"] = build(150.0, [[(-1, 2, [note_ev(0)]), (-2, 1, [f32(100.0)]), (1, 2, [note_ev(0)])], [], []])
# negative / tiny / huge tempo
EDGE["neg_bpm"] = build(150.0, [[(0, 2, [note_ev(0)]), (1, 1, [f32(-120.0)]), (2, 2, [note_ev(0)])], [], []])
EDGE["tiny_bpm"] = build(1e-30, [[(0, 2, [note_ev(0)]), (1, 1, [f32(1e30)]), (2, 2, [note_ev(0)])], [], []])
# header tempo 0 (division by zero as soon as something is timed after measure 0)
EDGE["zero_init_bpm"] = build(0.0, [[(1, 2, [note_ev(0)])], [], []])
EDGE["zero_init_bpm_m0"] = build(0.0, [[(0, 2, [note_ev(0)])], [], []])
EDGE["zero_init_bpm_only_bpm"] = build(0.0, [[(1, 1, [f32(100.0)])], [], []])
EDGE["nan_bpm"] = build(150.0, [[(0, 2, [note_ev(0)]), (1, 1, [f32(float("nan"))]), (2, 2, [note_ev(0)])], [], []])
EDGE["inf_bpm"] = build(float("inf"), [[(1, 2, [note_ev(0)]), (2, 1, [f32(100.0)])], [], []])
# declared more packages than present: truncated -> None packages
EDGE["declared_more"] = build(150.0, [[(0, 2, [note_ev(0)])], [], []], declared=[3, 0, 0])
EDGE["declared_more_l2"] = build(150.0, [[(0, 2, [note_ev(0)])], [], []], declared=[1, 0, 2])
# declared fewer packages than present: trailing data ignored
EDGE["declared_less"] = build(150.0, [[(0, 2, [note_ev(0)]), (1, 2, [note_ev(0)])], [], []], declared=[1, 0, 0])
# package boundaries shift between levels
EDGE["declared_shift"] = build(150.0, [[(0, 2, [note_ev(0)]), (1, 3, [note_ev(0)])], [(2, 4, [note_ev(0)])], []], declared=[1, 1, 1])
# truncated inside a package header / inside the events
EDGE["trunc_header"] = build(150.0, [[(0, 2, [note_ev(0)])], [], []], declared=[2, 0, 0]) + b"\x01\x00\x00"
EDGE["trunc_events"] = build(150.0, [[(0, 2, [note_ev(0), note_ev(0)])], [], []])[:-3]
# short header
EDGE["short_header"] = header(150.0, [0, 0, 0])[:299]
EDGE["short_header_0"] = b""
EDGE["short_header_150"] = header(150.0, [0, 0, 0])[:150]
# negative package count
EDGE["neg_pkg_count"] = header(150.0, [-1, 0, 0]) + pkg_bytes(0, 2, [note_ev(0)])
# header text edge cases
EDGE["hdr_text"] = build(150.0, [[], [], []], sig=b"\x00o\x00j", title=b"\xe3\x81\x82 title \x00 after",
                         artist=b"\x00" * 32, creator=b"x" * 40, ojm=b"", old_genre=bytes(range(20)),
                         level=(-1, 32767, -32768, 5), note_offset=(-1, 0, 2 ** 31 - 1),
                         song_id=-2 ** 31, enc=float("inf"), bmp_size=-7, cover_offset=123456)
# unsorted packages of a channel: tail before head
EDGE["unsorted_tail_first"] = build(150.0, [[(2, 2, [note_ev(3)]), (1, 2, [note_ev(2)])], [], []])
# unsorted packages but valid pairing: measures descending
EDGE["unsorted_desc"] = build(150.0, [[(5, 2, [note_ev(0)]), (3, 1, [f32(99.0)]), (4, 3, [note_ev(2)]),
                                       (1, 3, [note_ev(3)]), (0, 1, [f32(77.0)]), (2, 8, [note_ev(0), note_ev(0)])], [], []])
# two heads in a row: the first is overwritten
EDGE["double_head"] = build(150.0, [[(0, 2, [note_ev(2, 1, 1, 1), note_ev(2, 2, 2, 2), note_ev(3), EMPTY])], [], []])
# four levels declared? header only has three counts; extra data ignored
EDGE["many_notes_same_measure"] = build(150.0, [[(0, c + 2, [note_ev(0)]) for c in range(7)] * 3, [], []])
# large slot count
EDGE["slots_192"] = build(128.0, [[(0, 2, [note_ev(0) if s % 7 == 0 else EMPTY for s in range(192)]),
                                   (0, 1, [f32(64.0) if s % 5 == 0 else f32(0.0) for s in range(20)])], [], []])

for k, b in EDGE.items():
    run_bytes("edge." + k, b)

# bytearray / memoryview input (not bytes)
run_bytes("edge.bytearray", bytearray(EDGE["ln_span"]))

# shuffled-package variants (mostly raise KeyError, deterministic)
for i in range(8):
    lv = gen_level(n_measures=3, density=0.7, n_bpm=3, order="shuffle")
    run_bytes(f"shuf{i}", build(140.0, [lv, [], []]))

# --------------------------------------------------------------------------
# 4. direct calls of the building blocks
# --------------------------------------------------------------------------
def call_rep(tag, data, counts):
    counts_before = copy.deepcopy(counts)
    data_before = bytes(data)
    lvls = attempt(tag, lambda: O2JEventPackage.read_event_packages(data, counts))
    emit(tag, "args-unchanged", data == data_before, counts == counts_before, canon(list(counts)))
    if lvls is not None:
        dump_pkgs(tag, lvls)
    return lvls


body = EDGE["ln_span"][300:]
call_rep("rep.ln_span", body, [21, 1, 1])
call_rep("rep.ln_span.tuple", body, (21, 1, 1))
call_rep("rep.ln_span.one", body, [23])
call_rep("rep.ln_span.five", body, [5, 5, 5, 5, 3])
call_rep("rep.ln_span.over", body, [30, 2])
call_rep("rep.empty", b"", [])
call_rep("rep.empty3", b"", [0, 0, 0])
call_rep("rep.empty_decl", b"", [2, 1])
call_rep("rep.seven_bytes", b"\x00" * 7, [1])
call_rep("rep.float_count", body, [1.0])
call_rep("rep.measure_frac", pkg_bytes(3, 0, [f32(0.5), f32(0.25)]), [1])
call_rep("rep.measure_frac_empty", pkg_bytes(3, 0, []), [1])
for i in range(6):
    lv = gen_level(n_measures=2, density=0.6, n_bpm=2, split=True, autoplay=True)
    call_rep(f"rep.gen{i}", b"".join(pkg_bytes(*p) for p in lv), [len(lv)])


def call_notes(tag, data, column, buf, measure):
    buf_before = dict(buf)
    res = attempt(tag, lambda: O2JEventPackage.read_events_note(data, column, buf, measure))
    emit(tag, "buffer", sorted(buf.keys()), "was", sorted(buf_before.keys()))
    for k in sorted(buf.keys()):
        dump_item(f"{tag}.buf{k}", buf[k])
    if res is not None:
        emit(tag, type(res).__name__, len(res))
        for i, e in enumerate(res):
            dump_item(f"{tag}.{i}", e)


call_notes("note.empty", b"", 0, {}, 0)
call_notes("note.hit", note_ev(0, 1, 15, 15), 6, {}, 2)
call_notes("note.short5", note_ev(0, 1, 15, 15) + b"\x01", 6, {}, 2)
call_notes("note.short3", b"\x01\x00\x00", 6, {}, 2)
call_notes("note.mix", b"".join([note_ev(0), EMPTY, note_ev(2), note_ev(3), note_ev(2)]), 3, {}, 7)
call_notes("note.tail_only", note_ev(3), 3, {}, 7)
h = O2JHold(volume=1, pan=2, column=3, length=-1, offset=0)
h.measure = 1.5
call_notes("note.tail_buffered", EMPTY + note_ev(3), 3, {3: h, 4: h}, 7)
call_notes("note.float_measure", note_ev(0) * 3, 0, {}, 2.5)
call_notes("note.neg_column", note_ev(0), -2, {}, 0)
call_notes("note.bytearray", bytearray(note_ev(0, 3, 4, 5) + note_ev(2, 3, 4, 5)), 1, {}, 0)


def call_bpm(tag, data, measure):
    res = attempt(tag, lambda: O2JEventPackage.read_events_bpm(data, measure))
    if res is not None:
        emit(tag, type(res).__name__, len(res))
        for i, e in enumerate(res):
            dump_item(f"{tag}.{i}", e)


call_bpm("bpm.empty", b"", 0)
call_bpm("bpm.one", f32(120.0), 3)
call_bpm("bpm.zeros", f32(0.0) * 4, 3)
call_bpm("bpm.negzero", f32(-0.0) + f32(1.0), 3)
call_bpm("bpm.mix", f32(0.0) + f32(100.0) + f32(0.0) + f32(50.5), 1)
call_bpm("bpm.short", f32(100.0) + b"\x00\x00", 1)
call_bpm("bpm.three", b"\x00\x00\x00", 1)
call_bpm("bpm.nan", f32(float("nan")), 1.25)


def mk_hit(measure, col=0):
    x = O2JHit(volume=1, pan=2, offset=0, column=col)
    x.measure = measure
    return x


def mk_hold(measure, tail, col=0):
    x = O2JHold(volume=1, pan=2, offset=0, column=col, length=-1)
    x.measure = measure
    x.tail_measure = tail
    return x


def mk_bpm(measure, bpm):
    x = O2JBpm(bpm=bpm, offset=0)
    x.measure = measure
    return x


def call_pkgs(tag, pkgs, init_bpm):
    n_before = [len(p.events) for p in pkgs if p is not None]
    m = attempt(tag, lambda: O2JMap.read_pkgs(pkgs, init_bpm))
    # the argument afterwards: event objects receive their offsets in place
    emit(tag, "pkgs-after", len(pkgs), n_before == [len(p.events) for p in pkgs if p is not None])
    for pi, p in enumerate(pkgs):
        if p is None:
            emit(tag, pi, "None")
            continue
        emit(tag, pi, canon(p.measure), canon(p.channel))
        for ei, e in enumerate(p.events):
            dump_item(f"{tag}.arg{pi}.{ei}", e)
    if m is not None:
        dump_map(tag, m)


P = O2JEventPackage
call_pkgs("pk.empty", [], 120.0)
call_pkgs("pk.empty_pkg", [P(0, 2, [])], 120.0)
call_pkgs("pk.none_pkg", [P(0, 2, [mk_hit(0)]), None], 120.0)
call_pkgs("pk.int_bpm", [P(1, 2, [mk_hit(1), mk_hit(1.5)])], 120)
call_pkgs("pk.zero_bpm", [P(1, 2, [mk_hit(1)])], 0)
call_pkgs("pk.zero_bpm_f", [P(1, 2, [mk_hit(1)])], 0.0)
call_pkgs("pk.zero_event_bpm", [P(1, 1, [mk_bpm(1, 0.0)]), P(2, 2, [mk_hit(2)])], 100.0)
call_pkgs("pk.zero_event_bpm_tail", [P(2, 2, [mk_hit(2)]), P(3, 1, [mk_bpm(3, 0.0), mk_bpm(4, 10.0)])], 100.0)
call_pkgs("pk.ties", [
    P(1, 2, [mk_hit(1, 0), mk_hit(1, 1)]),
    P(1, 1, [mk_bpm(1, 60.0), mk_bpm(1, 240.0)]),
    P(0, 1, [mk_bpm(0, 30.0)]),
    P(2, 3, [mk_hold(1, 1, 2), mk_hold(0.5, 3.25, 3), mk_hold(3.25, 0.5, 4)]),
    P(9, 1, [mk_bpm(9, 1.0), mk_bpm(8, 2.0)]),
], 120.0)
call_pkgs("pk.measure_change", [P(0, 0, [O2JEventMeasureChange(0.5)]), P(1, 2, [mk_hit(1)])], 120.0)
call_pkgs("pk.hold_no_tail", [P(0, 2, [O2JHold(volume=1, pan=2, offset=0, column=0, length=-1)])], 120.0)
shared = mk_hit(2.0, 5)
call_pkgs("pk.shared_event", [P(2, 7, [shared]), P(2, 7, [shared])], 90.0)
for i in range(10):
    evs = []
    for _ in range(random.randint(0, 12)):
        r = random.random()
        ms_ = random.choice([0, 0.5, 1, 1.25, 2, 3.75, 4, 7, 10.0625])
        if r < 0.4:
            evs.append(mk_hit(ms_, random.randrange(7)))
        elif r < 0.6:
            evs.append(mk_hold(ms_, ms_ + random.choice([0, 0.25, 1, 5]), random.randrange(7)))
        else:
            evs.append(mk_bpm(ms_, random.choice(BPM_CHOICES)))
    random.shuffle(evs)
    cut = random.randint(0, len(evs))
    call_pkgs(f"pk.rand{i}", [P(0, 2, evs[:cut]), P(0, 1, evs[cut:])], random.choice(BPM_CHOICES))


def call_meta(tag, b):
    o = O2JMapSetMeta()
    before = bytes(b)
    r = attempt(tag, lambda: o.read_meta(b))
    emit(tag, "ret", canon(r), "arg-unchanged", b == before)
    dump_meta(tag, o)
    # the lists must be fresh objects per instance
    o2 = O2JMapSetMeta()
    attempt(tag + ".second", lambda: o2.read_meta(b))
    emit(tag, "fresh-lists", o.level is not o2.level, o.package_count is not o2.package_count)


call_meta("meta.std", header(150.0, [1, 2, 3]))
call_meta("meta.long", header(150.0, [1, 2, 3]) + b"trailing")
call_meta("meta.short", header(150.0, [1, 2, 3])[:100])
call_meta("meta.short298", header(150.0, [1, 2, 3])[:298])
call_meta("meta.empty", b"")
call_meta("meta.bytearray", bytearray(header(150.0, [1, 2, 3])))
for i in range(12):
    call_meta(f"meta.rand{i}", bytes(random.randrange(256) for _ in range(300)))
# reading twice into the same object overwrites
o = O2JMapSetMeta()
o.read_meta(header(150.0, [1, 2, 3], title=b"first"))
o.read_meta(header(99.0, [4, 5, 6], title=b"second"))
dump_meta("meta.twice", o)
# partially failed read leaves the object as it was
attempt("meta.twice.fail", lambda: o.read_meta(header(1.0, [7, 8, 9])[:200]))
dump_meta("meta.twice.after_fail", o)
emit("meta.consts", O2JMapSetMeta.BYTE_COUNT, O2JMapSetMeta.BYTE_SIZES, O2JMapSetMeta.BYTE_FORMATS)

text = "\n".join(OUT)
if len(sys.argv) > 1 and sys.argv[1] == "--dump":
    print(text)
print("DIGEST", hashlib.sha256(text.encode("utf-8", "backslashreplace")).hexdigest())
