"""Demo for refactoring 3: hitsound_copy (module constants + flag lookup table).

Exercises reamber.algorithms.osu.hitsound_copy.hitsound_copy on many generated
source / target osu! charts (unsorted rows, appended rows, reverse sorted,
concatenated, chords = ties on offset, all hitsound bit combinations, custom
files, zero / negative volumes, more sounds than slots, empty lists) and prints
one DIGEST line.
"""
import hashlib
import random
import warnings

import pandas as pd

from reamber.algorithms.osu.hitsound_copy import hitsound_copy
from reamber.osu.OsuMap import OsuMap
from reamber.osu.lists.OsuSampleList import OsuSampleList

warnings.simplefilter("ignore")
random.seed(1503)

OUT = []


def emit(*parts):
    OUT.append(" | ".join(str(p) for p in parts))


def cell(v):
    return f"{type(v).__name__}:{v!r}"


def dump_df(tag, df):
    emit(tag, "type", type(df).__name__)
    emit(tag, "columns", list(df.columns))
    emit(tag, "dtypes", [str(t) for t in df.dtypes])
    emit(tag, "index", type(df.index).__name__, [cell(i) for i in df.index])
    for row in df.itertuples(index=False):
        emit(tag, "row", [cell(v) for v in row])


def dump_map(tag, m):
    emit(tag, "mapclass", type(m).__name__, "keys", list(m.objs.keys()))
    for k, v in m.objs.items():
        dump_df(f"{tag}.{k}:{type(v).__name__}", v.df)
    emit(tag, "samples", type(m.samples).__name__)
    dump_df(f"{tag}.samples", m.samples.df)


def make_list(list_cls, rows, mode):
    """Builds a TimedList of list_cls from row dicts, in a row order per mode."""
    rows = list(rows)
    if mode == "sorted":
        rows.sort(key=lambda r: r["offset"])
        return list_cls.from_dict(rows)
    if mode == "shuffled":
        random.shuffle(rows)
        return list_cls.from_dict(rows)
    if mode == "reverse":
        rows.sort(key=lambda r: r["offset"])
        return list_cls.from_dict(rows).sorted(reverse=True)
    if mode == "append":
        # append defaults to sort=False
        random.shuffle(rows)
        half = len(rows) // 2
        return list_cls.from_dict(rows[:half]).append(list_cls.from_dict(rows[half:]))
    if mode == "concat":
        # plain concatenation keeps duplicated row labels
        random.shuffle(rows)
        half = len(rows) // 2
        a = list_cls.from_dict(rows[:half])
        b = list_cls.from_dict(rows[half:])
        return list_cls(pd.concat([a.df, b.df]))
    raise ValueError(mode)


MODES = ["sorted", "shuffled", "reverse", "append", "concat"]
FILES = ["", "", "", "kick.wav", "snare.ogg", "hat.wav"]
VOLUMES = [0, 0, 20, 30, 40, 100, -10]


def sound():
    # Every row has every column, or from_dict leaves NaN in the integer columns
    d = dict(hitsound_set=0, sample_set=0, addition_set=0, custom_set=0, volume=0,
             hitsound_file="")
    r = random.random()
    if r < 0.25:
        return d  # silent note
    if r < 0.75:
        d["hitsound_set"] = random.randrange(16)
    if random.random() < 0.35:
        d["hitsound_file"] = random.choice(FILES)
    if random.random() < 0.2:
        d["sample_set"] = random.randrange(4)
    if random.random() < 0.2:
        d["addition_set"] = random.randrange(4)
    if random.random() < 0.1:
        d["custom_set"] = random.randrange(3)
    d["volume"] = random.choice(VOLUMES)
    return d


def gen_notes(n_hits, n_holds, keys, offsets, with_sound):
    hits = []
    holds = []
    for _ in range(n_hits):
        d = dict(offset=float(random.choice(offsets)), column=random.randrange(keys))
        if with_sound:
            d.update(sound())
        hits.append(d)
    for _ in range(n_holds):
        d = dict(offset=float(random.choice(offsets)), column=random.randrange(keys),
                 length=random.choice([0.0, 100.0, 750.0]))
        if with_sound:
            d.update(sound())
        holds.append(d)
    return hits, holds


def make_map(hits, holds, mode, samples=False):
    m = OsuMap()
    m.hits = make_list(type(m.hits), hits, mode)
    m.holds = make_list(type(m.holds), holds, mode)
    m.bpms = make_list(type(m.bpms), [dict(offset=0.0, bpm=120.0)], mode)
    if samples:
        m.samples = OsuSampleList.from_dict(
            [dict(offset=10.0, sample_file="old.wav", volume=5)]
        )
    return m


def snapshot(m):
    return m.deepcopy()


def unchanged(before, after):
    ok = all(
        before.objs[k].df.equals(after.objs[k].df)
        and list(before.objs[k].df.index) == list(after.objs[k].df.index)
        and [str(t) for t in before.objs[k].df.dtypes]
        == [str(t) for t in after.objs[k].df.dtypes]
        for k in after.objs
    )
    return ok and before.samples.df.equals(after.samples.df)


def run(tag, src, tgt):
    emit("CASE", tag)
    src0, tgt0 = snapshot(src), snapshot(tgt)
    try:
        out = hitsound_copy(src, tgt)
    except Exception as e:  # noqa
        emit(tag, "EXC", type(e).__name__)
        out = None
    if out is not None:
        emit(tag, "same_object", out is tgt)
        dump_map(tag + ".out", out)
    # Neither the source nor the target is modified
    dump_map(tag + ".src_after", src)
    dump_map(tag + ".tgt_after", tgt)
    emit(tag, "src_unchanged", unchanged(src0, src), "tgt_unchanged", unchanged(tgt0, tgt))


case = 0
# Random charts: chords are common as the offsets come from a small grid
for mode_src in MODES:
    for mode_tgt in MODES:
        for rep in range(2):
            grid = [i * 250 for i in range(random.choice([-2, 0]), random.choice([3, 8, 20]))]
            keys = random.choice([1, 4, 7, 10])
            src = make_map(
                *gen_notes(random.choice([0, 1, 6, 20]), random.choice([0, 1, 6]),
                           keys, grid, True),
                mode_src,
            )
            tgt = make_map(
                *gen_notes(random.choice([0, 1, 6, 20]), random.choice([0, 1, 6]),
                           keys, grid, random.random() < 0.5),
                mode_tgt, samples=random.random() < 0.5,
            )
            case += 1
            run(f"r{case}.{mode_src}.{mode_tgt}", src, tgt)

# The very same pair of charts in every row order
grid = [0, 250, 500, 750, 1000]
src_notes = gen_notes(14, 5, 4, grid, True)
tgt_notes = gen_notes(10, 4, 4, grid, False)
for mode_src in MODES:
    for mode_tgt in MODES:
        case += 1
        run(f"p{case}.{mode_src}.{mode_tgt}",
            make_map(*src_notes, mode_src), make_map(*tgt_notes, mode_tgt))


SILENT = dict(hitsound_set=0, sample_set=0, addition_set=0, custom_set=0, volume=0,
              hitsound_file="")


def H(offset, column=0, **kw):
    return {**dict(offset=float(offset), column=column), **SILENT, **kw}


def L(offset, column=0, length=100.0, **kw):
    return {**dict(offset=float(offset), column=column, length=float(length)),
            **SILENT, **kw}


edge = [
    ("both_empty", ([], []), ([], [])),
    ("src_empty", ([], []), ([H(0), H(100)], [L(0, 1)])),
    ("tgt_empty", ([H(0, hitsound_set=2, volume=30)], []), ([], [])),
    ("tgt_empty_file", ([H(0, hitsound_file="a.wav", volume=30)], []), ([], [])),
    ("src_silent", ([H(0), H(100)], [L(50)]), ([H(0), H(100)], [])),
    ("every_bit",
     ([H(0, i % 4, hitsound_set=i, volume=10 * (i % 3)) for i in range(16)], []),
     ([H(0, i) for i in range(4)], [L(0, 4 + i) for i in range(3)])),
    ("each_bit_alone",
     ([H(0, 0, hitsound_set=2), H(250, 0, hitsound_set=4), H(500, 0, hitsound_set=8),
       H(750, 0, hitsound_set=1)], []),
     ([H(0), H(250), H(500), H(750)], [])),
    ("more_sounds_than_slots",
     ([H(0, 0, hitsound_set=2, volume=10), H(0, 1, hitsound_set=4, volume=20),
       H(0, 2, hitsound_set=8, volume=30), H(0, 3, hitsound_file="x.wav", volume=40),
       H(0, 4, hitsound_file="y.wav", volume=40)], []),
     ([H(0, 0)], [L(0, 1)])),
    ("negative_volume",
     ([H(0, 0, hitsound_set=14, volume=-5), H(0, 1, hitsound_file="z.wav", volume=-5)], []),
     ([H(0, 0), H(0, 1), H(0, 2)], [])),
    ("only_holds",
     ([], [L(0, 0, 100, hitsound_set=6, volume=15), L(500, 1, 0, hitsound_file="h.wav")]),
     ([], [L(0, 0), L(0, 1), L(500, 2)])),
    ("no_matching_offset",
     ([H(123, 0, hitsound_set=2, volume=50, hitsound_file="n.wav")], []),
     ([H(0), H(124)], [])),
    ("sets_only",
     ([H(0, 0, sample_set=2), H(250, 0, addition_set=3), H(500, 0, custom_set=1)], []),
     ([H(0), H(250), H(500)], [])),
    ("negative_offsets",
     ([H(-500, 0, hitsound_set=10, volume=60), H(-500, 1, hitsound_set=2, volume=60)], []),
     ([H(-500, 0), H(-500, 1), H(0, 0)], [L(-500, 2)])),
    ("same_volume_merges",
     ([H(0, 0, hitsound_set=2, volume=20), H(0, 1, hitsound_set=4, volume=20),
       H(0, 2, hitsound_set=8, volume=20), H(0, 3, hitsound_set=2, volume=30)], []),
     ([H(0, i) for i in range(4)], [])),
]
for name, src_notes, tgt_notes in edge:
    for mode in ["sorted", "shuffled", "reverse", "concat"]:
        case += 1
        run(f"e{case}.{name}.{mode}", make_map(*src_notes, mode),
            make_map(*tgt_notes, mode, samples=True))

text = "\n".join(OUT)
print("DIGEST", hashlib.sha256(text.encode("utf8")).hexdigest())
