"""C12 — stacking writes through: editing the stack equals editing each list (DESIGN §5 C12)."""
from __future__ import annotations

import ast
from typing import Dict, List, Optional, Tuple

from ..model import AnalysisError, walk_no_nested, params_of, MAP, MAPSET, MAP_STACKER, MAPSET_STACKER
from .. import report as R
from ..report import RuleSpec
from .. import codec as C
from ..paths import paths_through, first_index, last_index
from .common import CTL, fn_loc, short, unparse, returns_of, concrete_classes, inline_locals

ST = MAP_STACKER
LOCIX = ST + ".StackerLocIndexer"


def _assigns_to_self(fn_node, attr: str) -> List[ast.Assign]:
    return [n for n in walk_no_nested(fn_node) if isinstance(n, ast.Assign) and any(
        C.self_attr(t) == attr for t in n.targets)]

from .. import seqexpr as SE


def _order_preserving_iter(e: ast.AST, names: set) -> Optional[str]:
    """The name iterated if ``e`` iterates one of ``names`` in its own order (no
    sort / reverse / filter / set), else None."""
    if isinstance(e, ast.Name) and e.id in names:
        return e.id
    if isinstance(e, ast.Attribute) and isinstance(e.value, ast.Name) and e.value.id == "self" and ("self." + e.attr) in names:
        return "self." + e.attr
    return None


def _flat_zip(lp: ast.For) -> ast.For:
    """for a, (b, c) in zip(X, zip(Y, Z))  ->  for a, b, c in zip(X, Y, Z)   (the same iterations; a copy)"""
    import copy as _copy
    it, tg = lp.iter, lp.target
    if isinstance(it, ast.Call) and unparse(it.func) == "zip" and isinstance(tg, ast.Tuple) and len(it.args) == len(tg.elts) and not it.keywords:
        args, elts, changed = [], [], False
        for a, t in zip(it.args, tg.elts):
            if isinstance(a, ast.Call) and unparse(a.func) == "zip" and isinstance(t, ast.Tuple) and len(a.args) == len(t.elts) and not a.keywords:
                args += a.args
                elts += t.elts
                changed = True
            else:
                args.append(a)
                elts.append(t)
        if changed:
            new = _copy.copy(lp)
            new.iter = ast.copy_location(ast.Call(func=it.func, args=args, keywords=[]), it)
            new.target = ast.copy_location(ast.Tuple(elts=elts, ctx=ast.Store()), tg)
            return new
    return lp


# --------------------------------------------------------------------------- R1
def rule_r1(ctx) -> List[R.Inst]:
    M = ctx.M
    insts = []
    q = ST + ".__init__"
    fn = M.fn(q)
    file, line = fn_loc(M, q)
    objs = [p for p in params_of(fn.node) if p != "self"][0]
    # what is stored as the list of lists
    un = _assigns_to_self(fn.node, "_unstacked")
    src_names = {objs}
    if len(un) == 1 and unparse(un[0].value) == objs:
        src_names.add("self._unstacked")
        insts.append(R.ok("C12.R1", "_unstacked", file, un[0].lineno, idiom=f"self._unstacked = {objs}"))
    else:
        insts.append(R.viol("C12.R1", "_unstacked", file, line,
                            "the list of stacked lists is not the constructor argument in its own order",
                            construct=unparse(un[0]) if un else "no _unstacked assignment"))
    # boundaries: prefix sums of the lengths in iteration order
    env = SE.Env(fn.node)
    ix = _assigns_to_self(fn.node, "_ixs")
    ok_ix = False
    why = "boundary computation not recognised"
    if len(ix) == 1:
        v = ix[0].value
        if isinstance(v, ast.Name):
            var = v.id
            init = [n for n in walk_no_nested(fn.node) if isinstance(n, (ast.Assign, ast.AnnAssign)) and
                    unparse(n.targets[0] if isinstance(n, ast.Assign) else n.target) == var]
            loops = [n for n in walk_no_nested(fn.node) if isinstance(n, ast.For)]
            if init and unparse(init[0].value) in ("[0]", "[0,]") and len(loops) >= 1:
                for lp in loops:
                    it = _order_preserving_iter(lp.iter, src_names)
                    body_ok = len(lp.body) == 1 and isinstance(lp.body[0], ast.Expr) and \
                        unparse(lp.body[0].value).replace(" ", "") in (
                            f"{var}.append({var}[-1]+len({unparse(lp.target)}))",
                            f"{var}.append(len({unparse(lp.target)})+{var}[-1])")
                    if it and body_ok:
                        ok_ix = True
                    elif body_ok:
                        why = f"boundaries are accumulated over '{unparse(lp.iter)}', not over the stacked lists in their order"
                    elif it:
                        why = f"boundary step is '{unparse(lp.body[0])[:80]}', not previous + len(list)"
        else:
            alts = SE.prefix_sums_of(v, env.at.get(id(ix[0]), env.final))
            if alts:
                bad_src = [a for a in alts if a.base not in src_names]
                bad_flt = [a for a in alts if a.filters]
                bad_elt = [a for a in alts if a.elt.replace(" ", "") not in ("len(_)", "len(_.df)", "_.df.shape[0]", "len(_._df)")]
                if not (bad_src or bad_flt or bad_elt):
                    ok_ix = True
                elif bad_src:
                    why = f"boundaries are accumulated over '{bad_src[0].base}', not over the stacked lists in their order"
                elif bad_flt:
                    why = f"boundaries skip lists ('{bad_flt[0]}') that the concatenation includes"
                else:
                    why = f"boundary step is '{bad_elt[0].elt}', not previous + len(list)"
    # the boundaries are row counts: a running sum forced into a narrow integer wraps on a large chart (40 000 rows do not fit int16)
    narrow = [k for n in ast.walk(fn.node) if isinstance(n, ast.Call) and unparse(n.func).split(".")[-1] in ("cumsum", "add.accumulate", "accumulate", "array", "asarray")
              for k in n.keywords if k.arg == "dtype" and unparse(k.value).split(".")[-1].strip("'\"") in
              ("int8", "int16", "uint8", "uint16", "float16", "float32", "i1", "i2", "u1", "u2", "short", "byte", "half")]
    if narrow and ix:
        insts.append(R.viol("C12.R1", "_ixs:width", file, narrow[0].value.lineno,
                            f"the list boundaries are accumulated as {unparse(narrow[0].value)}: on a chart with more rows than that type holds the "
                            f"sums wrap, and the write-back cuts the stacked frame at the wrong rows (lists lose or exchange rows silently)",
                            construct=f"boundaries accumulated with dtype={unparse(narrow[0].value)}"))
    cur = _cursor_form(M.fn(ST + "._update").node)
    if not ix and cur is not None:
        ln = _assigns_to_self(fn.node, cur[1])
        alts = SE.describe(ln[0].value, env.at.get(id(ln[0]), env.final)) if len(ln) == 1 else None
        if alts and all(a.base in src_names and not a.filters and a.elt.replace(" ", "") in ("len(_)", "len(_.df)", "_.df.shape[0]", "len(_._df)") for a in alts):
            ok_ix = True
            ix = ln
        elif alts:
            why = f"the per-list row counts are taken from '{sorted(str(a) for a in alts)[0]}', not from the stacked lists in their order"
            ix = ln
    if ok_ix and cur is not None and ix and unparse(ix[0].targets[0]).endswith(cur[1]):
        insts.append(R.ok("C12.R1", "_ixs", file, ix[0].lineno, idiom="row count of every list, in list order (the boundaries are their running sums)"))
    elif ok_ix:
        insts.append(R.ok("C12.R1", "_ixs", file, ix[0].lineno, idiom="prefix sums 0, len0, len0+len1, ... in list order"))
    elif why == "boundary computation not recognised":
        insts.append(R.undec("C12.R1", "_ixs", file, ix[0].lineno if ix else line, why))
    else:
        insts.append(R.viol("C12.R1", "_ixs", file, ix[0].lineno if ix else line, why, construct=unparse(ix[0]) if ix else "no _ixs"))
    # concatenation in the same order
    stk = _assigns_to_self(fn.node, "_stacked")
    good = False
    why = "concatenation not recognised"
    if len(stk) == 1:
        cc = [n for n in ast.walk(stk[0].value) if isinstance(n, ast.Call) and unparse(n.func).endswith("concat")]
        if not cc:
            # the frame named first: frame = pd.concat([..]); self._stacked = frame.reset_index()
            cc = [n for n in ast.walk(inline_locals(fn.node, stk[0].value)) if isinstance(n, ast.Call) and unparse(n.func).endswith("concat")]
        alts = SE.describe(cc[0].args[0], env.at.get(id(stk[0]), env.final)) if len(cc) == 1 and cc[0].args else None
        if alts:
            if all(a.base in src_names and not a.filters and a.elt in ("_.df", "_._df") for a in alts):
                good = True
            elif any(a.filters for a in alts):
                why = "some lists are filtered out of the concatenation but not out of the boundaries"
            elif any(a.base not in src_names for a in alts):
                why = f"frames are concatenated from '{sorted(a.base for a in alts if a.base not in src_names)[0]}'"
            else:
                why = f"what is concatenated is '{sorted(a.elt for a in alts)[0]}' of each list, not its frame"
    if good:
        insts.append(R.ok("C12.R1", "_stacked", file, stk[0].lineno, idiom="concat([v.df for v in lists]) in list order"))
    elif why == "concatenation not recognised":
        insts.append(R.undec("C12.R1", "_stacked", file, stk[0].lineno if stk else line, why))
    else:
        insts.append(R.viol("C12.R1", "_stacked", file, stk[0].lineno if stk else line, why,
                            construct=unparse(stk[0])[:160] if stk else "no _stacked"))
    # write-back pairs list i with boundaries (i, i+1)
    q2 = ST + "._update"
    fn2 = M.nfn(q2, subst=True)
    file2, line2 = fn_loc(M, q2)
    loops = [_flat_zip(n) for n in walk_no_nested(fn2.node) if isinstance(n, ast.For)]
    good = False
    if len(loops) == 1 and isinstance(loops[0].iter, ast.Call) and unparse(loops[0].iter.func) == "zip":
        args = [unparse(a) for a in loops[0].iter.args]
        # zip stops at its shortest operand: (lists, ixs, ixs[1:]) pairs exactly like (lists, ixs[:-1], ixs[1:])
        good = args in (["self._unstacked", "self._ixs[:-1]", "self._ixs[1:]"], ["self._unstacked", "self._ixs", "self._ixs[1:]"])
    if not good and cur is not None:
        insts.append(R.ok("C12.R1", "_update.zip", file2, cur[0].lineno, idiom=f"zip(lists, row counts) with a running cursor: list i takes rows [sum of the counts before it, + its own count)"))
    elif good:
        insts.append(R.ok("C12.R1", "_update.zip", file2, loops[0].lineno, idiom="zip(lists, ixs[:-1], ixs[1:])"))
    else:
        insts.append(R.viol("C12.R1", "_update.zip", file2, line2,
                            "write-back does not pair list i with the consecutive boundaries (ixs[i], ixs[i+1])",
                            construct=unparse(loops[0].iter) if loops else "no loop"))
    return insts


def _cursor_form(fn_node):
    """`stop = 0` … `for obj, n in zip(self._unstacked, self.<lens>): start, stop = stop, stop + n; <body>` -> (loop, lens attribute,
    list variable, start name, stop name, rest of the body): the consecutive boundaries are carried by a running cursor instead of
    being stored as prefix sums"""
    for lp in walk_no_nested(fn_node):
        if not (isinstance(lp, ast.For) and isinstance(lp.iter, ast.Call) and unparse(lp.iter.func) == "zip" and len(lp.iter.args) == 2 and
                isinstance(lp.target, ast.Tuple) and len(lp.target.elts) == 2 and all(isinstance(t, ast.Name) for t in lp.target.elts)):
            continue
        a0, a1 = lp.iter.args
        if not (unparse(a0) == "self._unstacked" and isinstance(a1, ast.Attribute) and unparse(a1.value) == "self" and lp.body):
            continue
        obj, n = (t.id for t in lp.target.elts)
        st0 = lp.body[0]
        if not (isinstance(st0, ast.Assign) and len(st0.targets) == 1 and isinstance(st0.targets[0], ast.Tuple) and len(st0.targets[0].elts) == 2 and
                isinstance(st0.value, ast.Tuple) and len(st0.value.elts) == 2 and all(isinstance(t, ast.Name) for t in st0.targets[0].elts)):
            continue
        start, stop = (t.id for t in st0.targets[0].elts)
        v0, v1 = st0.value.elts
        if not (unparse(v0) == stop and unparse(v1).replace(" ", "") in (f"{stop}+{n}", f"{n}+{stop}")):
            continue
        init = [x for x in walk_no_nested(fn_node) if isinstance(x, ast.Assign) and len(x.targets) == 1 and unparse(x.targets[0]) == stop and
                x.lineno < lp.lineno]
        if len(init) != 1 or unparse(init[0].value) != "0":
            continue
        if any(isinstance(x, ast.Name) and x.id in (start, stop) and isinstance(x.ctx, ast.Store) for b in lp.body[1:] for x in ast.walk(b)):
            continue
        return lp, a1.attr, obj, start, stop, lp.body[1:]
    return None


# --------------------------------------------------------------------------- R2
def rule_r2(ctx) -> List[R.Inst]:
    M = ctx.M
    q = ST + ".__init__"
    fn = M.fn(q)
    file, line = fn_loc(M, q)
    stk = _assigns_to_self(fn.node, "_stacked")
    if len(stk) != 1:
        return [R.undec("C12.R2", "_stacked.index", file, line, "no single _stacked assignment")]
    v = stk[0].value
    fresh = any(isinstance(n, ast.Call) and isinstance(n.func, ast.Attribute) and n.func.attr == "reset_index"
                for n in ast.walk(v)) or any(
        isinstance(n, ast.keyword) and n.arg == "ignore_index" and isinstance(n.value, ast.Constant) and n.value.value is True
        for n in ast.walk(v))
    if fresh:
        return [R.ok("C12.R2", "_stacked.index", file, stk[0].lineno, idiom="fresh 0..n-1 index after concat")]
    return [R.viol("C12.R2", "_stacked.index", file, stk[0].lineno,
                   "the concatenation keeps each list's own row labels: labels repeat across lists, so a boolean mask or "
                   ".loc assignment on the stack hits rows of several lists", construct=unparse(stk[0])[:160])]


# --------------------------------------------------------------------------- R3
def _is_stack_write(n: ast.AST) -> bool:
    """a store into the stacked frame (directly or through its loc indexer)"""
    if isinstance(n, (ast.Assign, ast.AugAssign)):
        ts = n.targets if isinstance(n, ast.Assign) else [n.target]
        for t in ts:
            if isinstance(t, (ast.Subscript, ast.Attribute)):
                base = unparse(t.value)
                if "_stacked" in base and (isinstance(t, ast.Subscript) or base != "self"):
                    return True
                if isinstance(t, ast.Subscript) and base == "self.loc":
                    return True      # the loc indexer of the stacked frame, as a subscript store
    if isinstance(n, ast.Assign) and len(n.targets) == 1 and unparse(n.targets[0]) == "self._stacked" and \
            "self._stacked" in unparse(n.value):
        return True   # the frame is replaced by an edited copy of itself (assign / drop / ...)
    if isinstance(n, ast.Call) and isinstance(n.func, ast.Attribute) and n.func.attr in ("__setitem__", "insert", "update"):
        base = unparse(n.func.value)
        if "_stacked" in base or base in ("self.loc",):
            return True
    if isinstance(n, ast.Call) and any(k.arg == "inplace" and isinstance(k.value, ast.Constant) and k.value.value
                                       for k in n.keywords) and "_stacked" in unparse(n.func):
        return True
    return False


def _is_update_call(n: ast.AST) -> bool:
    return isinstance(n, ast.Call) and isinstance(n.func, ast.Attribute) and n.func.attr == "_update"


def rule_r3(ctx) -> List[R.Inst]:
    M = ctx.M
    insts = []
    classes = [c for c in M.classes if CTL not in c and (ST in M.mro(c) or c == LOCIX or LOCIX in M.mro(c))]
    # methods that are a complete write path themselves: a store through a PARAMETER (the caller hands in the stacked frame or its
    # loc indexer) followed by the write-back on every path.  A call of such a method is a write and its write-back in one.
    complete = set()
    for c in sorted(classes):
        for q, fn in sorted(M.funcs.items()):
            if fn.cls != c or fn.outer_fn is not None:
                continue
            ps_ = set(params_of(fn.node)) - {"self", "cls"}
            pw = [n for n in walk_no_nested(fn.node) if isinstance(n, (ast.Assign, ast.AugAssign)) and any(
                isinstance(t, ast.Subscript) and isinstance(t.value, ast.Name) and t.value.id in ps_
                for t in (n.targets if isinstance(n, ast.Assign) else [n.target]))]
            if pw and all(p.exit == "raise" or last_index(p, lambda x: x in pw) < last_index(p, _is_update_call)
                          for p in paths_through(fn.node.body)):
                complete.add(fn.name)

    def _writes(n):
        if _is_stack_write(n):
            return True
        return isinstance(n, ast.Call) and isinstance(n.func, ast.Attribute) and n.func.attr in complete

    def _updates(n):
        return _is_update_call(n) or (isinstance(n, ast.Call) and isinstance(n.func, ast.Attribute) and n.func.attr in complete)
    for c in sorted(classes):
        for q, fn in sorted(M.funcs.items()):
            if fn.cls != c or fn.outer_fn is not None or fn.name in ("__init__",):
                continue
            writes = [n for n in walk_no_nested(fn.node) if _writes(n)]
            if fn.name in complete and not writes:
                writes = [n for n in walk_no_nested(fn.node) if isinstance(n, (ast.Assign, ast.AugAssign))][:1]
            if not writes:
                continue
            file, line = fn_loc(M, q)
            key = short(q)
            bad = None
            for p in paths_through(fn.node.body):
                if p.exit == "raise":
                    continue
                w = last_index(p, _writes)
                if fn.name in complete:
                    w = max(w, last_index(p, lambda x: isinstance(x, (ast.Assign, ast.AugAssign)) and any(
                        isinstance(t, ast.Subscript) for t in (x.targets if isinstance(x, ast.Assign) else [x.target]))))
                if w < 0:
                    continue
                u = last_index(p, _updates)
                both = u == w and any(isinstance(x, ast.Call) and isinstance(x.func, ast.Attribute) and x.func.attr in complete
                                      for x in ast.walk(p.events[w]))
                if u < w or (u == w and not both):
                    # the update must come after the (last) write on this path (a call of a complete write path is both)
                    bad = p
                    break
            if bad is None:
                insts.append(R.ok("C12.R3", key, file, line, idiom="write to the stack, then _update() on every path"))
            else:
                insts.append(R.viol("C12.R3", key, file, writes[0].lineno,
                                    "a path writes into the stacked frame and returns without the write-back (_update): "
                                    "the underlying lists keep their old values",
                                    construct=unparse(writes[0])[:160]))
    # generated stack setters route to __setitem__
    q = M.gen_accessor("stack_props", "setter") or "reamber.base.Property.stack_props.<locals>.gen_props.<locals>.setter"
    fn = M.fn(q)
    file, line = fn_loc(M, q)
    body = [s for s in fn.node.body if not (isinstance(s, ast.Expr) and isinstance(s.value, ast.Constant))]
    ps_ = params_of(fn.node)
    # self[<the property's name>] = <the value>: the name is a defaulted parameter (k_=k) or a variable of the enclosing factory
    t0 = body[0].targets[0] if len(body) == 1 and isinstance(body[0], ast.Assign) else None
    name_ok = isinstance(t0, ast.Subscript) and unparse(t0.value) == (ps_[0] if ps_ else "self") and isinstance(t0.slice, ast.Name) and \
        (t0.slice.id in ps_[2:] or (fn.outer_fn is not None and t0.slice.id in params_of(M.fn(fn.outer_fn).node)))
    if name_ok and len(ps_) >= 2 and unparse(body[0].value) == ps_[1]:
        insts.append(R.ok("C12.R3", "stack_props.setter", file, line, idiom="self[k_] = val -> Stacker.__setitem__"))
    else:
        insts.append(R.viol("C12.R3", "stack_props.setter", file, line,
                            "the generated stack setter does not route through Stacker.__setitem__",
                            construct=unparse(body[0])[:120] if body else "empty"))
    return insts


# --------------------------------------------------------------------------- R4
def rule_r4(ctx) -> List[R.Inst]:
    M = ctx.M
    q = ST + "._update"
    fn = M.nfn(q, subst=True)
    file, line = fn_loc(M, q)
    loops = [_flat_zip(n) for n in walk_no_nested(fn.node) if isinstance(n, ast.For)]
    cur = _cursor_form(M.fn(q).node)
    if cur is not None and not (len(loops) == 1 and isinstance(loops[0].target, ast.Tuple) and len(loops[0].target.elts) == 3):
        _, _, o, i, j, body = cur
        loops = [cur[0]]
    elif len(loops) != 1 or not isinstance(loops[0].target, ast.Tuple) or len(loops[0].target.elts) != 3:
        return [R.undec("C12.R4", "_update.projection", file, line, "write-back loop not recognised")]
    else:
        o, i, j = [unparse(t) for t in loops[0].target.elts]
        body = loops[0].body
    # local single-assignment names are resolved into the final store; a transformation applied to the projected slice on the way
    # (astype, round, clip ...) is reported: the write-back hands each list its own rows of the stacked frame, values unchanged
    stores = [st for st in body if isinstance(st, ast.Assign) and isinstance(st.targets[0], ast.Attribute)]
    locs = {st.targets[0].id: st.value for st in body if isinstance(st, ast.Assign) and isinstance(st.targets[0], ast.Name)}
    if len(stores) == 1 and len(body) > 1 and all(isinstance(st, ast.Assign) for st in body):
        v = stores[0].value
        wrappers = []
        while True:
            if isinstance(v, ast.Name) and v.id in locs:
                v = locs[v.id]
                continue
            if isinstance(v, ast.Call) and isinstance(v.func, ast.Attribute) and v.func.attr in (
                    "astype", "round", "clip", "fillna", "convert_dtypes", "infer_objects", "apply", "map", "abs"):
                wrappers.append(v.func.attr)
                v = v.func.value
                continue
            break
        if wrappers:
            return [R.viol("C12.R4", "_update.projection", file, stores[0].lineno,
                           f"the rows written back to a list pass through '{wrappers[-1]}': an edit made on the stack reaches the list "
                           f"converted (a cast to the list's old integer dtypes truncates the fractional result of 'stack.offset /= 4'), so "
                           f"editing the stack no longer equals editing each list", construct=f"_update: {unparse(stores[0].value)[:100]} via {wrappers}")]
        body = [ast.Assign(targets=stores[0].targets, value=v, lineno=stores[0].lineno)]
    if len(body) != 1 or not isinstance(body[0], ast.Assign):
        return [R.undec("C12.R4", "_update.projection", file, loops[0].lineno,
                        "write-back body is not a single assignment of the list's frame")]
    a = body[0]
    tgt_ok = unparse(a.targets[0]) in (f"{o}.df", f"{o}._df")
    v = unparse(a.value).replace(" ", "")
    accepted = {
        f"self._stacked[{o}.df.columns].iloc[{i}:{j}]",
        f"self._stacked.iloc[{i}:{j}][{o}.df.columns]",
        f"self._stacked[{o}.df.columns][{i}:{j}]",
        f"self._stacked.iloc[{i}:{j}].loc[:,{o}.df.columns]",
        f"self._stacked.loc[:,{o}.df.columns].iloc[{i}:{j}]",
    }
    if tgt_ok and v in accepted:
        return [R.ok("C12.R4", "_update.projection", file, a.lineno, idiom="own columns, own positional slice")]
    why = []
    if not tgt_ok:
        why.append(f"assigns '{unparse(a.targets[0])}' instead of the list's frame")
    if ".loc[" in v and ".iloc[" not in v:
        why.append("slices by label instead of by position")
    if f"{o}.df.columns" not in v:
        why.append("does not restrict the stack to the list's own columns")
    if f"{i}:{j}" not in v:
        why.append(f"does not take the rows [{i}:{j})")
    return [R.viol("C12.R4", "_update.projection", file, a.lineno, "; ".join(why) or "projection shape not accepted",
                   construct=unparse(a)[:200])]


# --------------------------------------------------------------------------- R5
def rule_r5(ctx) -> List[R.Inst]:
    M = ctx.M
    insts = []
    for c in concrete_classes(M, "chart"):
        sc = M.stacker_class(c)
        props = M.stacker_props(sc)
        cols = set()
        for lc in M.map_slots(c).values():
            cols |= set(M.list_columns(lc))
        file = M.mods[M.classes[sc].mod].rel
        line = M.classes[sc].node.lineno
        missing = [p for p in props if p not in cols]
        key = f"{c.split('.')[-1]}.Stacker"
        import json as _json, pathlib as _pl
        frozen = _json.loads((_pl.Path(__file__).resolve().parent.parent / "tables" / "stack_props.json").read_text())["props"]
        lost = sorted(set(frozen.get(c.split(".")[-1], [])) - set(props))
        if lost:
            insts.append(R.viol("C12.R5", key, file, line,
                                f"documented stacked propert{'ies' if len(lost) > 1 else 'y'} {lost} no longer generated for "
                                f"{c.split('.')[-1]}.Stacker: 'stack.{lost[0]} = v' now sets an attribute on the Stacker object and "
                                f"writes nothing to the lists", construct=f"{key} lacks {lost}"))
        elif missing:
            insts.append(R.viol("C12.R5", key, file, line,
                                f"stackable name(s) {missing} are not a field of any list of {c.split('.')[-1]}",
                                construct=f"{key} {missing}"))
        else:
            insts.append(R.ok("C12.R5", key, file, line, idiom=f"{len(props)} names resolve"))
    stack_defs = [MAP + ".stack"] + sorted(c + ".stack" for c in M.subclasses(MAP) if c != MAP and (c + ".stack") in M.funcs)
    for q in stack_defs:
        n0 = len(insts)
        _stack_insts(M, q, insts)
        for i in insts[n0:]:
            i.reach = (MAP + ".stack", q)   # a call on a statically unknown chart resolves to Map.stack
    return insts


def _stack_insts(M, q, insts):
    """one definition of stack() in the chart hierarchy: most-derived Stacker, lists = the chart's declared slots"""
    owner = q.rsplit(".", 2)[-2]
    fn = M.nfn(q, comps=True)        # (a list filled by an append loop reads as the comprehension it is)
    file, line = fn_loc(M, q)
    rets = returns_of(fn.node)
    inst_ok = len(rets) == 1 and isinstance(rets[0].value, ast.Call) and unparse(rets[0].value.func) in (
        "self.Stacker", "type(self).Stacker", "self.__class__.Stacker")
    own_calls = [c for c in ast.walk(fn.node) if isinstance(c, ast.Call) and unparse(c.func) in ("self.Stacker", "type(self).Stacker", "self.__class__.Stacker")]
    other_ctor = [c for c in ast.walk(fn.node) if isinstance(c, ast.Call) and unparse(c.func).endswith("Stacker") and c not in own_calls]
    if inst_ok:
        insts.append(R.ok("C12.R5", f"{owner}.stack.class", file, rets[0].lineno, idiom="self.Stacker (most derived)"))
    elif own_calls and not other_ctor:
        # the chart's own Stacker is built, but what the function returns is not that call itself (kept, looked up, chosen …)
        insts.append(R.undec("C12.R5", f"{owner}.stack.class", file, own_calls[0].lineno,
                             "self.Stacker(..) is built but the value returned is not that call: which object a caller gets is not decided here"))
    else:
        insts.append(R.viol("C12.R5", f"{owner}.stack.class", file, line,
                            "stack() does not instantiate the chart class's own Stacker: game-specific stacked names are lost",
                            construct=unparse(rets[0].value)[:120] if rets else "no return"))
    # selection of lists: all values of self.objs, or an isinstance filter over them (any spelling: sa/seqexpr.py)
    env = SE.Env(fn.node)
    alts = None
    if rets and isinstance(rets[0].value, ast.Call) and rets[0].value.args:
        alts = SE.describe(rets[0].value.args[0], env.at.get(id(rets[0]), env.final))
    flt = "isinstance(_, include_types)"
    if alts is None:
        # not a recognised sequence expression: fall back on the comprehensions the function contains
        insts.append(R.undec("C12.R5", f"{owner}.stack.selection", file, line,
                             "what is handed to the Stacker is not a recognised order-preserving sequence expression over the chart's lists"))
        return
    good = all(a.base == "self.objs.values()" and a.elt == "_" and set(a.filters) <= {flt} for a in alts)
    unfiltered = [a for a in alts if not a.filters]
    if not (good and unfiltered):
        # per path: a local the filter goes through (`sel = object if include_types is None else include_types`) is put back and
        # decided on each side of its condition (isinstance(x, object) holds for everything)
        from .. import sympaths as SP
        from ..model import body_without_docstring
        try:
            paths = SP.enumerate_paths(body_without_docstring(fn.node))
        except OverflowError:
            paths = []
        palts = set()
        for p_ in paths:
            if p_.exit == "return" and isinstance(p_.ret, ast.Call) and p_.ret.args:
                d_ = SE.describe(p_.ret.args[0], {})
                if d_ is None:
                    palts = None
                    break
                palts |= set(d_)
            elif p_.exit != "raise":
                palts = None
                break
        if palts:
            alts = palts
            good = all(a.base == "self.objs.values()" and a.elt == "_" and set(a.filters) <= {flt} for a in alts)
            unfiltered = [a for a in alts if not a.filters]
    if good and unfiltered:
        insts.append(R.ok("C12.R5", f"{owner}.stack.selection", file, line, idiom="all lists, or isinstance(list, include_types)"))
    else:
        insts.append(R.viol("C12.R5", f"{owner}.stack.selection", file, line,
                            "the lists handed to the Stacker are not (all lists | lists of the requested types) in slot order",
                            construct="; ".join(sorted(str(a) for a in alts))[:200]))


# --------------------------------------------------------------------------- R6
def rule_r6(ctx) -> List[R.Inst]:
    M = ctx.M
    insts = []
    q = MAPSET + ".stack"
    fn = M.fn(q)
    file, line = fn_loc(M, q)
    rets = returns_of(fn.node)
    good = False
    if len(rets) == 1 and isinstance(rets[0].value, ast.Call) and rets[0].value.args and \
            isinstance(rets[0].value.args[0], ast.ListComp):
        lc = rets[0].value.args[0]
        g = lc.generators[0]
        good = not g.ifs and unparse(g.iter) in ("self", "self.maps") and \
            unparse(lc.elt) == f"{unparse(g.target)}.stack()" and unparse(rets[0].value.func) == "self.Stacker"
    insts.append(R.ok("C12.R6", "MapSet.stack", file, line, idiom="[m.stack() for m in self] in chart order") if good else
                 R.viol("C12.R6", "MapSet.stack", file, line, "per-chart stackers are not built for every chart in chart order",
                        construct=unparse(rets[0].value)[:160] if rets else "no return"))
    q = MAPSET_STACKER + ".__getitem__"
    fn = M.fn(q)
    file, line = fn_loc(M, q)
    item_p = params_of(fn.node)[1]
    rets = returns_of(fn.node)
    if len(rets) == 1 and not any(isinstance(n, (ast.ListComp, ast.GeneratorExp)) for n in ast.walk(rets[0].value)):
        # the rows collected by an append loop and named before the frame is built: read as the comprehension it is
        fn = M.nfn(q, comps=True, subst=True)
        rets = returns_of(fn.node)
    good = False
    unread = False
    why = "the stacked frame does not have one row per chart, in chart order"
    if len(rets) == 1:
        lcs = [n for n in ast.walk(rets[0].value) if isinstance(n, (ast.ListComp, ast.GeneratorExp))]
        unread = not lcs
        if len(lcs) == 1 and len(lcs[0].generators) == 1:
            g = lcs[0].generators[0]
            if g.ifs:
                why = (f"charts are filtered out of the stacked frame ({unparse(g.ifs[0])}) while __setitem__ pairs rows with ALL "
                       f"charts by position: rows shift to the wrong chart")
            elif unparse(g.iter) == "self.stackers" and unparse(lcs[0].elt) == f"{unparse(g.target)}[{item_p}]":
                v = rets[0].value
                if isinstance(v, ast.Call) and unparse(v.func).endswith("DataFrame") and v.args and v.args[0] is lcs[0]:
                    good = True
                elif "inner" in unparse(v):
                    why = ("the per-chart rows are joined with join='inner': the frame is cut to the shortest chart, so the tail rows "
                           "of longer charts become NaN on write-back")
                else:
                    why = f"the per-chart rows are combined by '{unparse(v)[:60]}', not as one DataFrame row per chart"
    insts.append(R.ok("C12.R6", "MapSet.Stacker.__getitem__", file, line, idiom="one row per stacker: [s[item] for s in self.stackers]") if good else
                 R.undec("C12.R6", "MapSet.Stacker.__getitem__", file, line, "how the per-chart rows are collected was not recognised") if unread else
                 R.viol("C12.R6", "MapSet.Stacker.__getitem__", file, line, why,
                        construct=unparse(rets[0].value)[:160] if rets else "no return"))
    q = MAPSET_STACKER + ".__setitem__"
    fn = M.fn(q)
    file, line = fn_loc(M, q)
    ps = params_of(fn.node)
    key_p, val_p = ps[1], ps[2]
    loops = [n for n in walk_no_nested(fn.node) if isinstance(n, ast.For)]
    good = False
    if len(loops) == 1 and isinstance(loops[0].iter, ast.Call) and unparse(loops[0].iter.func) == "zip":
        args = [unparse(a) for a in loops[0].iter.args]
        tg = [unparse(t) for t in loops[0].target.elts] if isinstance(loops[0].target, ast.Tuple) else []
        body = loops[0].body
        good = args == ["self.stackers", f"{val_p}.iloc"] and len(tg) == 2 and len(body) == 1 and \
            unparse(body[0]).replace(" ", "") == f"{tg[0]}[{key_p}]={tg[1]}"
    idiom6 = "zip(stackers, value.iloc): row i -> chart i"
    if not good:
        # index form: for n in range(<count>): self.stackers[n][key] = value.iloc[n]   (locals bound once put back)
        fn2 = M.nfn(q, subst=True)
        loops2 = [n for n in walk_no_nested(fn2.node) if isinstance(n, ast.For)]
        if len(loops2) == 1 and isinstance(loops2[0].target, ast.Name) and isinstance(loops2[0].iter, ast.Call) and \
                unparse(loops2[0].iter.func) == "range" and len(loops2[0].iter.args) == 1 and len(loops2[0].body) == 1:
            ix = loops2[0].target.id
            cnt = unparse(loops2[0].iter.args[0]).replace(" ", "")
            counts = {f"min(len(self.stackers),len({val_p}))", f"min(len({val_p}),len(self.stackers))", "len(self.stackers)", f"len({val_p})"}
            st = unparse(loops2[0].body[0]).replace(" ", "")
            if cnt in counts and st == f"self.stackers[{ix}][{key_p}]={val_p}.iloc[{ix}]":
                good = True
                idiom6 = f"for n in range({cnt}): stackers[n][key] = value.iloc[n]: row n -> chart n"
    recognised = good or (len(loops) == 1 and isinstance(loops[0].iter, ast.Call) and unparse(loops[0].iter.func) in ("zip", "range"))
    if not good:
        # cursor form: for k, s in enumerate(self.stackers): row = value.iloc[k] (IndexError: no more rows -> stop); s[key] = row
        fn3 = M.nfn(q, subst=True)
        for lp in [n for n in walk_no_nested(fn3.node) if isinstance(n, ast.For)]:
            if isinstance(lp.iter, ast.Call) and unparse(lp.iter.func) == "enumerate" and len(lp.iter.args) == 1 and not lp.iter.keywords and \
                    unparse(lp.iter.args[0]) == "self.stackers" and isinstance(lp.target, ast.Tuple) and len(lp.target.elts) == 2 and \
                    all(isinstance(t, ast.Name) for t in lp.target.elts):
                k_, s_ = lp.target.elts[0].id, lp.target.elts[1].id
                stores = [x for x in ast.walk(lp) if isinstance(x, ast.Assign) and len(x.targets) == 1 and isinstance(x.targets[0], ast.Subscript) and
                          unparse(x.targets[0]).replace(" ", "") == f"{s_}[{key_p}]"]
                rowdefs = {x.targets[0].id: x.value for x in ast.walk(lp) if isinstance(x, ast.Assign) and len(x.targets) == 1 and isinstance(x.targets[0], ast.Name)}
                if len(stores) == 1:
                    v_ = stores[0].value
                    v_ = rowdefs.get(v_.id, v_) if isinstance(v_, ast.Name) else v_
                    recognised = True
                    if unparse(v_).replace(" ", "") == f"{val_p}.iloc[{k_}]":
                        good = True
                        idiom6 = f"for k, s in enumerate(stackers): s[key] = value.iloc[k]: row k -> chart k"
    if good:
        insts.append(R.ok("C12.R6", "MapSet.Stacker.__setitem__", file, line, idiom=idiom6))
    elif recognised:
        insts.append(R.viol("C12.R6", "MapSet.Stacker.__setitem__", file, line,
                            "rows of the assigned frame are not paired positionally with the per-chart stackers",
                            construct=unparse(loops[0])[:160] if loops else "no loop"))
    else:
        insts.append(R.undec("C12.R6", "MapSet.Stacker.__setitem__", file, line,
                             "how the rows of the assigned frame are dealt out to the per-chart stackers was not recognised"))
    return insts


# --------------------------------------------------------------------------- R7
def rule_r7(ctx) -> List[R.Inst]:
    M, E = ctx.M, ctx.E
    q = ST + "._update"
    file, line = fn_loc(M, q)
    s = E.summary(q)
    extra = sorted(r for r in s.mut if r != ("self", "_unstacked"))
    if ("self", "_unstacked") in s.mut and not extra:
        return [R.ok("C12.R7", "_update.writes", file, line, idiom="Mut = {self._unstacked[*].df}")]
    if not s.mut:
        return [R.viol("C12.R7", "_update.writes", file, line, "write-back does not write the stacked lists at all",
                       construct="_update Mut = {}")]
    return [R.viol("C12.R7", "_update.writes", file, line,
                   f"write-back also modifies {extra}", construct=f"_update Mut = {sorted(s.mut)}")]


# --------------------------------------------------------------------------- R8
def rule_r8(ctx) -> List[R.Inst]:
    """one stacked frame: every view of it kept on the stacker (a loc indexer, a cached column) stays valid only while
    `_stacked` is never rebound after construction — either nothing derived from the frame is stored, or the frame is
    only ever edited in place"""
    M = ctx.M
    insts = []
    for c in sorted(k for k in M.classes if CTL not in k and ST in M.mro(k)):
        own = [(q, fn) for q, fn in sorted(M.funcs.items()) if fn.cls == c and fn.outer_fn is None]
        if not own:
            continue
        file = M.mods[M.classes[c].mod].rel
        rebinds, derived = [], []
        for q, fn in own:
            for n in walk_no_nested(fn.node):
                if isinstance(n, ast.Assign) and len(n.targets) == 1 and isinstance(n.targets[0], ast.Attribute) and \
                        unparse(n.targets[0].value) == "self":
                    attr = n.targets[0].attr
                    if attr == "_stacked":
                        if fn.name != "__init__":
                            rebinds.append((fn, n))
                    elif "self._stacked" in unparse(n.value):
                        derived.append((fn, n, attr))
        key = short(c) + ".frame-identity"
        line = M.classes[c].node.lineno
        if rebinds and derived:
            fn, n, attr = derived[0]
            rf, rn = rebinds[0]
            insts.append(R.viol("C12.R8", key, file, n.lineno,
                                f"'{attr}' is built once from the stacked frame ({unparse(n.value)[:60]}) but {rf.name} replaces the "
                                f"frame (line {rn.lineno}): after the first such edit '{attr}' still addresses the old frame, so later "
                                f"edits through it never reach the lists", construct=f"self.{attr} from _stacked; {rf.name} rebinds _stacked"))
        else:
            insts.append(R.ok("C12.R8", key, file, line,
                              idiom=("frame never rebound after __init__" if not rebinds else "frame rebound, nothing derived from it is kept")))
    return insts


def rule_r9(ctx) -> List[R.Inst]:
    """re-definitions of decided chart operations (other than stack(), which R5 decides for every definition, and rate(),
    which the rate model of C13 follows through the super chain) below Map and MapSet"""
    from .overrides import map_override_insts, MAP_OPS
    return map_override_insts(ctx, "C12.R9", ops=MAP_OPS - {"stack"})


def rule_r10(ctx) -> List[R.Inst]:
    """the stacker is a snapshot: __init__ concatenates COPIES of the lists' frames and _update writes every column of every
    stacked list back from that snapshot.  Whatever changed the lists in between — a second stacker, a direct list edit — is
    reverted by the next write through this stacker, and an in-place edit of a column obtained from the getter reaches the lists
    only with the next unrelated write"""
    M = ctx.M
    rid = "C12.R10"
    ini = M.fn(ST + ".__init__")
    upd = M.fn(ST + "._update")
    file = M.mods[upd.mod].rel
    snapshot = any(isinstance(n, ast.Call) and unparse(n.func).endswith("concat") for n in ast.walk(ini.node))
    whole = any(isinstance(n, ast.Assign) and isinstance(n.targets[0], ast.Attribute) and n.targets[0].attr in ("df", "_df") and
                "columns" in unparse(n.value) for n in ast.walk(upd.node))
    key_only = any(isinstance(a, ast.arg) and a.arg in ("key", "keys", "columns", "cols") for a in upd.node.args.args)
    if snapshot and whole and not key_only:
        return [R.viol(rid, "snapshot-write-back", file, upd.node.lineno,
                       "_update writes ALL columns of ALL stacked lists from the stacker's private copy, not just the assigned column: with two "
                       "live stackers (s_hits.offset += 1000; s_all.column += 1) the second write restores the old offsets, and a direct "
                       "edit of a list between two stack operations is reverted the same way — 'changes exactly the selected columns and "
                       "nothing else' fails for such sequences", construct="Stacker: snapshot in __init__, whole-frame write-back in _update")]
    return [R.ok(rid, "snapshot-write-back", file, upd.node.lineno, idiom="write-back limited to the assigned column(s) / live frames")]


def rule_dep(ctx):
    """obligations inherited from shared code reached through the call graph (sa/props/deps.py)"""
    from .deps import dep_insts
    return dep_insts(ctx, "C12", ["reamber.base.Map.Map.stack", "reamber.base.MapSet.MapSet.stack", "reamber.base.Map.Map.Stacker._update"], skip_groups=("stack",))


SPECS = [
    RuleSpec("C12.R1", rule_r1, 4, "A5", "boundaries, concatenation and write-back derive from one list in one order"),
    RuleSpec("C12.R2", rule_r2, 1, "A4", "the stacked frame has a fresh positional index"),
    RuleSpec("C12.R3", rule_r3, 3, "A8", "every write to the stack is followed by the write-back on all paths"),
    RuleSpec("C12.R4", rule_r4, 1, "A2", "write-back projects each list's own columns and positional slice"),
    RuleSpec("C12.R5", rule_r5, 8, "M0", "stackable names resolve; stack() uses the most-derived Stacker and the type filter"),
    RuleSpec("C12.R6", rule_r6, 3, "A5", "mapset stack: chart order, row-wise broadcast"),
    RuleSpec("C12.R7", rule_r7, 1, "A3", "write-back writes the stacked lists' frames and nothing else"),
    RuleSpec("C12.R8", rule_r8, 1, "A8", "views of the stacked frame kept on the stacker stay valid: the frame is not rebound while such a view exists"),
    RuleSpec("C12.R9", rule_r9, 2, "M0", "chart operations re-defined below Map / MapSet forward to the decided definition"),
    RuleSpec("C12.R10", rule_r10, 1, "A3", "write-back scope: a stack edit writes the edited column, not a stale snapshot of everything"),
    RuleSpec("C12.D", rule_dep, 1, "M0", "rules of the shared code (timing engine, list classes, stacker) that the operations of this property reach"),
]

META = dict(
    explanation=(
        "Stacker structure: the cumulative boundaries, the concatenation and the write-back zip all derive from the "
        "constructor's list in one order with consecutive boundaries; the stacked frame is re-indexed positionally; "
        "every method of Stacker, its subclasses and its loc indexer that stores into the stacked frame reaches "
        "_update afterwards on every path (path enumeration); write-back assigns each list the stack restricted to "
        "the list's own columns and its own iloc slice; every stackable name is a declared field of some list of the "
        "chart; mapset stacks pair charts and rows positionally; _update's effect set is exactly the stacked lists. Every definition of stack() in the chart hierarchy selects exactly the declared slots (R5); a view of the stacked frame kept on the stacker cannot coexist with a re-binding of that frame (R8); chart operations re-defined below Map / MapSet forward to the decided definition (R9)."),
    not_decided="pandas' own arithmetic and broadcasting",
)
