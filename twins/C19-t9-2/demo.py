"""Exercises reamber.algorithms.generate.sv_normalize on a broad, deterministic set of
osu! and Quaver charts and prints one sha256 digest over everything observed."""
import hashlib
import os
import random
import sys
import warnings

import numpy as np
import pandas as pd

from reamber.algorithms.generate import sv_normalize
from reamber.osu import OsuMap, OsuBpm, OsuSv, OsuHit, OsuHold
from reamber.osu.lists import OsuBpmList, OsuSvList
from reamber.osu.lists.notes import OsuHitList, OsuHoldList
from reamber.quaver import QuaMap, QuaBpm, QuaSv, QuaHit, QuaHold
from reamber.quaver.lists import QuaBpmList, QuaSvList
from reamber.quaver.lists.notes import QuaHitList, QuaHoldList
from reamber.sm import SMMap, SMBpm, SMHit
from reamber.sm.lists import SMBpmList
from reamber.sm.lists.notes import SMHitList

random.seed(20019)

GAMES = {
    "osu": (OsuMap, OsuBpm, OsuBpmList, OsuHit, OsuHitList, OsuHold, OsuHoldList, OsuSv, OsuSvList),
    "qua": (QuaMap, QuaBpm, QuaBpmList, QuaHit, QuaHitList, QuaHold, QuaHoldList, QuaSv, QuaSvList),
}


def bpm_item(game, o, b):
    if game == "osu":
        return OsuBpm(
            o,
            b,
            metronome=random.choice([3, 4, 7]),
            sample_set=random.choice([0, 1, 2, 3]),
            sample_set_index=random.choice([0, 1, 9]),
            volume=random.choice([0, 5, 50, 100]),
            kiai=random.choice([False, True]),
        )
    return QuaBpm(o, b, metronome=random.choice([3, 4, 7]))


def make(game, bpms, hits, holds=(), svs=(), relabel=None, extra_col=False):
    """bpms: [(offset, bpm)], hits: [offset], holds: [(offset, length)], svs: [(offset, mult)]
    Rows are kept in the order given (so unsorted rows stay unsorted)."""
    M, Bpm, BpmL, Hit, HitL, Hold, HoldL, Sv, SvL = GAMES[game]
    kw = dict(keysounds=[]) if game == "qua" else {}
    m = M()
    m.bpms = BpmL([bpm_item(game, o, b) for o, b in bpms])
    m.hits = HitL([Hit(o, i % 4, **kw) for i, o in enumerate(hits)])
    if holds:
        m.holds = HoldL([Hold(o, i % 4, l, **kw) for i, (o, l) in enumerate(holds)])
    if svs:
        m.svs = SvL([Sv(o, x) for o, x in svs])
    df = m.bpms.df
    if relabel == "shuffled" and len(df) > 1:
        perm = list(range(len(df)))
        random.shuffle(perm)
        df = df.iloc[perm]
    elif relabel == "duplicate":
        df = df.set_axis([i // 2 for i in range(len(df))], axis=0)
    elif relabel == "named":
        df = df.set_axis(pd.Index([10 * i + 3 for i in range(len(df))], name="row"), axis=0)
    if extra_col:
        df = df.assign(comment="x", multiplier=-7.0)
    m.bpms = BpmL(df)
    return m


def num(x):
    if isinstance(x, (bool, np.bool_)):
        return f"{type(x).__name__}:{bool(x)}"
    if isinstance(x, (float, np.floating)):
        return f"{type(x).__name__}:{float(x).hex()}"
    if isinstance(x, (int, np.integer)):
        return f"{type(x).__name__}:{int(x)}"
    return f"{type(x).__name__}:{x!r}"


def dump_df(df):
    out = [
        f"DataFrame cols={list(df.columns)} index={type(df.index).__name__}/{df.index.dtype}/{df.index.name!r} "
        f"labels=[{','.join(num(i) for i in df.index)}]"
    ]
    for i, c in enumerate(df.columns):
        col = df.iloc[:, i]
        out.append(f"  {c}:{col.dtype}=[{','.join(num(v) for v in col)}]")
    return "\n".join(out)


def dump_map(m):
    return "\n".join(f" {k}:{type(v).__name__}\n{dump_df(v.df)}" for k, v in m.objs.items())


def observe(fn, *a, **k):
    with warnings.catch_warnings(record=True) as w:
        warnings.simplefilter("always")
        try:
            r = fn(*a, **k)
        except Exception as e:  # the exception type is part of the behaviour
            return f"RAISED {type(e).__name__}", None
    return r, sorted({x.category.__name__ for x in w})


def grid_offset(kind):
    if kind == "int":
        return random.randrange(-2000, 60000)
    if kind == "ms":
        return float(random.randrange(-2000, 60000))
    return random.uniform(-2000, 60000) + random.random() / 3


def random_chart(game):
    kind = random.choice(["int", "ms", "frac", "frac"])
    n_bpm = random.choice([1, 1, 2, 3, 4, 6, 9, 15, 40])
    pool = random.choice(
        [[120, 240], [60.0, 90.5, 181.0], [100, 150, 200, 300, 400], [173.21, 86.605, 140.0, 1e-3, 9999.0], [7, 3.0, 11, 13.5]]
    )
    offs = set()
    while len(offs) < n_bpm:  # two tempo points never share a time
        offs.add(grid_offset(kind))
    offs = sorted(offs)
    bpms = [(o, random.choice(pool)) for o in offs]
    first = offs[0]
    span = random.choice([1, 500, 30000, 90000])
    hits = [first + (random.randrange(0, span) if kind != "frac" else random.uniform(0, span)) for _ in range(random.choice([1, 1, 2, 5, 20]))]
    if random.random() < 0.2:
        hits[0] = first
    holds = []
    if random.random() < 0.4:
        holds = [(first + random.randrange(0, span), random.choice([1, 250, 4000.5])) for _ in range(random.choice([1, 3]))]
    svs = []
    if random.random() < 0.6:
        for _ in range(random.choice([1, 2, 5, 12])):
            c = random.random()
            if c < 0.3:
                o = random.choice(offs)  # coincides with a tempo point
            elif c < 0.4 and svs:
                o = random.choice(svs)[0]  # coincides with another SV
            else:
                o = grid_offset(kind)
            svs.append((o, random.choice([0.5, 1.0, 2.0, 0.01, 10.0, 1.37])))
    if random.random() < 0.6:  # unsorted rows
        random.shuffle(bpms)
        random.shuffle(hits)
        random.shuffle(svs)
    return make(
        game, bpms, hits, holds, svs,
        relabel=random.choice([None, None, "shuffled", "duplicate", "named"]),
        extra_col=random.random() < 0.15,
    )


charts = []
for g in GAMES:
    charts += [
        (f"{g}/single", make(g, [(0, 120)], [0])),
        (f"{g}/single-float", make(g, [(-50.5, 120.5)], [1000.25])),
        (f"{g}/suite-example", make(g, [(0, 100), (200, 200), (300, 400)], [0])),
        (f"{g}/tie", make(g, [(0, 200), (1000, 100)], [2000])),
        (f"{g}/tie-reversed-rows", make(g, [(1000, 100), (0, 200)], [2000])),
        (f"{g}/split-stretches", make(g, [(0, 100), (400, 150), (1000, 100), (1300, 150), (1500, 100)], [1600])),
        (f"{g}/zero-tail", make(g, [(0, 100), (100, 200), (300, 400)], [0, 300])),
        (f"{g}/bpm-after-last-object", make(g, [(0, 100), (100, 200), (5000, 400), (5001, 50)], [10, 150])),
        (f"{g}/negative-times", make(g, [(-3000, 90), (-1000, 180), (-10, 90)], [-10, -5], holds=[(-9, 3)])),
        (f"{g}/inexact-ratios", make(g, [(0.1, 130.0), (0.4, 131.0), (0.7, 3.0), (1.0, 7.0), (1.3, 130.0)], [1.6])),
        (f"{g}/int-bpm-float-offset", make(g, [(0.5, 100), (10.5, 300)], [11.5, 30.5])),
        (f"{g}/float-bpm-int-offset", make(g, [(0, 100.5), (10, 300.25)], [11, 30])),
        (f"{g}/svs-present", make(g, [(0, 100), (200, 200), (300, 400)], [50, 1000], svs=[(100, 2.0), (200, 0.5), (0, 3.0), (0, 4.0)])),
        (f"{g}/shuffled-labels", make(g, [(0, 100), (10, 300), (35, 100), (40, 7)], [55], relabel="shuffled")),
        (f"{g}/duplicate-labels", make(g, [(0, 100), (10, 300), (35, 100), (40, 7), (50, 8)], [55], relabel="duplicate")),
        (f"{g}/named-index", make(g, [(0, 100), (10, 300), (35, 100)], [55], relabel="named")),
        (f"{g}/extra-columns", make(g, [(0, 100), (10, 300), (35, 100)], [55], extra_col=True)),
        # outside the domain (bpm <= 0), but pinned anyway: no exception, inf / negative multipliers
        (f"{g}/zero-and-negative-bpm", make(g, [(0, 100.0), (10, 0.0), (35, -50.0)], [55])),
    ]
for i in range(80):
    g = list(GAMES)[i % 2]
    charts.append((f"{g}/random{i}", random_chart(g)))

# outside the domain: no tempo point (ValueError without override), no SV list (AttributeError)
for g in GAMES:
    m = GAMES[g][0]()
    m.hits = GAMES[g][4]([GAMES[g][3](5, 0, **(dict(keysounds=[]) if g == "qua" else {}))])
    charts.append((f"{g}/no-bpm", m))
sm = SMMap()
sm.bpms = SMBpmList([SMBpm(0, 120), SMBpm(100, 60)])
sm.hits = SMHitList([SMHit(0, 0), SMHit(400, 1)])
charts.append(("sm/no-svs", sm))

OVERRIDES = [None, 0, 0.0, 150, 0.75, 1e6, np.float64(222.5), np.int64(90), True]

lines = []
for name, m in charts:
    before = dump_map(m)
    lines.append(f"== {name}")
    for ov in OVERRIDES:
        r, cats = observe(sv_normalize, m) if ov is None else observe(sv_normalize, m, override_bpm=ov)
        if isinstance(r, str):
            lines.append(f"sv_normalize({ov!r}) -> {r}")
            continue
        lines.append(f"sv_normalize({num(ov)}) -> {type(r).__name__} warnings={cats} is_copy={r.df._is_copy is None}")
        lines.append(dump_df(r.df))
        # every tempo point got exactly one SV, at its time, in the rows' order
        lines.append(f"rows={len(r)} same_labels={r.df.index.equals(m.bpms.df.index)} fresh_index={r.df.index is not m.bpms.df.index}")
        # the result must not be tied to the chart: scribble over it and compare the chart
        with warnings.catch_warnings(record=True) as w:
            warnings.simplefilter("always")
            r.df.iloc[:, :] = 0
            r.df.index.name = "scribble"
            r.offset = 12345
            lines.append(f"scribble warnings={sorted({x.category.__name__ for x in w})}")
        lines.append("after scribble: chart " + ("UNCHANGED" if dump_map(m) == before else "MODIFIED"))
    after = dump_map(m)
    lines.append("input " + ("UNCHANGED" if before == after else "MODIFIED"))
    lines.append(after)

text = "\n".join(lines)
print(f"charts={len(charts)} lines={len(lines)} chars={len(text)}", file=sys.stderr)
if os.environ.get("DEMO_DUMP"):
    open(os.environ["DEMO_DUMP"], "w").write(text)
print("DIGEST " + hashlib.sha256(text.encode()).hexdigest())
