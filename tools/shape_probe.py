#!/usr/bin/env python3
"""shape_probe.py [MODE ...] [Cxx ...] — robustness probe: machine-made behaviour-preserving re-spellings of every function a
check consults.

Like tools/alpha_rename.py, but the edit changes the SHAPE of the syntax tree instead of the names.  For each property, each
function its rules ask the model for is rewritten one at a time, IN MEMORY, by one of these modes, and the property's own rules
are re-evaluated on the overlay; a new violation or a new analysis error is reported.  Nothing is executed, /repo is not touched.

    swap-eq     a == b  ->  b == a ;  a != b  ->  b != a          (both operands free of calls)
    flip-if     if c: A else: B  ->  if not c: B else: A          (a plain else, not an elif chain)
    flip-ifexp  x if c else y  ->  y if not c else x
    kw-order    f(a=1, b=2)  ->  f(b=2, a=1)                      (keyword values free of calls; no ** argument)
    split-tuple a, b = x, y  ->  a = x; b = y                     (y does not read a; plain names on the left)
    named-ret   return E  ->  result__ = E; return result__       (E not a bare name / constant)
    and-chain   a <= x <= b  ->  a <= x and x <= b                (x free of calls)
    comp-loop   v = [E for x in S if c]  ->  v = []; for x in S: if c: v.append(E)     (one generator, a plain name on the left)
    else-return if c: ..; return A  else: B  ->  if c: ..; return A  B                 (the else of a branch that always returns is hoisted)
    dict-call   dict(a=x, b=y)  ->  {"a": x, "b": y}
    dict-display {"a": x, "b": y}  ->  dict(a=x, b=y)                                  (every key a string that is an identifier)
    loop-comp   v = []; for x in S: [if c:] v.append(E)  ->  v = [E for x in S if c]   (adjacent; the loop body is that one statement)
    ret-ifexp   if c: return A  return B  ->  return A if c else B                     (adjacent; both values present)
    attr-local  self.a ... self.a  ->  a__ = self.a  at the top; a__ ... a__          (an attribute of self read at least twice, never stored)
    chain-split v = a.f(..).g(..)  ->  chain__ = a.f(..); v = chain__.g(..)            (an assignment whose value is a method on a call)

    python3-vt tools/shape_probe.py swap-eq C07
"""
import ast, copy, os, sys, pathlib
from concurrent.futures import ProcessPoolExecutor
sys.path.insert(0, str(pathlib.Path(__file__).resolve().parent.parent))
sys.path.insert(0, str(pathlib.Path(__file__).resolve().parent))
from alpha_rename import consulted, ROOT, ALL      # noqa: E402

MODES = ["swap-eq", "flip-if", "flip-ifexp", "kw-order", "split-tuple", "named-ret", "and-chain", "comp-loop", "else-return", "dict-call", "dict-display", "chain-split", "loop-comp", "ret-ifexp", "attr-local"]


def _pure(e):
    return not any(isinstance(x, (ast.Call, ast.Await, ast.Yield, ast.YieldFrom, ast.NamedExpr)) for x in ast.walk(e))


def _neg(t):
    if isinstance(t, ast.UnaryOp) and isinstance(t.op, ast.Not):
        return t.operand
    return ast.UnaryOp(op=ast.Not(), operand=t)


class _T(ast.NodeTransformer):
    def __init__(self, mode, top):
        self.mode, self.n, self.top = mode, 0, top

    def visit_FunctionDef(self, n):
        return self.generic_visit(n)

    def visit_Compare(self, n):
        n = self.generic_visit(n)
        if self.mode == "swap-eq" and len(n.ops) == 1 and isinstance(n.ops[0], (ast.Eq, ast.NotEq)) and _pure(n.left) and _pure(n.comparators[0]):
            self.n += 1
            return ast.Compare(left=n.comparators[0], ops=n.ops, comparators=[n.left])
        if self.mode == "and-chain" and len(n.ops) == 2 and _pure(n.comparators[0]):
            self.n += 1
            return ast.BoolOp(op=ast.And(), values=[ast.Compare(left=n.left, ops=[n.ops[0]], comparators=[n.comparators[0]]),
                                                    ast.Compare(left=copy.deepcopy(n.comparators[0]), ops=[n.ops[1]], comparators=[n.comparators[1]])])
        return n

    def visit_If(self, n):
        n = self.generic_visit(n)
        if self.mode == "flip-if" and n.orelse and not (len(n.orelse) == 1 and isinstance(n.orelse[0], ast.If)):
            self.n += 1
            return ast.If(test=_neg(n.test), body=n.orelse, orelse=n.body)
        return n

    def visit_IfExp(self, n):
        n = self.generic_visit(n)
        if self.mode == "flip-ifexp":
            self.n += 1
            return ast.IfExp(test=_neg(n.test), body=n.orelse, orelse=n.body)
        return n

    def visit_Dict(self, n):
        n = self.generic_visit(n)
        import keyword
        if self.mode == "dict-display" and n.keys and all(isinstance(k, ast.Constant) and isinstance(k.value, str) and k.value.isidentifier() and
                                                          not keyword.iskeyword(k.value) for k in n.keys) and len({k.value for k in n.keys}) == len(n.keys):
            self.n += 1
            return ast.Call(func=ast.Name(id="dict", ctx=ast.Load()), args=[], keywords=[ast.keyword(arg=k.value, value=v) for k, v in zip(n.keys, n.values)])
        return n

    def visit_Call(self, n):
        n = self.generic_visit(n)
        if self.mode == "dict-call" and isinstance(n.func, ast.Name) and n.func.id == "dict" and not n.args and n.keywords and all(k.arg for k in n.keywords):
            self.n += 1
            return ast.Dict(keys=[ast.Constant(value=k.arg) for k in n.keywords], values=[k.value for k in n.keywords])
        if self.mode == "kw-order" and len(n.keywords) >= 2 and all(k.arg for k in n.keywords) and all(_pure(k.value) for k in n.keywords):
            self.n += 1
            n.keywords = list(reversed(n.keywords))
        return n

    def _stmts(self, body):
        out = []
        for st in body:
            if self.mode == "split-tuple" and isinstance(st, ast.Assign) and len(st.targets) == 1 and isinstance(st.targets[0], ast.Tuple) and \
                    isinstance(st.value, ast.Tuple) and len(st.targets[0].elts) == len(st.value.elts) and \
                    all(isinstance(t, ast.Name) for t in st.targets[0].elts):
                names = [t.id for t in st.targets[0].elts]
                ok = all(not any(isinstance(x, ast.Name) and x.id in names[:i] for x in ast.walk(v)) for i, v in enumerate(st.value.elts))
                if ok:
                    self.n += 1
                    for t, v in zip(st.targets[0].elts, st.value.elts):
                        out.append(ast.copy_location(ast.Assign(targets=[t], value=v), st))
                    continue
            if self.mode == "comp-loop" and isinstance(st, ast.Assign) and len(st.targets) == 1 and isinstance(st.targets[0], ast.Name) and \
                    isinstance(st.value, ast.ListComp) and len(st.value.generators) == 1 and not st.value.generators[0].is_async and \
                    not any(isinstance(x, ast.Name) and x.id == st.targets[0].id for x in ast.walk(st.value)):
                self.n += 1
                g = st.value.generators[0]
                app = ast.Expr(value=ast.Call(func=ast.Attribute(value=ast.Name(id=st.targets[0].id, ctx=ast.Load()), attr="append", ctx=ast.Load()),
                                              args=[st.value.elt], keywords=[]))
                body = [app]
                for c in reversed(g.ifs):
                    body = [ast.If(test=c, body=body, orelse=[])]
                out.append(ast.copy_location(ast.Assign(targets=[st.targets[0]], value=ast.List(elts=[], ctx=ast.Load())), st))
                out.append(ast.copy_location(ast.For(target=g.target, iter=g.iter, body=body, orelse=[]), st))
                continue
            if self.mode == "else-return" and isinstance(st, ast.If) and st.orelse and st.body and isinstance(st.body[-1], (ast.Return, ast.Raise, ast.Continue)) and \
                    not (len(st.orelse) == 1 and isinstance(st.orelse[0], ast.If)):
                self.n += 1
                tail = st.orelse
                st.orelse = []
                out.append(st)
                out.extend(tail)
                continue
            if self.mode == "chain-split" and isinstance(st, ast.Assign) and len(st.targets) == 1 and isinstance(st.value, ast.Call) and \
                    isinstance(st.value.func, ast.Attribute) and isinstance(st.value.func.value, ast.Call) and \
                    not (isinstance(st.value.func.value.func, ast.Name) and st.value.func.value.func.id == "super"):
                self.n += 1
                out.append(ast.copy_location(ast.Assign(targets=[ast.Name(id=f"chain{self.n}__", ctx=ast.Store())], value=st.value.func.value), st))
                st.value.func.value = ast.Name(id=f"chain{self.n}__", ctx=ast.Load())
                out.append(st)
                continue
            if self.mode == "loop-comp" and out and isinstance(st, ast.For) and not st.orelse and len(st.body) == 1 and isinstance(out[-1], ast.Assign) and \
                    len(out[-1].targets) == 1 and isinstance(out[-1].targets[0], ast.Name) and isinstance(out[-1].value, ast.List) and not out[-1].value.elts:
                nm = out[-1].targets[0].id
                b, ifs = st.body[0], []
                while isinstance(b, ast.If) and not b.orelse and len(b.body) == 1:
                    ifs.append(b.test)
                    b = b.body[0]
                if isinstance(b, ast.Expr) and isinstance(b.value, ast.Call) and isinstance(b.value.func, ast.Attribute) and b.value.func.attr == "append" and \
                        isinstance(b.value.func.value, ast.Name) and b.value.func.value.id == nm and len(b.value.args) == 1 and \
                        not any(isinstance(x, ast.Name) and x.id == nm for x in ast.walk(b.value.args[0])) and \
                        not any(isinstance(x, ast.Name) and x.id == nm for t_ in ifs for x in ast.walk(t_)):
                    self.n += 1
                    out[-1] = ast.copy_location(ast.Assign(targets=out[-1].targets, value=ast.ListComp(
                        elt=b.value.args[0], generators=[ast.comprehension(target=st.target, iter=st.iter, ifs=ifs, is_async=0)])), out[-1])
                    continue
            if self.mode == "ret-ifexp" and out and isinstance(st, ast.Return) and st.value is not None and isinstance(out[-1], ast.If) and not out[-1].orelse and \
                    len(out[-1].body) == 1 and isinstance(out[-1].body[0], ast.Return) and out[-1].body[0].value is not None:
                self.n += 1
                out[-1] = ast.copy_location(ast.Return(value=ast.IfExp(test=out[-1].test, body=out[-1].body[0].value, orelse=st.value)), out[-1])
                continue
            if self.mode == "named-ret" and isinstance(st, ast.Return) and st.value is not None and not isinstance(st.value, (ast.Name, ast.Constant)):
                self.n += 1
                out.append(ast.copy_location(ast.Assign(targets=[ast.Name(id="result__", ctx=ast.Store())], value=st.value), st))
                out.append(ast.copy_location(ast.Return(value=ast.Name(id="result__", ctx=ast.Load())), st))
                continue
            out.append(st)
        return out

    def generic_visit(self, node):
        node = super().generic_visit(node)
        if self.mode in ("split-tuple", "named-ret", "comp-loop", "else-return", "chain-split", "loop-comp", "ret-ifexp"):
            for fld in ("body", "orelse", "finalbody"):
                v = getattr(node, fld, None)
                if isinstance(v, list) and v and isinstance(v[0], ast.stmt):
                    setattr(node, fld, self._stmts(v))
        return node


def respell(src: str, lineno: int, name: str, mode: str):
    tree = ast.parse(src)
    target = None
    for n in ast.walk(tree):
        if isinstance(n, (ast.FunctionDef, ast.AsyncFunctionDef)) and n.lineno == lineno and n.name == name:
            target = n
    if target is None:
        return None
    first = min([target.lineno] + [d.lineno for d in target.decorator_list])
    last = target.end_lineno
    t = _T(mode, target)
    new = t.visit(copy.deepcopy(target))
    if mode == "attr-local":
        new = copy.deepcopy(target)
        if not (new.args.args and new.args.args[0].arg == "self"):
            return None
        loads, stores = {}, set()
        for x in ast.walk(new):
            if isinstance(x, ast.Attribute) and isinstance(x.value, ast.Name) and x.value.id == "self":
                if isinstance(x.ctx, ast.Load):
                    loads[x.attr] = loads.get(x.attr, 0) + 1
                else:
                    stores.add(x.attr)
        # not the receiver of a call (a method), not stored, not the base of a store (self.a[k] = v / self.a.b = v)
        called = {x.func.attr for x in ast.walk(new) if isinstance(x, ast.Call) and isinstance(x.func, ast.Attribute) and
                  isinstance(x.func.value, ast.Name) and x.func.value.id == "self"}
        based = {y.attr for x in ast.walk(new) if isinstance(x, (ast.Subscript, ast.Attribute)) and isinstance(x.ctx, (ast.Store, ast.Del))
                 for y in ast.walk(x.value) if isinstance(y, ast.Attribute) and isinstance(y.value, ast.Name) and y.value.id == "self"}
        nested = any(isinstance(x, (ast.FunctionDef, ast.Lambda, ast.ClassDef)) and x is not new for x in ast.walk(new))
        cand = sorted(a for a, k in loads.items() if k >= 2 and a not in stores and a not in called and a not in based and not a.startswith("__"))
        if not cand or nested:
            return None
        a = cand[0]

        class A(ast.NodeTransformer):
            def visit_Attribute(self, n):
                n = self.generic_visit(n)
                if isinstance(n.value, ast.Name) and n.value.id == "self" and n.attr == a and isinstance(n.ctx, ast.Load):
                    return ast.copy_location(ast.Name(id=a + "__", ctx=ast.Load()), n)
                return n
        new = A().visit(new)
        k0 = 1 if new.body and isinstance(new.body[0], ast.Expr) and isinstance(new.body[0].value, ast.Constant) and isinstance(new.body[0].value.value, str) else 0
        new.body.insert(k0, ast.Assign(targets=[ast.Name(id=a + "__", ctx=ast.Store())],
                                       value=ast.Attribute(value=ast.Name(id="self", ctx=ast.Load()), attr=a, ctx=ast.Load())))
        t.n = 1
    if not t.n:
        return None
    ast.fix_missing_locations(new)
    text = ast.unparse(new)
    ind = " " * target.col_offset
    lines = src.split("\n")
    out = "\n".join(lines[:first - 1] + [ind + l if l else l for l in text.split("\n")] + lines[last:])
    try:
        compile(out, "x", "exec")
    except SyntaxError:
        return None
    return out, t.n


def job(args):
    pid, q, rel, lineno, name, base, mode = args
    from sa.check import Ctx, prop_module
    from sa import report as R
    src = (pathlib.Path(ROOT) / rel).read_text(encoding="utf8")
    r = respell(src, lineno, name, mode)
    if r is None:
        return q, "skipped", ""
    new_src, count = r
    mod = prop_module(pid)
    specs = [s for s in mod.SPECS if not s.rid.endswith(".D")]
    try:
        ctx = Ctx(ROOT, overlay={rel: new_src})
        out = R.evaluate(pid, "quick", specs, ctx, R.load_known())
        viol = sorted({(i.rule, i.key) for i in out.violations})
        err = sorted(out.errors)
    except Exception as e:
        viol, err = [], [f"{type(e).__name__}: {e}"]
    nv = [v for v in viol if v not in base[0]]
    ne = [e for e in err if e not in base[1]]
    if nv:
        return q, "VIOLATION", f"{nv[:2]} ({count} edit(s))"
    if ne:
        return q, "undecided", f"{ne[0][:160]} ({count} edit(s))"
    return q, "silent", ""


def main():
    args = sys.argv[1:]
    modes = [a for a in args if a in MODES] or MODES
    pids = [a for a in args if a not in MODES] or ALL
    grand = 0
    cache = {}
    for mode in modes:
        tot = dict(silent=0, VIOLATION=0, undecided=0, skipped=0)
        for pid in pids:
            if pid not in cache:
                cache[pid] = consulted(pid)
            quals, base, info = cache[pid]
            jobs = [(pid, q, *info[q], base, mode) for q in quals]
            with ProcessPoolExecutor(max_workers=min(16, max(1, len(jobs)))) as ex:
                res = list(ex.map(job, jobs))
            for q, st, what in res:
                tot[st] += 1
                if st in ("VIOLATION", "undecided"):
                    print(f"{mode} {pid} {st:9} {q.replace('reamber.', '')}: {what[:230]}")
        print(f"== {mode}: {tot}")
        grand += tot["VIOLATION"] + tot["undecided"]
    return 1 if grand else 0


if __name__ == "__main__":
    sys.exit(main())
