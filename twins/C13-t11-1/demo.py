"""Demo for change 1: Map.rate (reamber/base/Map.py).

Exercises Map.rate through every Map subclass of the five games (and the
plain base Map), through MapSet.rate / SMMapSet.rate / OsuMap.rate (which all
delegate to Map.rate), on generated charts (empty lists, ties, unsorted rows,
negative and zero times, integer dtypes, many key counts, bytes and list cells)
and on charts read from the repository resources, for many rates; and writes
the rated charts of every writable game and reads them back.

Prints one line:  DIGEST <sha256 hex>
"""
import dataclasses
import hashlib
import logging
import random
import warnings

import pandas as pd

from reamber.base import Hit, Hold, Bpm
from reamber.base.Map import Map
from reamber.base.MapSet import MapSet
from reamber.base.lists.BpmList import BpmList
from reamber.base.lists.TimedList import TimedList
from reamber.base.lists.notes.HitList import HitList
from reamber.base.lists.notes.HoldList import HoldList
from reamber.bms import BMSMap, BMSHit, BMSHold, BMSBpm
from reamber.bms.BMSChannel import BMSChannel
from reamber.bms.lists.BMSBpmList import BMSBpmList
from reamber.bms.lists.notes.BMSHitList import BMSHitList
from reamber.bms.lists.notes.BMSHoldList import BMSHoldList
from reamber.o2jam import O2JMap, O2JMapSet, O2JHit, O2JHold, O2JBpm
from reamber.o2jam.lists.O2JBpmList import O2JBpmList
from reamber.o2jam.lists.notes.O2JHitList import O2JHitList
from reamber.o2jam.lists.notes.O2JHoldList import O2JHoldList
from reamber.osu import OsuMap, OsuHit, OsuHold, OsuBpm, OsuSv
from reamber.osu.OsuSample import OsuSample
from reamber.osu.lists.OsuBpmList import OsuBpmList
from reamber.osu.lists.OsuSampleList import OsuSampleList
from reamber.osu.lists.OsuSvList import OsuSvList
from reamber.osu.lists.notes.OsuHitList import OsuHitList
from reamber.osu.lists.notes.OsuHoldList import OsuHoldList
from reamber.quaver import QuaMap, QuaHit, QuaHold, QuaBpm, QuaSv
from reamber.quaver.lists.QuaBpmList import QuaBpmList
from reamber.quaver.lists.QuaSvList import QuaSvList
from reamber.quaver.lists.notes.QuaHitList import QuaHitList
from reamber.quaver.lists.notes.QuaHoldList import QuaHoldList
from reamber.sm import SMMap, SMMapSet, SMHit, SMHold, SMBpm, SMStop, SMMine, SMRoll
from reamber.sm import SMFake, SMLift, SMKeySound
from reamber.sm.lists.SMBpmList import SMBpmList
from reamber.sm.lists.SMStopList import SMStopList
from reamber.sm.lists.notes import (
    SMHitList,
    SMHoldList,
    SMMineList,
    SMRollList,
    SMFakeList,
    SMLiftList,
    SMKeySoundList,
)

logging.disable(logging.CRITICAL)
random.seed(130001)

OUT = []


def emit(*parts):
    OUT.append(" ".join(str(p) for p in parts))


# ---------------------------------------------------------------- dumping ---
def dump_df(tag, df):
    emit(tag, "cols", list(df.columns))
    emit(tag, "dtypes", [str(t) for t in df.dtypes])
    emit(tag, "index", type(df.index).__name__, df.index.tolist())
    for c in df.columns:
        emit(tag, "col", c, repr(df[c].tolist()))


def dump_value(tag, v):
    if isinstance(v, TimedList):
        emit(tag, "TimedList", type(v).__name__)
        dump_df(tag, v.df)
    elif isinstance(v, Map):
        dump_map(tag, v)
    elif isinstance(v, list) and v and all(isinstance(i, Map) for i in v):
        emit(tag, "maps", len(v))
        for i, m in enumerate(v):
            dump_map(f"{tag}[{i}]", m)
    else:
        emit(tag, type(v).__name__, repr(v))


def dump_map(tag, m):
    emit(tag, "Map", type(m).__name__, "keys", list(m.objs.keys()))
    for f in dataclasses.fields(m):
        if f.name == "objs":
            continue
        dump_value(f"{tag}.{f.name}", getattr(m, f.name))
    for k, v in m.objs.items():
        dump_value(f"{tag}.objs[{k}]", v)


def dump_any(tag, x):
    if isinstance(x, Map):
        dump_map(tag, x)
    elif isinstance(x, MapSet):
        emit(tag, "MapSet", type(x).__name__)
        for f in dataclasses.fields(x):
            dump_value(f"{tag}.{f.name}", getattr(x, f.name))
    else:
        dump_value(tag, x)


def guarded(tag, fn):
    """Runs fn, records exception type / warnings, returns result or None"""
    with warnings.catch_warnings(record=True) as ws:
        warnings.simplefilter("always")
        try:
            res = fn()
            emit(tag, "ok")
        except Exception as e:  # noqa
            res = None
            emit(tag, "raised", type(e).__name__, str(e)[:200])
    for w in sorted({(w.category.__name__, str(w.message)[:160]) for w in ws}):
        emit(tag, "warning", *w)
    return res


# ------------------------------------------------------------- generation ---
def gen_offsets(n, mode, step=125.0):
    if mode == "sorted":
        return [i * step + 1000.0 for i in range(n)]
    if mode == "unsorted":
        xs = [i * step + 1000.0 for i in range(n)]
        random.shuffle(xs)
        return xs
    if mode == "ties":
        return [float(random.choice([0, 500, 500, 1000])) for _ in range(n)]
    if mode == "negative":
        return [random.choice([-2000.0, -125.5, 0.0, -0.0, 250.25]) for _ in range(n)]
    if mode == "fraction":
        return [random.uniform(-500, 60000) for _ in range(n)]
    raise ValueError(mode)


MODES = ["sorted", "unsorted", "ties", "negative", "fraction"]
COUNTS = [0, 0, 1, 2, 5, 12]


def rc():
    return random.choice(COUNTS)


def lengths(n):
    return [random.choice([0.0, 1.0, 125.0, 333.3, 2000.0]) for _ in range(n)]


def bpm_values(n):
    return [random.choice([60.0, 120.0, 150.5, 200.0, 0.001, 999.0]) for _ in range(n)]


def gen_base(keys, mode):
    m = Map()
    nh, nl, nb = rc(), rc(), rc()
    m.hits = HitList(
        [Hit(o, random.randrange(keys)) for o in gen_offsets(nh, mode)]
    )
    m.holds = HoldList(
        [
            Hold(o, random.randrange(keys), ln)
            for o, ln in zip(gen_offsets(nl, mode), lengths(nl))
        ]
    )
    m.bpms = BpmList(
        [
            Bpm(o, b, random.choice([3, 4, 7]))
            for o, b in zip(gen_offsets(nb, mode, 2000.0), bpm_values(nb))
        ]
    )
    return m


def gen_base_int(keys, mode):
    """Lists given as DataFrames with integer dtypes"""
    m = Map()
    nh, nl, nb = rc(), rc(), rc()
    ints = lambda n: [int(o) for o in gen_offsets(n, mode)]
    m.hits = HitList(
        pd.DataFrame(
            {"offset": ints(nh), "column": [random.randrange(keys) for _ in range(nh)]},
            dtype="int64",
        )
    )
    m.holds = HoldList(
        pd.DataFrame(
            {
                "offset": ints(nl),
                "column": [random.randrange(keys) for _ in range(nl)],
                "length": [random.choice([0, 1, 250]) for _ in range(nl)],
            },
            dtype="int64",
        )
    )
    m.bpms = BpmList(
        pd.DataFrame(
            {
                "offset": ints(nb),
                "bpm": [random.choice([60, 120, 240]) for _ in range(nb)],
                "metronome": [4] * nb,
            },
            dtype="int64",
        )
    )
    return m


def gen_osu(keys, mode):
    m = OsuMap()
    m.circle_size = float(keys)
    m.title = "tést"
    m.tags = ["a", "b"]
    m.preview_time = random.choice([-1, 0, 1, 12345, 999.5, -1.0])
    nh, nl, nb, ns, nsm = rc(), rc(), rc(), rc(), rc()
    m.hits = OsuHitList(
        [
            OsuHit(o, random.randrange(keys), volume=random.choice([0, 30]))
            for o in gen_offsets(nh, mode)
        ]
    )
    m.holds = OsuHoldList(
        [
            OsuHold(o, random.randrange(keys), ln, hitsound_file=random.choice(["", "a.wav"]))
            for o, ln in zip(gen_offsets(nl, mode), lengths(nl))
        ]
    )
    m.bpms = OsuBpmList(
        [
            OsuBpm(o, b, kiai=random.choice([True, False]))
            for o, b in zip(gen_offsets(nb, mode, 2000.0), bpm_values(nb))
        ]
    )
    m.svs = OsuSvList(
        [OsuSv(o, random.choice([0.5, 1.0, 2.0])) for o in gen_offsets(ns, mode)]
    )
    m.samples = OsuSampleList(
        [OsuSample(o, "s.wav", random.choice([50, 70])) for o in gen_offsets(nsm, mode)]
    )
    return m


def gen_qua(keys, mode):
    m = QuaMap()
    m.tags = ["x"]
    m.song_preview_time = random.choice([0, 1000])
    nh, nl, nb, ns = rc(), rc(), rc(), rc()
    m.hits = QuaHitList(
        [
            QuaHit(o, random.randrange(keys), random.choice([[], ["k1"]]))
            for o in gen_offsets(nh, mode)
        ]
    )
    m.holds = QuaHoldList(
        [
            QuaHold(o, random.randrange(keys), ln, [])
            for o, ln in zip(gen_offsets(nl, mode), lengths(nl))
        ]
    )
    m.bpms = QuaBpmList(
        [QuaBpm(o, b) for o, b in zip(gen_offsets(nb, mode, 2000.0), bpm_values(nb))]
    )
    m.svs = QuaSvList(
        [QuaSv(o, random.choice([0.5, 1.0, 2.0])) for o in gen_offsets(ns, mode)]
    )
    return m


def gen_o2j(keys, mode):
    m = O2JMap()
    nh, nl, nb = rc(), rc(), rc()
    m.hits = O2JHitList(
        [O2JHit(o, random.randrange(keys), pan=random.choice([0, 8])) for o in gen_offsets(nh, mode)]
    )
    m.holds = O2JHoldList(
        [
            O2JHold(o, random.randrange(keys), ln)
            for o, ln in zip(gen_offsets(nl, mode), lengths(nl))
        ]
    )
    m.bpms = O2JBpmList(
        [O2JBpm(o, b) for o, b in zip(gen_offsets(nb, mode, 2000.0), bpm_values(nb))]
    )
    return m


def gen_bms(keys, mode):
    m = BMSMap()
    m.title = b"title"
    m.samples = {b"01": b"a.wav"}
    nh, nl, nb = rc(), rc(), rc()
    m.hits = BMSHitList(
        [
            BMSHit(o, random.randrange(keys), random.choice([b"", b"01"]))
            for o in gen_offsets(nh, mode)
        ]
    )
    m.holds = BMSHoldList(
        [
            BMSHold(o, random.randrange(keys), ln, b"01")
            for o, ln in zip(gen_offsets(nl, mode), lengths(nl))
        ]
    )
    m.bpms = BMSBpmList(
        [BMSBpm(o, b) for o, b in zip(gen_offsets(nb, mode, 2000.0), bpm_values(nb))]
    )
    return m


def gen_sm_map(keys, mode):
    m = SMMap()
    m.description = "d"
    nh, nl, nb = rc(), rc(), rc()
    m.hits = SMHitList([SMHit(o, random.randrange(keys)) for o in gen_offsets(nh, mode)])
    m.holds = SMHoldList(
        [
            SMHold(o, random.randrange(keys), ln)
            for o, ln in zip(gen_offsets(nl, mode), lengths(nl))
        ]
    )
    m.bpms = SMBpmList(
        [SMBpm(o, b) for o, b in zip(gen_offsets(nb, mode, 2000.0), bpm_values(nb))]
    )
    n = rc()
    m.stops = SMStopList([SMStop(o, ln) for o, ln in zip(gen_offsets(n, mode), lengths(n))])
    m.mines = SMMineList([SMMine(o, random.randrange(keys)) for o in gen_offsets(rc(), mode)])
    n = rc()
    m.rolls = SMRollList(
        [SMRoll(o, random.randrange(keys), ln) for o, ln in zip(gen_offsets(n, mode), lengths(n))]
    )
    m.fakes = SMFakeList([SMFake(o, random.randrange(keys)) for o in gen_offsets(rc(), mode)])
    m.lifts = SMLiftList([SMLift(o, random.randrange(keys)) for o in gen_offsets(rc(), mode)])
    m.keysounds = SMKeySoundList(
        [SMKeySound(o, random.randrange(keys)) for o in gen_offsets(rc(), mode)]
    )
    return m


def gen_sm_set(keys, mode):
    ms = SMMapSet()
    ms.title = "sm"
    ms.offset = random.choice([None, 0.0, -0.0, 125.0, -350.5, 1000])
    ms.sample_start = random.choice([0.0, 10000.0, 3, -5.5])
    ms.sample_length = random.choice([10.0, 12345.6, 0.0, 7])
    ms.maps = [gen_sm_map(keys, mode) for _ in range(random.choice([0, 1, 2, 3]))]
    return ms


def gen_o2j_set(keys, mode):
    ms = O2JMapSet()
    ms.title = "o2"
    ms.level = [1, 2, 3]
    ms.maps = [gen_o2j(keys, mode) for _ in range(random.choice([0, 1, 3]))]
    return ms


def gen_base_set(keys, mode):
    return MapSet([gen_base(keys, mode) for _ in range(random.choice([0, 1, 2]))])


GENS = [
    ("base", gen_base),
    ("baseint", gen_base_int),
    ("osu", gen_osu),
    ("qua", gen_qua),
    ("o2j", gen_o2j),
    ("bms", gen_bms),
    ("smmap", gen_sm_map),
    ("smset", gen_sm_set),
    ("o2jset", gen_o2j_set),
    ("baseset", gen_base_set),
]
RATES = [1, 1.0, 0.5, 2, 1.5, 0.75, 1.1, 3, 1e-3, 1234.5]


def poke(x):
    """Mutates a rated result, to show it shares nothing with the original"""
    maps = x.maps if isinstance(x, MapSet) else [x]
    for m in maps:
        for tl in m.objs.values():
            if len(tl):
                tl.df.iloc[0, list(tl.df.columns).index("offset")] = 987654.0
            tl.df["offset"] = tl.df["offset"] + 1
    for f in dataclasses.fields(x):
        v = getattr(x, f.name)
        if isinstance(v, list) and f.name != "maps":
            v.append("poked")
        elif isinstance(v, dict) and f.name != "objs":
            v["poked"] = 1
        elif isinstance(v, TimedList):
            v.df["offset"] = v.df["offset"] - 7


def scenario(tag, x, rate):
    dump_any(tag + ".in", x)
    r = guarded(tag + ".rate", lambda: x.rate(rate))
    if r is None:
        return None
    emit(tag, "same-object", r is x, "type", type(r).__name__)
    dump_any(tag + ".out", r)
    dump_any(tag + ".in-after", x)
    return r


def generated():
    n = 0
    for name, gen in GENS:
        for mode in MODES:
            keys = random.choice([1, 4, 7, 9, 10, 18])
            x = gen(keys, mode)
            rate = RATES[n % len(RATES)]
            n += 1
            tag = f"gen.{name}.{mode}.k{keys}.r{rate!r}"
            r = scenario(tag, x, rate)
            if r is None:
                continue
            # identity rate, composition
            one = guarded(tag + ".one", lambda: x.rate(1))
            if one is not None:
                dump_any(tag + ".one", one)
            a, b = random.choice([(2, 0.5), (1.5, 2), (0.75, 4), (1.1, 1.1)])
            ab = guarded(tag + ".ab", lambda: x.rate(a).rate(b))
            if ab is not None:
                dump_any(tag + f".ab{a!r},{b!r}", ab)
            prod = guarded(tag + ".prod", lambda: x.rate(a * b))
            if prod is not None:
                dump_any(tag + ".prod", prod)
            # no sharing with the input
            poke(r)
            dump_any(tag + ".in-after-poke", x)
    emit("generated-scenarios", n)


def all_empty():
    for name, cls in [
        ("base", Map),
        ("osu", OsuMap),
        ("qua", QuaMap),
        ("o2j", O2JMap),
        ("bms", BMSMap),
        ("smmap", SMMap),
        ("smset", SMMapSet),
        ("o2jset", O2JMapSet),
    ]:
        for rate in (1, 2.5):
            scenario(f"empty.{name}.r{rate!r}", cls(), rate)
    scenario("empty.baseset", MapSet([]), 1.25)


# -------------------------------------------------------- files and writes ---
R = "rsc/maps/"


def write_any(x):
    if isinstance(x, BMSMap):
        return x.write(BMSChannel.BME)
    return x.write()


def read_back(x, w):
    if isinstance(x, OsuMap):
        return OsuMap.read(w)
    if isinstance(x, SMMapSet):
        return SMMapSet.read(w)
    if isinstance(x, QuaMap):
        return QuaMap.read(w)
    if isinstance(x, BMSMap):
        return BMSMap.read(w.decode("shift_jis").split("\n"), BMSChannel.BME)
    raise TypeError(type(x))


def write_scenario(tag, x, rate):
    r = guarded(tag + ".rate", lambda: x.rate(rate))
    if r is None:
        return
    dump_any(tag + ".rated", r)
    w = guarded(tag + ".write", lambda: write_any(r))
    if w is None:
        return
    emit(tag, "written", type(w).__name__, hashlib.sha256(repr(w).encode()).hexdigest())
    back = guarded(tag + ".read", lambda: read_back(r, w))
    if back is not None:
        dump_any(tag + ".back", back)


def files():
    loaders = [
        ("osu.map_read", lambda: OsuMap.read_file("tests/unit_tests/osu/map_read.osu")),
        ("osu.map_noln", lambda: OsuMap.read_file("tests/unit_tests/osu/map_noln.osu")),
        ("osu.Gravity", lambda: OsuMap.read_file(R + "osu/Gravity.osu")),
        ("sm.ICFITU", lambda: SMMapSet.read_file(R + "sm/ICFITU.sm")),
        ("sm.Gravity", lambda: SMMapSet.read_file(R + "sm/Gravity.sm")),
        ("qua.map", lambda: QuaMap.read_file("tests/unit_tests/qua/map.qua")),
        ("bms.take", lambda: BMSMap.read_file("tests/unit_tests/bms/take.bms")),
        ("bms.searoad", lambda: BMSMap.read_file("tests/unit_tests/bms/searoad.bml")),
    ]
    for name, load in loaders:
        x = guarded(f"file.{name}.load", load)
        if x is None:
            continue
        for rate in (1, 1.5, 0.8):
            write_scenario(f"file.{name}.r{rate!r}", x, rate)
        dump_any(f"file.{name}.in-after", x)
    o2 = guarded("file.o2j.load", lambda: O2JMapSet.read_file(R + "o2jam/o2ma178.ojn"))
    if o2 is not None:
        for rate in (1, 1.25):
            scenario(f"file.o2j.r{rate!r}", o2, rate)
            scenario(f"file.o2jmap.r{rate!r}", o2[1], rate)


def written_generated():
    """Well-formed generated charts: rate, write, read back"""
    for i in range(6):
        keys = random.choice([4, 7])
        n = random.choice([0, 3, 10])
        offs = sorted(random.sample(range(0, 64), n))
        m = OsuMap()
        m.circle_size = float(keys)
        m.preview_time = random.choice([-1, 4000])
        m.bpms = OsuBpmList([OsuBpm(0, 120), OsuBpm(8000, 240)][: random.choice([1, 2])])
        m.hits = OsuHitList([OsuHit(o * 125.0, o % keys) for o in offs[::2]])
        m.holds = OsuHoldList([OsuHold(o * 125.0, o % keys, 250.0) for o in offs[1::2]])
        m.svs = OsuSvList([OsuSv(o * 125.0, 1.5) for o in offs[:2]])
        m.samples = OsuSampleList([OsuSample(o * 125.0, "s.wav", 70) for o in offs[:3]])
        write_scenario(f"wgen.osu{i}", m, random.choice([1, 1.25, 0.5, 2]))

        q = QuaMap()
        q.mode = "Keys4" if keys == 4 else "Keys7"
        q.bpms = QuaBpmList([QuaBpm(0, 120)])
        q.hits = QuaHitList([QuaHit(o * 125.0, o % keys, []) for o in offs[::2]])
        q.holds = QuaHoldList([QuaHold(o * 125.0, o % keys, 250.0, []) for o in offs[1::2]])
        q.svs = QuaSvList([QuaSv(o * 125.0, 0.5) for o in offs[:2]])
        write_scenario(f"wgen.qua{i}", q, random.choice([1, 1.25, 0.5, 2]))

        ms = SMMapSet()
        ms.offset = random.choice([0.0, -250.0, 500.0])
        ms.sample_start = 20000.0
        sm = SMMap()
        sm.bpms = SMBpmList([SMBpm(ms.offset, 120), SMBpm(ms.offset + 8000, 240)][: random.choice([1, 2])])
        sm.hits = SMHitList([SMHit(ms.offset + o * 125.0, o % 4) for o in offs[::2]])
        sm.holds = SMHoldList([SMHold(ms.offset + o * 125.0, o % 4, 250.0) for o in offs[1::2]])
        sm.stops = SMStopList([SMStop(ms.offset + 2000.0, 500.0)][: random.choice([0, 1])])
        ms.maps = [sm]
        write_scenario(f"wgen.sm{i}", ms, random.choice([1, 1.25, 0.5, 2]))

        b = BMSMap()
        b.bpms = BMSBpmList([BMSBpm(0, 120)])
        b.hits = BMSHitList([BMSHit(o * 125.0, o % keys, b"01") for o in offs[::2]])
        b.holds = BMSHoldList([BMSHold(o * 125.0, o % keys, 250.0, b"02") for o in offs[1::2]])
        write_scenario(f"wgen.bms{i}", b, random.choice([1, 1.25, 0.5, 2]))


def main():
    generated()
    all_empty()
    written_generated()
    files()
    text = "\n".join(OUT)
    print("DIGEST", hashlib.sha256(text.encode("utf8", "backslashreplace")).hexdigest())


if __name__ == "__main__":
    import sys

    main()
    if "--dump" in sys.argv:
        sys.stderr.write("\n".join(OUT) + "\n")
