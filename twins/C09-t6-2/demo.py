"""Demo for refactoring 2: OsuMap.write builds its result as one list display.

Exercises OsuMap.write / write_file on
 * generated .osu files (read -> write -> read back), several key counts,
 * charts converted to osu from Quaver, StepMania, BMS and O2Jam sources
   (source files themselves generated, or the small real ones of the repo),
 * hand-edited maps: empty lists, hit/hold ties, unsorted rows, foreign row
   labels, float / negative / NaN times, circle sizes the writer rejects.
Everything observable is digested, including the map before and after write().
"""
import hashlib
import logging
import os
import random
import tempfile
import warnings
from pathlib import Path

import numpy as np
import pandas as pd

warnings.filterwarnings("ignore")
logging.disable(logging.CRITICAL)

from reamber.algorithms.convert import (  # noqa: E402
    BMSToOsu, O2JToOsu, OsuToBMS, OsuToQua, OsuToSM, QuaToOsu, SMToOsu,
)
from reamber.bms.BMSMap import BMSMap  # noqa: E402
from reamber.o2jam.O2JMapSet import O2JMapSet  # noqa: E402
from reamber.osu.OsuMap import OsuMap  # noqa: E402
from reamber.quaver.QuaMap import QuaMap  # noqa: E402
from reamber.sm.SMMapSet import SMMapSet  # noqa: E402

OUT = []


def emit(*parts):
    OUT.append(" ".join(str(p) for p in parts))


def dump_df(tag, df: pd.DataFrame):
    emit(tag, "cols", list(df.columns))
    emit(tag, "dtypes", [str(t) for t in df.dtypes])
    emit(tag, "index", type(df.index).__name__, list(df.index))
    for row in df.itertuples(index=False, name=None):
        emit(tag, "row", [repr(v) for v in row])


def dump_osu(tag, m: OsuMap):
    emit(tag, "meta", repr(m.title), repr(m.artist), repr(m.version), repr(m.creator),
         repr(m.circle_size), repr(m.preview_time), repr(m.tags), repr(m.audio_file_name),
         repr(m.background_file_name))
    emit(tag, "objs keys", list(m.objs.keys()))
    for name in ("hits", "holds", "bpms", "svs"):
        tl = getattr(m, name)
        emit(tag, name, type(tl).__name__)
        dump_df(f"{tag}.{name}", tl.df)
    emit(tag, "samples", type(m.samples).__name__)
    dump_df(f"{tag}.samples", m.samples.df)


def check_write(tag, m: OsuMap, read_back=True):
    """Dumps m, m.write(), m afterwards, the written file and its re-parse"""
    dump_osu(tag + ".before", m)
    lines = None
    try:
        lines = m.write()
        emit(tag, "write ->", type(lines).__name__, len(lines),
             [type(i).__name__ for i in lines] == ["str"] * len(lines))
        for i, line in enumerate(lines):
            emit(tag, "L", i, repr(line))
    except Exception as e:  # noqa
        emit(tag, "write raised", type(e).__name__)
    dump_osu(tag + ".after", m)
    # twice gives the same, and fresh list objects
    try:
        again = m.write()
        emit(tag, "again equal", again == lines, again is not lines)
    except Exception as e:  # noqa
        emit(tag, "write again raised", type(e).__name__)
    with tempfile.TemporaryDirectory() as d:
        p = Path(d) / "out.osu"
        try:
            r = m.write_file(p)
            emit(tag, "write_file ->", repr(r))
            emit(tag, "file sha", hashlib.sha256(p.read_bytes()).hexdigest())
        except Exception as e:  # noqa
            emit(tag, "write_file raised", type(e).__name__,
                 "file" if p.exists() else "nofile",
                 hashlib.sha256(p.read_bytes()).hexdigest() if p.exists() else "")
        if read_back and p.exists():
            try:
                back = OsuMap.read_file(p)
                dump_osu(tag + ".back", back)
            except Exception as e:  # noqa
                emit(tag, "read back raised", type(e).__name__)


# --------------------------------------------------------------------------- #
# generators
# --------------------------------------------------------------------------- #
def x_axis(col, keys):
    return int((512.0 * col + 256.0) // keys)


def gen_osu(rnd: random.Random, keys, n_hits, n_holds, n_bpms, n_svs, *, sort=True,
            ties=False, title="Gen", samples=0, neg=False):
    head = [
        "osu file format v14", "", "[General]", "AudioFilename: audio.mp3", "AudioLeadIn: 0",
        f"PreviewTime: {rnd.choice([-1, 0, 1234, 99999])}", "Countdown: 0", "SampleSet: Soft",
        "StackLeniency: 0.7", "Mode: 3", "LetterboxInBreaks: 0", "SpecialStyle: 0",
        "WidescreenStoryboard: 1", "", "[Editor]", "DistanceSpacing: 1.2", "BeatDivisor: 4",
        "GridSize: 8", "TimelineZoom: 1.5", "", "[Metadata]", f"Title:{title}",
        f"TitleUnicode:{title} テスト", "Artist:Art", "ArtistUnicode:芸",
        "Creator:me", f"Version:{keys}K v", "Source:src", "Tags:a bb  ccc", "BeatmapID:12",
        "BeatmapSetID:34", "", "[Difficulty]", "HPDrainRate:7.5", f"CircleSize:{keys}",
        "OverallDifficulty:8", "ApproachRate:5", "SliderMultiplier:1.4", "SliderTickRate:1", "",
        "[Events]", "//Background and Video events", '0,0,"bg.jpg",0,0', "//Break Periods",
        "//Storyboard Layer 0 (Background)", "//Storyboard Sound Samples",
    ]
    for i in range(samples):
        head.append(f'Sample,{rnd.randrange(0, 50000)},0,"s{i}.wav",{rnd.randrange(0, 101)}')
    lo = -2000 if neg else 0
    tps = []
    t = rnd.randrange(lo, 500)
    for i in range(n_bpms):
        bpm = rnd.choice([60, 90, 120, 128, 150.5, 174, 200, 222.22, 300])
        tps.append((t, f"{t},{60000 / bpm},{rnd.choice([3, 4, 4, 5])},1,0,{rnd.randrange(0, 101)},1,"
                       f"{rnd.choice([0, 1])}"))
        t += rnd.randrange(1, 20000)
    for i in range(n_svs):
        ts = rnd.randrange(lo, 60000)
        tps.append((ts, f"{ts},{-100 / rnd.choice([0.5, 0.75, 1, 1.25, 2, 10])},4,1,0,"
                        f"{rnd.randrange(0, 101)},0,{rnd.choice([0, 1])}"))
    objs = []
    times = [rnd.randrange(lo, 60000) for _ in range(max(3, (n_hits + n_holds) // (3 if ties else 1)))]
    for i in range(n_hits):
        t0 = rnd.choice(times) if ties else rnd.randrange(lo, 60000)
        c = rnd.randrange(keys)
        objs.append((t0, f"{x_axis(c, keys)},192,{t0},1,{rnd.choice([0, 2, 4, 8])},"
                         f"{rnd.choice([0, 1])}:0:0:{rnd.choice([0, 50])}:{rnd.choice(['', 'hs.wav'])}"))
    for i in range(n_holds):
        t0 = rnd.choice(times) if ties else rnd.randrange(lo, 60000)
        c = rnd.randrange(keys)
        objs.append((t0, f"{x_axis(c, keys)},192,{t0},128,0,{t0 + rnd.randrange(1, 3000)}:0:0:0:0:"))
    if sort:
        tps.sort(key=lambda x: x[0])
        objs.sort(key=lambda x: x[0])
    else:
        rnd.shuffle(tps)
        rnd.shuffle(objs)
    return [*head, "", "[TimingPoints]", *[x[1] for x in tps], "", "", "[HitObjects]",
            *[x[1] for x in objs], ""]


def main():
    rnd = random.Random(909)
    random.seed(909)
    np.random.seed(909)

    # ---- 1. generated osu files, read -> write -> read back ----------------- #
    gens = []
    for keys in (1, 2, 3, 4, 5, 6, 7, 8, 9, 10, 18):
        gens.append((f"osu{keys}k", dict(keys=keys, n_hits=rnd.randrange(1, 25), n_holds=rnd.randrange(1, 12),
                                         n_bpms=rnd.randrange(1, 4), n_svs=rnd.randrange(0, 5))))
    gens += [
        ("osu-empty-notes", dict(keys=4, n_hits=0, n_holds=0, n_bpms=1, n_svs=0)),
        ("osu-nothing", dict(keys=4, n_hits=0, n_holds=0, n_bpms=0, n_svs=0)),
        ("osu-only-hits", dict(keys=7, n_hits=20, n_holds=0, n_bpms=2, n_svs=2)),
        ("osu-only-holds", dict(keys=7, n_hits=0, n_holds=20, n_bpms=2, n_svs=2)),
        ("osu-only-svs", dict(keys=4, n_hits=3, n_holds=3, n_bpms=0, n_svs=4)),
        ("osu-ties", dict(keys=4, n_hits=30, n_holds=30, n_bpms=2, n_svs=3, ties=True)),
        ("osu-ties-unsorted", dict(keys=7, n_hits=30, n_holds=30, n_bpms=3, n_svs=3, ties=True, sort=False)),
        ("osu-unsorted", dict(keys=4, n_hits=20, n_holds=10, n_bpms=3, n_svs=3, sort=False)),
        ("osu-negative", dict(keys=4, n_hits=20, n_holds=10, n_bpms=3, n_svs=3, neg=True)),
        ("osu-samples", dict(keys=4, n_hits=5, n_holds=5, n_bpms=1, n_svs=1, samples=4)),
        ("osu-title", dict(keys=4, n_hits=5, n_holds=5, n_bpms=1, n_svs=1, title="été: a,b;c")),
    ]
    for i in range(12):
        gens.append((f"osu-rnd{i}", dict(keys=rnd.choice([4, 4, 7, 7, 5, 6, 8, 9]),
                                         n_hits=rnd.randrange(0, 40), n_holds=rnd.randrange(0, 20),
                                         n_bpms=rnd.randrange(1, 5), n_svs=rnd.randrange(0, 6),
                                         ties=rnd.random() < 0.5, sort=rnd.random() < 0.6,
                                         neg=rnd.random() < 0.2)))
    osu_maps = {}
    for name, kw in gens:
        lines = gen_osu(rnd, **kw)
        emit(name, "src sha", hashlib.sha256("\n".join(lines).encode()).hexdigest())
        try:
            m = OsuMap.read(lines)
        except Exception as e:  # noqa
            emit(name, "read raised", type(e).__name__)
            continue
        osu_maps[name] = (kw, lines)
        check_write(name, m)

    # ---- 2. converted charts reach the writer ------------------------------- #
    def via(name, lines, keys):
        """osu -> X file -> read X -> osu -> write, X in Quaver / SM / BMS"""
        src = OsuMap.read(lines)
        # Quaver (only 4K, 7K, 8K)
        try:
            qua_text = OsuToQua.convert(src).write()
            q = QuaMap.read(qua_text.split("\n"))
            check_write(f"{name}.via-qua", QuaToOsu.convert(q))
        except Exception as e:  # noqa
            emit(name, "via-qua raised", type(e).__name__)
        # StepMania
        try:
            sm_text = OsuToSM.convert(src).write()
            sms = SMMapSet.read(sm_text)
            for i, o in enumerate(SMToOsu.convert(sms)):
                check_write(f"{name}.via-sm{i}", o)
        except Exception as e:  # noqa
            emit(name, "via-sm raised", type(e).__name__)
        # BMS
        try:
            bms_bytes = OsuToBMS.convert(src).write()
            b = BMSMap.read(bms_bytes.decode("shift_jis").split("\r\n"))
            check_write(f"{name}.via-bms", BMSToOsu.convert(b))
        except Exception as e:  # noqa
            emit(name, "via-bms raised", type(e).__name__)

    for name in ("osu4k", "osu7k", "osu8k", "osu6k", "osu-empty-notes", "osu-only-hits",
                 "osu-only-holds", "osu-ties", "osu-rnd0", "osu-rnd1", "osu-rnd2", "osu-rnd3"):
        if name in osu_maps:
            kw, lines = osu_maps[name]
            via(name, lines, kw["keys"])

    # small real files of the other formats
    try:
        check_write("real-qua", QuaToOsu.convert(QuaMap.read_file("rsc/maps/qua/NeuroCloud.qua")),
                    read_back=False)
    except Exception as e:  # noqa
        emit("real-qua raised", type(e).__name__)
    try:
        for i, o in enumerate(SMToOsu.convert(SMMapSet.read_file("rsc/maps/sm/Escapes.sm"))):
            check_write(f"real-sm{i}", o, read_back=False)
    except Exception as e:  # noqa
        emit("real-sm raised", type(e).__name__)
    try:
        for i, o in enumerate(O2JToOsu.convert(O2JMapSet.read_file("rsc/maps/o2jam/o2ma178.ojn"))):
            check_write(f"real-o2j{i}", o, read_back=False)
    except Exception as e:  # noqa
        emit("real-o2j raised", type(e).__name__)
    try:
        check_write("real-bms", BMSToOsu.convert(BMSMap.read_file("rsc/maps/bms/searoad.bml")),
                    read_back=False)
    except Exception as e:  # noqa
        emit("real-bms raised", type(e).__name__)

    # ---- 3. edited maps ------------------------------------------------------ #
    def base(seed=5, **kw):
        d = dict(keys=4, n_hits=12, n_holds=8, n_bpms=2, n_svs=2, ties=True)
        d.update(kw)
        return OsuMap.read(gen_osu(random.Random(seed), **d))

    m = base()
    for tl in (m.hits, m.holds, m.bpms, m.svs):
        df = tl.df.iloc[::-1].copy()
        df.index = [7 * i + 3 for i in range(len(df))]
        tl.df = df
    check_write("edit-reversed-foreign-labels", m)

    m = base()
    m.hits.offset += 0.5
    m.holds.offset -= 0.25
    m.bpms.offset += 0.125
    check_write("edit-float-times", m)

    m = base()
    m.holds.offset = m.hits.offset.iloc[0]
    m.hits.offset = m.hits.offset.iloc[0]
    check_write("edit-all-tied", m)

    m = base()
    m.hits.offset -= 100000
    check_write("edit-negative-hits", m)

    m = base()
    off = m.hits.offset.copy()
    off.iloc[2] = np.nan
    m.hits.offset = off
    check_write("edit-nan-offset", m)

    m = base()
    m.circle_size = 0
    check_write("edit-circle0-with-notes", m)

    m = base(n_hits=0, n_holds=0)
    m.circle_size = 0
    check_write("edit-circle0-no-notes", m)

    m = base()
    m.circle_size = 4.9
    check_write("edit-circle-4.9", m)

    m = base()
    m.circle_size = None
    check_write("edit-circle-none", m)

    m = base()
    m.circle_size = 2  # columns beyond the key count
    check_write("edit-too-few-keys", m)

    check_write("default-map", OsuMap())

    m = base(seed=6, keys=7, n_hits=25, n_holds=25)
    m2 = m.rate(1.5)
    check_write("rated", m2)
    check_write("rated-source", m)

    if os.environ.get("DEMO_DUMP"):
        Path(os.environ["DEMO_DUMP"]).write_text("\n".join(OUT), encoding="utf8")
    print("DIGEST", hashlib.sha256("\n".join(OUT).encode("utf8")).hexdigest())


if __name__ == "__main__":
    main()
