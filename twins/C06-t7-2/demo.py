"""Behaviour digest for the Quaver reader / writer (property C06).

Run as:  cd /tmp/wt7/C06 && PYTHONPATH=/tmp/wt7/C06 /venv/bin/python demo.py
Prints one line:  DIGEST <sha256>

The digest covers, for several dozen generated .qua documents and in-memory
charts (incl. charts produced by the converters):
  * every metadata attribute (repr + type),
  * every list DataFrame (column order, dtypes, row labels, each cell's repr and type),
  * the written .qua text, read-after-write and write-after-read,
  * exception type names where something raises, warning categories/messages,
  * the inputs afterwards (to detect mutation of arguments).
"""
import copy
import dataclasses
import hashlib
import os
import random
import shutil
import tempfile
import warnings

import numpy as np
import pandas as pd
import yaml

from reamber.base.lists.TimedList import TimedList
from reamber.base.lists.BpmList import BpmList
from reamber.base.lists.notes.HitList import HitList
from reamber.base.lists.notes.HoldList import HoldList
from reamber.quaver.QuaMap import QuaMap
from reamber.quaver.QuaMapMeta import QuaMapMeta, QuaMapMode
from reamber.quaver.QuaBpm import QuaBpm
from reamber.quaver.QuaHit import QuaHit
from reamber.quaver.QuaHold import QuaHold
from reamber.quaver.QuaSv import QuaSv
from reamber.quaver.lists.QuaBpmList import QuaBpmList
from reamber.quaver.lists.QuaSvList import QuaSvList
from reamber.quaver.lists.notes.QuaHitList import QuaHitList
from reamber.quaver.lists.notes.QuaHoldList import QuaHoldList

random.seed(60606)
np.random.seed(60606)

OUT = []


def emit(*parts):
    OUT.append(" | ".join(str(p) for p in parts))


# ------------------------------------------------------------------ dumping
def cell(v):
    return f"{type(v).__module__}.{type(v).__name__}:{v!r}"


def dump_df(df):
    if not isinstance(df, pd.DataFrame):
        return "NOT-A-DF " + cell(df)
    lines = [
        "cols=" + repr(list(df.columns)),
        "dtypes=" + repr([str(t) for t in df.dtypes]),
        "index=" + repr(list(df.index)) + ":" + type(df.index).__name__,
    ]
    for i in range(len(df)):
        lines.append("row " + "; ".join(cell(df.iat[i, j]) for j in range(df.shape[1])))
    return "\n".join(lines)


def dump_tl(tl):
    return type(tl).__name__ + "\n" + dump_df(tl.df)


def dump_meta(m):
    return "\n".join(
        f"{f.name}={cell(getattr(m, f.name))}" for f in dataclasses.fields(QuaMapMeta)
    )


def dump_map(m):
    parts = [type(m).__name__, dump_meta(m), "objs keys=" + repr(list(m.objs.keys()))]
    for k in ("hits", "holds", "bpms", "svs"):
        parts.append(k + ": " + dump_tl(getattr(m, k)))
    return "\n".join(parts)


def dump_any(v):
    if isinstance(v, QuaMap):
        return dump_map(v)
    if isinstance(v, TimedList):
        return dump_tl(v)
    if isinstance(v, pd.DataFrame):
        return dump_df(v)
    if isinstance(v, (list, tuple)):
        return type(v).__name__ + "[" + ", ".join(dump_any(x) for x in v) + "]"
    if isinstance(v, dict):
        return "{" + ", ".join(f"{k!r}: {dump_any(x)}" for k, x in v.items()) + "}"
    return cell(v)


def run(label, fn):
    """Calls fn, records result / exception type and the warnings raised."""
    with warnings.catch_warnings(record=True) as ws:
        warnings.simplefilter("always")
        try:
            res = fn()
            emit(label, "OK", dump_any(res))
        except Exception as e:  # noqa
            res = None
            emit(label, "EXC", type(e).__name__)
    emit(label, "WARN", sorted({(w.category.__name__, str(w.message)) for w in ws}))
    return res


# ---------------------------------------------------------- document making
SPECIAL = [
    "plain",
    "with: colon",
    "# hash first",
    "- dash first",
    "'single' \"double\"",
    "yes",
    "null",
    "123",
    "1.5",
    "  padded  ",
    "",
    "uniçødé 音楽",
    "line1\nline2",
    "tab\there",
    "{brace}",
    "[bracket]",
    "a, b",
    "*star &amp !bang %pct @at `tick",
    "2020-01-01",
    "trailing:",
    "~",
    "back\\slash",
]


def rnd_time():
    k = random.random()
    if k < 0.15:
        return random.choice([0, -1, -250, 1])
    if k < 0.3:
        return round(random.uniform(-500, 60000), 3)
    return random.randint(0, 60000)


def rnd_keysounds():
    k = random.random()
    if k < 0.4:
        return []
    if k < 0.7:
        return [dict(Sample=random.randint(1, 9), Volume=random.randint(1, 100))]
    return [dict(Sample=random.randint(1, 9)), dict(Sample=2, Volume=50)]


def make_note(lanes, hold, omit):
    d = {}
    if not (omit and random.random() < 0.35):
        d["StartTime"] = rnd_time()
    if not (omit and random.random() < 0.1):
        d["Lane"] = random.randint(1, lanes)
    if hold:
        base = d.get("StartTime", 0)
        d["EndTime"] = base + random.choice([0, 1, 37, 250.5, 1000, -20])
    if not (omit and random.random() < 0.5):
        d["KeySounds"] = rnd_keysounds()
    if random.random() < 0.15:
        d["EditorLayer"] = random.randint(0, 3)
    if random.random() < 0.1:
        d["HitSound"] = random.choice(["Clap", "Whistle, Finish"])
    items = list(d.items())
    if random.random() < 0.3:
        random.shuffle(items)
    return dict(items)


def make_doc(i):
    lanes = random.choice([4, 7, 8, 1, 5, 10])
    mode = random.choice(["all", "all", "hits", "holds", "none"])
    omit = random.random() < 0.6
    n = random.choice([0, 1, 2, 5, 12])
    notes = []
    if mode in ("all", "hits"):
        notes += [make_note(lanes, False, omit) for _ in range(n)]
    if mode in ("all", "holds"):
        notes += [make_note(lanes, True, omit) for _ in range(max(n // 2, 1))]
    if random.random() < 0.5:
        random.shuffle(notes)
    if notes and random.random() < 0.3:  # ties
        notes.append(dict(notes[0]))
    bpms = []
    for _ in range(random.choice([0, 1, 1, 3])):
        b = {}
        if not (omit and random.random() < 0.4):
            b["StartTime"] = rnd_time()
        if not (omit and random.random() < 0.2):
            b["Bpm"] = random.choice([120, 175.0, 0.5, 60.25, 999, 0, -10.0])
        bpms.append(b)
    svs = []
    for _ in range(random.choice([0, 0, 1, 4])):
        s = {}
        if not (omit and random.random() < 0.4):
            s["StartTime"] = rnd_time()
        if not (omit and random.random() < 0.4):
            s["Multiplier"] = random.choice([1, 1.0, 0.325713784, 4.5, 0, -1.0, 10])
        svs.append(s)

    doc = {}
    meta_pool = dict(
        AudioFile=lambda: random.choice(SPECIAL) + ".mp3",
        SongPreviewTime=lambda: random.choice([0, 169955, -1, 12.5]),
        BackgroundFile=lambda: random.choice(SPECIAL),
        BannerFile=lambda: random.choice(SPECIAL),
        Genre=lambda: random.choice(SPECIAL),
        BPMDoesNotAffectScrollVelocity=lambda: random.choice([True, False]),
        InitialScrollVelocity=lambda: random.choice([1.0, 2, 0.5]),
        HasScratchKey=lambda: random.choice([True, False]),
        MapId=lambda: random.choice([-1, 12345]),
        MapSetId=lambda: random.choice([-1, 777]),
        Mode=lambda: random.choice(["Keys4", "Keys7", "Keys8", "Keys5"]),
        Title=lambda: random.choice(SPECIAL),
        Artist=lambda: random.choice(SPECIAL),
        Source=lambda: random.choice(SPECIAL),
        Tags=lambda: random.choice(
            ["", "a b c", "  two  spaces ", "tab\tsep x", None, 123, "#x y: z"]
        ),
        Creator=lambda: random.choice(SPECIAL),
        DifficultyName=lambda: random.choice(SPECIAL),
        Description=lambda: random.choice(SPECIAL),
        EditorLayers=lambda: random.choice(
            [[], [dict(Name="L1", ColorRgb="255,0,0")], [dict(Name="x"), dict(Hidden=True)]]
        ),
        CustomAudioSamples=lambda: random.choice([[], [dict(Path="a.wav")]]),
        SoundEffects=lambda: random.choice([[], [dict(StartTime=10, Sample=1, Volume=80)]]),
    )
    p_meta = random.choice([0.0, 0.5, 1.0])
    for k, f in meta_pool.items():
        if random.random() < p_meta:
            doc[k] = f()
    if random.random() < 0.2:
        doc["UnknownKey"] = "ignored"

    def section(key, val):
        r = random.random()
        if not val and r < 0.3:
            return  # omitted
        if not val and r < 0.5:
            doc[key] = None  # "Key:" with nothing -> null
            return
        doc[key] = val

    section("TimingPoints", bpms)
    section("SliderVelocities", svs)
    section("HitObjects", notes)
    if random.random() < 0.2:  # sections before the metadata
        doc = dict(reversed(list(doc.items())))
    return doc


def doc_to_text(doc):
    style = random.choice(["block", "block", "flow"])
    return yaml.safe_dump(
        doc,
        default_flow_style=(style == "flow"),
        sort_keys=False,
        allow_unicode=True,
    )


TMP = tempfile.mkdtemp(prefix="c06demo_")


def roundtrip(label, m):
    """write / read-after-write / write-after-read / files, for a chart m."""
    before = dump_map(m)
    text = run(label + " write", m.write)
    emit(label + " map unchanged by write", dump_map(m) == before)
    if text is None:
        return
    # the written document only uses plain yaml types
    loaded = run(label + " yaml of written", lambda: yaml.safe_load(text))
    m2 = run(label + " read(write)", lambda: QuaMap.read(text))
    if m2 is not None:
        run(label + " write(read(write))", m2.write)
        run(label + " metadata()", m2.metadata)
    path = os.path.join(TMP, f"f{len(OUT)}.qua")
    run(label + " write_file", lambda: m.write_file(path))
    if os.path.exists(path):
        with open(path, "rb") as f:
            emit(label + " file bytes", hashlib.sha256(f.read()).hexdigest())
        m3 = run(label + " read_file str", lambda: QuaMap.read_file(path))
        run(label + " read_file Path", lambda: QuaMap.read_file(__import__("pathlib").Path(path)))
        if m3 is not None:
            run(label + " write(read_file)", m3.write)


# ================================================================ section A
# generated .qua documents
for i in range(60):
    doc = make_doc(i)
    text = doc_to_text(doc)
    emit(f"A{i} text", text)
    lines = text.split("\n")
    lines_before = list(lines)
    m = run(f"A{i} read(str)", lambda: QuaMap.read(text))
    run(f"A{i} read(lines)", lambda: QuaMap.read(lines))
    emit(f"A{i} lines untouched", lines == lines_before)
    path = os.path.join(TMP, f"a{i}.qua")
    with open(path, "w", encoding="utf-8", newline="") as f:
        f.write(text if i % 3 else text.replace("\n", "\r\n"))
    run(f"A{i} read_file", lambda: QuaMap.read_file(path))
    if m is not None:
        roundtrip(f"A{i}", m)

# hand written corner documents
CORNER = [
    "",
    "{}",
    "Title: only meta\n",
    "HitObjects:\n",
    "HitObjects: []\nTimingPoints: []\nSliderVelocities: []\n",
    "HitObjects:\n- StartTime: 5\n  Lane: 2\n",
    "HitObjects:\n- Lane: 2\n- Lane: 3\n",
    "HitObjects:\n- StartTime: 5\n",  # no lane anywhere
    "HitObjects:\n- StartTime: 5\n  EndTime: 50\n",  # hold, no lane anywhere
    "HitObjects:\n- Lane: 1\n  EndTime: 50\n",
    "HitObjects:\n- StartTime: 10\n  Lane: 1\n  EndTime:\n",  # null end
    "HitObjects:\n- StartTime: 10\n  Lane: 1\n  EndTime: 10\n  KeySounds: []\n- {}\n",
    "HitObjects:\n- {}\n",
    "HitObjects:\n- 1\n- 2\n",
    "HitObjects: 5\n",
    "HitObjects: text\n",
    "HitObjects:\n- StartTime: abc\n  Lane: 1\n",
    "HitObjects:\n- StartTime: 1\n  Lane: x\n",
    "HitObjects:\n- StartTime: 1\n  Lane: 1\n  KeySounds: notalist\n",
    "HitObjects:\n- StartTime: 1\n  Lane: 1\n  KeySounds:\n",
    "HitObjects:\n- StartTime: 1.9\n  Lane: 4\n- StartTime: -1.9\n  Lane: 1\n  EndTime: 3.2\n",
    "HitObjects:\n- StartTime: 1\n  Lane: 1\n  offset: 9\n",
    "HitObjects:\n- StartTime: 1\n  Lane: 1\n  EndTime: 4\n  length: 9\n",
    "TimingPoints:\n- Bpm: 100\n",
    "TimingPoints:\n- StartTime: 1\n",
    "TimingPoints:\n- {}\n",
    "TimingPoints:\n- 3\n",
    "TimingPoints:\n- StartTime: x\n  Bpm: y\n",
    "SliderVelocities:\n- Multiplier: 2\n",
    "SliderVelocities:\n- StartTime: 3\n",
    "SliderVelocities:\n- {}\n- StartTime: 1\n  Multiplier: .5\n",
    "Tags: one\nTitle: 'quoted: title'\nArtist: \"dq # not comment\"\nCreator: |\n  block\n  text\n",
    "Tags: [a, b]\n",
    "Mode: Keys7\nMapId: 'str'\nEditorLayers:\nSoundEffects: ~\n",
    "- a\n- b\n",
    "just a scalar",
    "key: [unclosed\n",
    "Title: a\nTitle: b\n",
    "HitObjects:\n- StartTime: 1\n  Lane: 1\nHitObjects:\n- StartTime: 2\n  Lane: 2\n",
]
for i, text in enumerate(CORNER):
    m = run(f"B{i} read(str)", lambda: QuaMap.read(text))
    run(f"B{i} read(lines)", lambda: QuaMap.read(text.split("\n")))
    path = os.path.join(TMP, f"b{i}.qua")
    with open(path, "w", encoding="utf-8") as f:
        f.write(text)
    run(f"B{i} read_file", lambda: QuaMap.read_file(path))
    if m is not None:
        roundtrip(f"B{i}", m)

run("B read_file missing", lambda: QuaMap.read_file(os.path.join(TMP, "nope.qua")))
run("B read_file dir", lambda: QuaMap.read_file(TMP))
run("B read_file bad type", lambda: QuaMap.read_file(None))
with open(os.path.join(TMP, "bad.qua"), "wb") as f:
    f.write(b"Title: \xff\xfe\n")
run("B read_file bad utf8", lambda: QuaMap.read_file(os.path.join(TMP, "bad.qua")))
run("B read bad type", lambda: QuaMap.read(5))
run("B read bytes lines", lambda: QuaMap.read([b"Title: a"]))
run("B write_file bad dir", lambda: QuaMap().write_file(os.path.join(TMP, "no", "x.qua")))

# ================================================================ section C
# from_yaml / to_yaml of the four lists called directly
def rnd_dicts(kind, n, omit):
    out = []
    for _ in range(n):
        if kind in ("hit", "hold"):
            out.append(make_note(random.choice([4, 7, 9]), kind == "hold", omit))
        elif kind == "bpm":
            d = {}
            if not (omit and random.random() < 0.4):
                d["StartTime"] = rnd_time()
            if not (omit and random.random() < 0.4):
                d["Bpm"] = random.choice([120, 90.5, 0])
            out.append(d)
        else:
            d = {}
            if not (omit and random.random() < 0.4):
                d["StartTime"] = rnd_time()
            if not (omit and random.random() < 0.4):
                d["Multiplier"] = random.choice([1, 0.5, -2.0])
            out.append(d)
    return out


CLS = dict(hit=QuaHitList, hold=QuaHoldList, bpm=QuaBpmList, sv=QuaSvList)
for kind, cls in CLS.items():
    for j in range(14):
        n = [0, 1, 1, 2, 3, 5, 8][j % 7]
        dicts = rnd_dicts(kind, n, omit=j >= 4)
        keep = copy.deepcopy(dicts)
        tl = run(f"C {kind}{j} from_yaml", lambda: cls.from_yaml(dicts))
        emit(f"C {kind}{j} input untouched", repr(dicts) == repr(keep))
        if tl is not None:
            before = dump_tl(tl)
            rec = run(f"C {kind}{j} to_yaml", tl.to_yaml)
            emit(f"C {kind}{j} list untouched", dump_tl(tl) == before)
            if rec:
                run(f"C {kind}{j} from_yaml(to_yaml)", lambda: cls.from_yaml(rec))
    extra = [
        [{}],
        [{"Lane": 1}],
        [{"StartTime": 1}],
        [{"EndTime": 5}],
        [{"StartTime": None, "Lane": 2, "EndTime": 7}],
        [{"StartTime": 3, "Lane": None, "EndTime": None, "KeySounds": None}],
        [{"StartTime": "a", "Lane": 1, "EndTime": 2}],
        [{"StartTime": 1, "Lane": "x", "EndTime": 2}],
        [{"StartTime": 1, "Lane": 1, "EndTime": "z"}],
        [{"StartTime": 1, "Lane": 1, "KeySounds": "s"}, {"Lane": 2, "EndTime": 9}],
        [{"StartTime": 1, "Lane": 1, "EndTime": 3, "offset": 5, "column": 6}],
        [{"StartTime": 1.5, "Lane": 2.0, "EndTime": 3.5, "Bpm": 10, "Multiplier": 2}],
        [{"Bpm": None}, {"Multiplier": None}],
        [{"StartTime": True, "Lane": True, "EndTime": False}],
        [{"StartTime": 2**40, "Lane": 3, "EndTime": 2**41, "Bpm": 1e308, "Multiplier": 1e-308}],
        [1, 2],
        ["ab"],
        None,
        "str",
        {"StartTime": [1, 2], "Lane": [1, 2], "EndTime": [3, 4]},
    ]
    for j, dicts in enumerate(extra):
        keep = copy.deepcopy(dicts)
        tl = run(f"C {kind} x{j} from_yaml", lambda: cls.from_yaml(dicts))
        emit(f"C {kind} x{j} input untouched", repr(dicts) == repr(keep))
        if tl is not None:
            run(f"C {kind} x{j} to_yaml", tl.to_yaml)

# ================================================================ section D
# in-memory charts
def mem_chart(j):
    m = QuaMap()
    lanes = random.choice([4, 7, 8, 6])
    nh, nl = random.choice([(0, 0), (5, 0), (0, 4), (6, 3), (1, 1)])
    fl = random.random() < 0.5

    def t():
        return random.uniform(-100, 30000) if fl else random.randint(-100, 30000)

    m.hits = QuaHitList(
        [QuaHit(t(), random.randint(0, lanes - 1), rnd_keysounds()) for _ in range(nh)]
    )
    m.holds = QuaHoldList(
        [
            QuaHold(t(), random.randint(0, lanes - 1), random.choice([0, 1, 99.9, 500]), rnd_keysounds())
            for _ in range(nl)
        ]
    )
    m.bpms = QuaBpmList([QuaBpm(t(), random.choice([120, 175.5])) for _ in range(j % 3)])
    m.svs = QuaSvList([QuaSv(t(), random.choice([1, 0.5, 2.25])) for _ in range(j % 4)])
    m.title = random.choice(SPECIAL)
    m.artist = random.choice(SPECIAL)
    m.creator = random.choice(SPECIAL)
    m.description = random.choice(SPECIAL)
    m.tags = random.choice([[], ["a"], ["x:y", "#z"], ["with space", "b"]])
    m.mode = QuaMapMode.get_mode(lanes)
    return m


for j in range(24):
    roundtrip(f"D{j}", mem_chart(j))

# DataFrame-built lists: extra columns, NaN keysounds, other dtypes, odd row labels
df_h = pd.DataFrame(
    dict(offset=[10.0, 5.5, 5.5], column=[0, 3, 1], keysounds=[[], np.nan, [dict(Sample=1)]]),
    index=[7, 3, 3],
)
df_l = pd.DataFrame(
    dict(
        index=[0, 1],
        offset=[100, 50],
        column=[2.0, 0.0],
        keysounds=[np.nan, np.nan],
        length=[0.4, 250],
    )
)
m = QuaMap()
m.hits = QuaHitList(df_h)
m.holds = QuaHoldList(df_l)
m.bpms = QuaBpmList(pd.DataFrame(dict(offset=[0], bpm=[150], metronome=[4], extra=["e"])))
m.svs = QuaSvList(pd.DataFrame(dict(multiplier=[2], offset=[3.9])))
roundtrip("D df", m)
emit("D df inputs", dump_df(df_h), dump_df(df_l))

m = QuaMap()
m.hits = QuaHitList(pd.DataFrame(dict(offset=[np.nan], column=[0], keysounds=[[]])))
roundtrip("D nan offset", m)
m = QuaMap()
m.bpms = QuaBpmList(pd.DataFrame(dict(offset=[0.0], bpm=[100.0])))  # no metronome
roundtrip("D no metronome", m)
m = QuaMap()
m.holds = QuaHoldList(pd.DataFrame(dict(offset=[0.0], column=[1], keysounds=[[]])))  # no length
roundtrip("D no length", m)
m = QuaMap()
m.hits = HitList([])
roundtrip("D base hitlist", m)

# ================================================================ section E
# charts that come from the converters
def conv():
    from reamber.algorithms.convert import OsuToQua, SMToQua, BMSToQua, O2JToQua
    from reamber.osu.OsuMap import OsuMap
    from reamber.sm.SMMapSet import SMMapSet
    from reamber.bms.BMSMap import BMSMap
    from reamber.o2jam.O2JMapSet import O2JMapSet

    def cut(q, n=25):
        q = q.deepcopy()
        for k in ("hits", "holds", "bpms", "svs"):
            setattr(q, k, getattr(q, k)[:n])
        return q

    for name in ("Gravity", "Escapes", "LNDan14"):
        q = run(f"E osu {name}", lambda: cut(OsuToQua.convert(OsuMap.read_file(f"rsc/maps/osu/{name}.osu"))))
        if q is not None:
            roundtrip(f"E osu {name}", q)
    for name in ("Escapes", "Gravity"):
        qs = run(f"E sm {name}", lambda: [cut(q) for q in SMToQua.convert(SMMapSet.read_file(f"rsc/maps/sm/{name}.sm"))])
        for k, q in enumerate(qs or []):
            roundtrip(f"E sm {name}{k}", q)
    q = run("E bms", lambda: cut(BMSToQua.convert(BMSMap.read_file("rsc/maps/bms/coldBreath.bme"), raise_bad_mode=False)))
    if q is not None:
        roundtrip("E bms", q)
    qs = run("E o2j", lambda: [cut(q) for q in O2JToQua.convert(O2JMapSet.read_file("rsc/maps/o2jam/o2ma178.ojn"))])
    for k, q in enumerate(qs or []):
        roundtrip(f"E o2j{k}", q)
    for name in ("CarryMeAway", "NeuroCloud"):
        q = run(f"E qua {name}", lambda: QuaMap.read_file(f"rsc/maps/qua/{name}.qua"))
        if q is not None:
            with open(f"rsc/maps/qua/{name}.qua", encoding="utf-8") as f:
                emit(f"E qua {name} textual round trip", q.write() == f.read())
            roundtrip(f"E qua {name} cut", cut(q, 40))


run("E conv", conv)

# ================================================================ section F
# TimedList.from_dict / constructors for every Quaver list class
FD_CLASSES = [TimedList, HitList, HoldList, BpmList, QuaHitList, QuaHoldList, QuaBpmList, QuaSvList]
FD_INPUTS = [
    [],
    {},
    None,
    0,
    "",
    [dict(offset=1)],
    [dict(offset=1.5), dict(offset=0)],
    dict(offset=[3, 1, 2]),
    dict(offset=[]),
    dict(offset=[1.0], column=[2]),
    dict(offset=[1, 2], column=[0, 1], keysounds=[[], [dict(Sample=1)]]),
    dict(offset=[1, 2], column=[0, 1], length=[5, 0.5]),
    dict(column=[1, 2]),
    dict(offset=[1], bpm=[120]),
    dict(offset=[1], bpm=[120], metronome=[3]),
    dict(offset=[1], multiplier=[0.5]),
    dict(offset=[1], bogus=[2]),
    dict(bogus=[2]),
    [dict(offset=1, bogus=2), dict(offset=2)],
    [dict(offset=1, column=2), dict(offset=2)],
    [dict(offset=1, length=2, column=0, keysounds=[]), dict(offset=2, length=3, column=1, keysounds=[])],
    dict(offset=["a", "b"]),
    dict(offset=[1, 2], column=["x", "y"]),
    dict(offset=[None, 2]),
    dict(offset=[1, 2], bpm=[1]),  # ragged
    dict(offset=5),  # scalar
    {1: [1], 2: [2]},
    {("a", "b"): [1]},
    [[1, 2], [3, 4]],
    [1, 2, 3],
    "offset",
    pd.DataFrame(dict(offset=[1])).to_dict("list"),
    pd.DataFrame(dict(offset=[1], column=[1])).to_dict("records"),
]
for cls in FD_CLASSES:
    for j, d in enumerate(FD_INPUTS):
        keep = copy.deepcopy(d)
        tl = run(f"F {cls.__name__} fd{j}", lambda: cls.from_dict(d))
        emit(f"F {cls.__name__} fd{j} input untouched", repr(d) == repr(keep))
        if tl is not None and hasattr(tl, "to_yaml"):
            run(f"F {cls.__name__} fd{j} to_yaml", tl.to_yaml)
    run(f"F {cls.__name__} empty list", lambda: cls([]))
    for r in (0, 1, 3):
        run(f"F {cls.__name__} empty({r})", lambda: cls.empty(r))
    run(f"F {cls.__name__} bad objs", lambda: cls([1, "a", 2.0, None, [], {}, 7]))

# independence of the defaults filled in by from_dict
tl = QuaHitList.from_dict(dict(offset=[1, 2], column=[0, 1]))
tl.df.at[0, "keysounds"].append("x")
emit("F defaults independent", dump_tl(tl), dump_tl(QuaHitList([])), QuaHit._props)

shutil.rmtree(TMP, ignore_errors=True)
if os.environ.get("C06_DUMP"):  # optional: full text dump for diffing
    with open(os.environ["C06_DUMP"], "w", encoding="utf-8") as f:
        f.write("\n".join(OUT))
print("DIGEST", hashlib.sha256("\n".join(OUT).encode("utf-8")).hexdigest())
