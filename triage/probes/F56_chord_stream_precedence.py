"""F56 (C20): operator precedence in template_chord_stream's options.
Run:  cd /repo && /venv/bin/python /verif/triage/probes/F56_chord_stream_precedence.py   (pinned tree: 2 instead of 3)"""
import warnings
warnings.simplefilter("ignore")
from reamber.algorithms.pattern import Pattern
from reamber.algorithms.pattern.combos import PtnCombo
from reamber.base.Hit import Hit
p = Pattern([0, 1, 2, 0, 1, 2], [0, 0, 100, 200, 200, 300], [Hit] * 6)       # 2-1-2-1 jumpstream
a = len(PtnCombo(p.group()).template_chord_stream(2, 1, 4))
b = len(PtnCombo(p.group()).template_chord_stream(2, 1, 4, and_lower=True))
print(a, b); assert a == 3 and b == 3
