"""Demo for change 2: Snapper.__init__ (division triangle + visited set -> Farey sequence).

Run:  cd /tmp/wt7/C03 && PYTHONPATH=/tmp/wt7/C03 /venv/bin/python demo.py
Prints one line `DIGEST <hex>`.
"""
import hashlib
import logging
import os
import random
import warnings
from fractions import Fraction

logging.disable(logging.CRITICAL)

import numpy as np  # noqa: E402

import reamber  # noqa: E402
from reamber.algorithms.timing.TimingMap import TimingMap  # noqa: E402
from reamber.algorithms.timing.utils.Snapper import Snapper, snap  # noqa: E402
from reamber.algorithms.timing.utils.conf import DEFAULT_DIVISIONS  # noqa: E402
from reamber.sm.SMMapSet import SMMapSet  # noqa: E402
from reamber.sm.SMMap import SMMap  # noqa: E402
from reamber.sm.SMMapMeta import SMMapChartTypes  # noqa: E402
from reamber.sm.lists.SMBpmList import SMBpmList  # noqa: E402
from reamber.sm.lists.SMStopList import SMStopList  # noqa: E402
from reamber.sm.lists.notes import (  # noqa: E402
    SMHitList,
    SMHoldList,
    SMFakeList,
    SMLiftList,
    SMKeySoundList,
    SMMineList,
    SMRollList,
)

ROOT = os.path.dirname(os.path.dirname(os.path.abspath(reamber.__file__)))
OUT = []


def emit(*parts):
    OUT.append(" | ".join(str(p) for p in parts))


def dump_df(df):
    return repr(
        (
            list(map(str, df.columns)),
            [str(t) for t in df.dtypes],
            [repr(i) for i in df.index],
            [[repr(v) for v in row] for row in df.itertuples(index=False)],
        )
    )


def dump_map(m):
    parts = [
        repr(
            (
                m.chart_type,
                m.description,
                m.difficulty,
                m.difficulty_val,
                list(m.groove_radar),
            )
        )
    ]
    for name in sorted(m.objs):
        parts.append(name + "=" + dump_df(m.objs[name].df))
    return "\n".join(parts)


def dump_mapset(ms):
    meta = [
        (k, repr(getattr(ms, k)))
        for k in (
            "title subtitle artist title_translit subtitle_translit artist_translit "
            "genre credit banner background lyrics_path cd_title music offset "
            "sample_start sample_length display_bpm selectable bg_changes fg_changes"
        ).split()
    ]
    return repr(meta) + "\n" + "\n".join(dump_map(m) for m in ms.maps)


def attempt(label, fn):
    with warnings.catch_warnings(record=True) as w:
        warnings.simplefilter("always")
        try:
            res = fn()
            emit(label, "OK", res if isinstance(res, str) else type(res).__name__)
        except Exception as e:  # noqa
            res = None
            emit(label, "EXC", type(e).__name__)
        emit(label, "WARNINGS", sorted({x.category.__name__ for x in w}))
    return res


def exercise(label, ms, reread=True):
    """Writes every map and the set, checks inputs afterwards, reads back."""
    before = dump_mapset(ms)
    for i, m in enumerate(ms.maps):
        attempt(f"{label}/map{i}.write", lambda m=m: repr(m.write()))
    text = attempt(f"{label}/set.write", ms.write)
    after = dump_mapset(ms)
    emit(label, "INPUT_UNCHANGED", before == after)
    emit(label, "INPUT_AFTER", after)
    if text is None or not reread:
        return

    def back():
        ms2 = SMMapSet.read(text)
        t2 = ms2.write()
        ms3 = SMMapSet.read(t2)
        return "\n".join(
            [dump_mapset(ms2), repr(t2 == text), repr(ms3.write() == t2), t2]
        )

    attempt(f"{label}/reread", back)


# --------------------------------------------------------------------------- #
# Generated mapsets
# --------------------------------------------------------------------------- #
CHART_KEYS = {
    SMMapChartTypes.DANCE_SINGLE: 4,
    SMMapChartTypes.DANCE_DOUBLE: 8,
    SMMapChartTypes.DANCE_SOLO: 6,
    SMMapChartTypes.DANCE_COUPLE: 4,
    SMMapChartTypes.DANCE_THREEPANEL: 3,
    SMMapChartTypes.DANCE_ROUTINE: 8,
    SMMapChartTypes.KB7_SINGLE: 7,
}
LISTS = dict(
    hits=SMHitList,
    fakes=SMFakeList,
    lifts=SMLiftList,
    keysounds=SMKeySoundList,
    mines=SMMineList,
)
HOLD_LISTS = dict(holds=SMHoldList, rolls=SMRollList)


class Tempo:
    """A tempo list given as [(beat, bpm)], beat 0 at `offset` ms."""

    def __init__(self, offset, points):
        self.points = points
        self.times = []
        t = float(offset)
        prev_beat, prev_bpm = points[0]
        for beat, bpm in points:
            t += float(beat - prev_beat) * 60000.0 / prev_bpm
            self.times.append(t)
            prev_beat, prev_bpm = beat, bpm

    def time(self, beat):
        ix = 0
        for i, (b, _) in enumerate(self.points):
            if b <= beat:
                ix = i
        b, bpm = self.points[ix]
        return self.times[ix] + float(beat - b) * 60000.0 / bpm


def gen_beats(rng, n, dens, max_measure):
    out = []
    for _ in range(n):
        d = rng.choice(dens)
        measure = rng.randrange(max_measure)
        out.append(measure * 4 + Fraction(rng.randrange(4 * d), d))
    return out


def gen_mapset(rng, ix):
    offset = rng.choice([0.0, 0.0, 100.0, -250.5, 1234.0, 37.25])
    aligned = ix % 3 != 2
    n_bpm = rng.choice([1, 1, 2, 3, 4])
    points = [(Fraction(0), rng.choice([60.0, 120.0, 150.0, 175.5, 200.0, 240.0]))]
    for _ in range(n_bpm - 1):
        step = (
            4 * rng.randrange(1, 4)
            if aligned
            else rng.choice([1, 2, 3, 5, Fraction(1, 2), Fraction(3, 2), Fraction(7)])
        )
        points.append(
            (
                points[-1][0] + step,
                rng.choice([60.0, 90.0, 120.0, 133.0, 180.0, 240.0, 300.5]),
            )
        )
    tempo = Tempo(offset, points)
    bpm_rows = [dict(offset=t, bpm=b) for t, (_, b) in zip(tempo.times, points)]

    dens_pool = rng.choice(
        [
            [1],
            [1, 2, 4],
            [1, 2, 3, 4, 6, 8, 12, 16],
            [1, 2, 3, 4, 6, 8, 12, 16, 24, 32, 48, 64, 96],
            [5, 7, 9, 4],
            [5, 7, 11, 13, 3, 32],
            [48, 64, 96, 7],
        ]
    )
    max_measure = rng.choice([1, 2, 4, 8, 15])
    n_maps = rng.choice([1, 1, 2, 3])
    ms = SMMapSet()
    ms.title = f"T{ix} é"
    ms.subtitle = rng.choice(["", "sub"])
    ms.artist = f"A{ix}"
    ms.title_translit = rng.choice(["", "tt"])
    ms.artist_translit = rng.choice(["", "at"])
    ms.genre = rng.choice(["", "g"])
    ms.credit = "c"
    ms.music = "m.ogg"
    ms.background = rng.choice(["", "bg.png"])
    ms.offset = offset
    ms.sample_start = rng.choice([0.0, 1500.0, 12345.0])
    ms.sample_length = rng.choice([10.0, 10000.0, 7500.5])
    ms.display_bpm = rng.choice(["", "120", "*"])
    ms.selectable = rng.random() < 0.7
    maps = []
    for mi in range(n_maps):
        m = SMMap()
        m.chart_type = rng.choice(sorted(CHART_KEYS))
        keys = CHART_KEYS[m.chart_type]
        m.description = f"d{mi}"
        m.difficulty = rng.choice(["Easy", "Hard", "Challenge", "Edit"])
        m.difficulty_val = rng.randrange(1, 20)
        m.groove_radar = [round(rng.random(), 3) for _ in range(5)]
        m.bpms = SMBpmList.from_dict(bpm_rows)
        # ix % 7 == 0 : an empty chart, ix % 7 == 1 : a single kind only
        kinds = list(LISTS) + list(HOLD_LISTS)
        if ix % 7 == 0 and mi == 0:
            kinds = []
        elif ix % 7 == 1:
            kinds = [rng.choice(kinds)]
        else:
            kinds = [k for k in kinds if rng.random() < 0.75]
        # Most charts are collision free (a column holds one object at a time),
        # every 4th one lets objects overwrite each other.
        collide = ix % 4 == 3
        busy = {c: [] for c in range(keys)}

        def free(c, lo, hi):
            if collide:
                return True
            if all(hi < a or b < lo for a, b in busy[c]):
                busy[c].append((lo, hi))
                return True
            return False

        for name in kinds:
            n = rng.choice([0, 1, 2, 5, 12, 30])
            beats = gen_beats(rng, n, dens_pool, max_measure)
            if rng.random() < 0.5:
                beats.sort()  # otherwise the rows stay unsorted
            if collide and beats and rng.random() < 0.5:
                beats.append(beats[0])  # exact tie inside one list
            rows = []
            for b in beats:
                c = rng.randrange(keys)
                if name in LISTS:
                    if free(c, b, b):
                        rows.append(dict(offset=tempo.time(b), column=c))
                else:
                    d = rng.choice(dens_pool)
                    ln = Fraction(rng.randrange(1, 6 * d), d)
                    if free(c, b, b + ln):
                        h, t = tempo.time(b), tempo.time(b + ln)
                        rows.append(dict(offset=h, column=c, length=t - h))
            cls = LISTS[name] if name in LISTS else HOLD_LISTS[name]
            setattr(m, name, cls.from_dict(rows))
        maps.append(m)
    ms.maps = maps
    return ms


def dump_arr(a):
    a = np.asarray(a)
    return repr(
        (
            str(a.dtype),
            a.shape,
            a.strides,
            bool(a.flags.c_contiguous),
            bool(a.flags.owndata),
            hashlib.sha256(np.ascontiguousarray(a).tobytes()).hexdigest(),
            [repr(v) for v in a[:5]],
            [repr(v) for v in a[-5:]],
        )
    )


def dump_snapper(s):
    return "\n".join(
        [
            "attrs=" + repr(sorted(vars(s))),
            "val=" + dump_arr(s.val),
            "num=" + dump_arr(s.num),
            "den=" + dump_arr(s.den),
        ]
    )


def main():
    rng = random.Random(20261002)
    random.seed(20261002)

    # 1. the slot table itself, for many division lists
    division_sets = [[n] for n in range(1, 131)]
    division_sets += [
        DEFAULT_DIVISIONS,
        list(DEFAULT_DIVISIONS),
        np.asarray(DEFAULT_DIVISIONS),
        (1, 2, 4),
        [4, 2, 1],
        [3, 3, 3],
        [1, 2, 3, 4, 6, 8, 12, 16],
        (16, 1, 12),
        range(1, 49),
        np.arange(1, 25, dtype=np.int32),
        np.array([7, 5], dtype=np.uint8),
        {2, 3, 5},
        [192],
        [255, 1],
        [384],
    ]
    for _ in range(20):
        division_sets.append(
            [rng.randrange(1, 100) for __ in range(rng.randrange(1, 8))]
        )
    # invalid arguments: same exception types expected
    division_sets += [[], (), [1.5, 2.5], [2.0], ["a"], [None], 5, [[1, 2], [3, 4]]]
    division_sets.append("gen")  # a generator, built below

    snappers = []
    for i, divs in enumerate(division_sets):
        label = f"table{i}"
        if isinstance(divs, str):
            divs_in = (x for x in (1, 2, 3))
            shown = "generator"
        else:
            divs_in = divs
            shown = repr(divs)
        s = attempt(label + "/" + shown, lambda: Snapper(divisions=divs_in))
        if s is not None:
            emit(label, dump_snapper(s))
            emit(label, "ARG_AFTER", shown if isinstance(divs, str) else repr(divs))
            snappers.append((label, s))

    # 2. snapping with a selection of them
    values = [0, 0.0, 1, 1.0, 0.5, 0.25, 1 / 3, 2 / 3, 0.9999, 0.99999999, 1e-9]
    values += [3.75, 100.125, -0.25, -1.5, -1e-9, 7 / 96, 95 / 96, 1 / 7, 5 / 9]
    values += [np.float64(2.5), np.float64(1 / 6), Fraction(3, 8), Fraction(-5, 3)]
    values += [rng.random() * 8 for _ in range(150)]
    values += [
        m + n / d + rng.choice([0, 1e-7, -1e-7, 1e-4, -1e-4, 3e-3])
        for m, n, d in (
            (rng.randrange(4), rng.randrange(97), rng.choice(DEFAULT_DIVISIONS))
            for _ in range(200)
        )
        for d in [d]
        if n < d
    ]
    # exact midpoints between neighbouring slots
    dflt = Snapper()
    values += [
        float((dflt.val[i] + dflt.val[i + 1]) / 2) for i in range(0, len(dflt.val) - 1, 97)
    ]
    picked = [ls for ls in snappers if ls[0] in {
        "table0", "table1", "table2", "table3", "table11", "table15", "table47",
        "table95", "table130", "table133", "table134", "table137", "table142",
    }]
    for label, s in picked:
        res = []
        for v in values:
            try:
                r = s.snap(v)
                res.append((type(r).__name__, repr(r)))
            except Exception as e:  # noqa
                res.append(("EXC", type(e).__name__))
        emit(label, "snap", repr(res))
    emit("default", dump_snapper(Snapper()))
    emit("timingmap-default", dump_snapper(TimingMap.snapper))
    emit(
        "snap()",
        repr(
            [
                (repr(v), repr(snap(v)), repr(snap(v, [1, 2, 4])), repr(snap(v, (3,))))
                for v in values[:60]
            ]
        ),
    )

    # 3. TimingMap.snaps / beats on tempo lists, tempo changes on and off measures
    for ix in range(25):
        offset = rng.choice([0.0, 100.0, -250.5])
        pts = [(Fraction(0), rng.choice([60.0, 120.0, 175.5, 200.0]))]
        for _ in range(rng.randrange(0, 4)):
            step = rng.choice([4, 8, 4, 1, Fraction(1, 2), 3, Fraction(5, 3)])
            pts.append((pts[-1][0] + step, rng.choice([90.0, 133.0, 180.0, 300.5])))
        tempo = Tempo(offset, pts)
        bpms = SMBpmList.from_dict(
            [dict(offset=t, bpm=b) for t, (_, b) in zip(tempo.times, pts)]
        )
        beats = gen_beats(rng, rng.choice([0, 1, 7, 40]), list(DEFAULT_DIVISIONS), 10)
        offs = [tempo.time(b) + rng.choice([0.0, 0.0, 0.3, -0.3]) for b in beats]
        offs = [o for o in offs if o >= offset]

        def tm_case():
            tm = bpms.to_timing_map()
            sn = Snapper()
            return repr(
                (
                    [repr(x) for x in tm.bpm_changes_snap()],
                    [repr(x) for x in tm.snaps(offs, sn)] if offs else [],
                    [repr(x) for x in tm.beats(offs, sn)],
                    repr(offs),
                )
            )

        attempt(f"tm{ix}", tm_case)

    # 4. the StepMania writer end to end (it builds a Snapper per call)
    for ix in range(30):
        ms = gen_mapset(rng, ix)
        exercise(f"gen{ix}", ms)
        if ix % 6 == 0:
            r = attempt(f"gen{ix}/rate", lambda: ms.rate(rng.choice([0.75, 1.5])))
            if r is not None:
                exercise(f"gen{ix}/rated", r)
    ms = attempt(
        "file/ICFITU/read",
        lambda: SMMapSet.read_file(os.path.join(ROOT, "rsc/maps/sm/ICFITU.sm")),
    )
    if ms is not None:
        exercise("file/ICFITU", ms)
    from reamber.osu.OsuMap import OsuMap
    from reamber.algorithms.convert import OsuToSM

    ms = attempt(
        "conv/osu/AddictionCut/convert",
        lambda: OsuToSM.convert(
            OsuMap.read_file(os.path.join(ROOT, "rsc/maps/osu/AddictionCut.osu"))
        ),
    )
    if ms is not None:
        exercise("conv/osu/AddictionCut", ms)

    text = "\n".join(OUT)
    print("DIGEST", hashlib.sha256(text.encode("utf8")).hexdigest())
    if os.environ.get("DEMO_DUMP"):
        with open(os.environ["DEMO_DUMP"], "w", encoding="utf8") as f:
            f.write(text)


if __name__ == "__main__":
    main()
