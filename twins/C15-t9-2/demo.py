"""Demo for the hitsound_copy refactoring: prints one DIGEST line.

Run:  cd /tmp/wt7/C15 && PYTHONPATH=/tmp/wt7/C15 /venv/bin/python demo.py
"""
import hashlib
import random
import sys
import warnings
from pathlib import Path

import numpy as np
import pandas as pd

from reamber.algorithms.osu.hitsound_copy import hitsound_copy
from reamber.osu import OsuMap, OsuHit, OsuHold, OsuBpm, OsuSv
from reamber.osu.OsuSample import OsuSample
from reamber.osu.lists import OsuBpmList, OsuSvList, OsuSampleList
from reamber.osu.lists.notes import OsuHitList, OsuHoldList

warnings.simplefilter("ignore")
random.seed(150215)

OUT = []


def emit(*parts):
    OUT.append(" | ".join(str(p) for p in parts))


def dump_df(df: pd.DataFrame):
    cols = [f"{c!r}:{df[c].dtype}:{df[c].tolist()!r}" for c in df.columns]
    return (
        f"DF(index={df.index.tolist()!r}, index_dtype={df.index.dtype}, "
        f"cols=[{'; '.join(cols)}])"
    )


def dump_map(m: OsuMap):
    parts = [f"{k}={dump_df(v.df)}" for k, v in m.objs.items()]
    parts.append(f"samples={dump_df(m.samples.df)}")
    return " ## ".join(parts)


def attempt(tag, src, tgt):
    b_src, b_tgt = dump_map(src), dump_map(tgt)
    try:
        out = hitsound_copy(src, tgt)
        res = f"{type(out).__name__}: {dump_map(out)}"
        shared = out is tgt or out.hits is tgt.hits or out.holds is tgt.holds
        res += f" SHARED={shared}"
    except Exception as e:  # noqa
        res = f"RAISED {type(e).__name__}"
    a_src, a_tgt = dump_map(src), dump_map(tgt)
    emit(
        tag,
        res,
        "SRC_UNCHANGED" if b_src == a_src else "SRC_CHANGED",
        "TGT_UNCHANGED" if b_tgt == a_tgt else "TGT_CHANGED",
        a_src,
        a_tgt,
    )


GRID = [-500.0, -0.0, 0.0, 0.5, 100.0, 100.0, 250.0, 250.0, 250.0, 1000.0, 1000.4, 1000.5, 2000.0, 33333.0]
FILES = ["", "", "", "a.wav", "b.wav", "kick.ogg", "c d.wav"]
VOLUMES = [0, 0, 20, 20, 30, 40, 100, -5]


def permute(items, mode):
    items = list(items)
    if mode == "sorted":
        items.sort(key=lambda x: x.offset)
    elif mode == "reverse":
        items.sort(key=lambda x: x.offset, reverse=True)
    elif mode == "shuffle":
        random.shuffle(items)
    elif mode == "concat":
        items.sort(key=lambda x: x.offset)
        h = len(items) // 2
        items = items[h:] + items[:h]
    return items


def rand_note_kwargs(plain):
    if plain:
        return {}
    r = random.random()
    if r < 0.25:
        return {}
    return dict(
        hitsound_set=random.choice([0, 0, 2, 4, 8, 6, 10, 12, 14, 1, 3, 15, 16, 30]),
        sample_set=random.choice([0, 0, 0, 1, 2]),
        addition_set=random.choice([0, 0, 0, 1, 3]),
        custom_set=random.choice([0, 0, 0, 1]),
        volume=random.choice(VOLUMES),
        hitsound_file=random.choice(FILES),
    )


def rand_map(n_hit, n_hold, mode, plain=False, keys=7, grid=GRID, with_samples=False):
    m = OsuMap()
    hits = [
        OsuHit(random.choice(grid), random.randrange(keys), **rand_note_kwargs(plain))
        for _ in range(n_hit)
    ]
    holds = [
        OsuHold(
            random.choice(grid),
            random.randrange(keys),
            random.choice([0.0, 50.0, 400.5, 9000.0]),
            **rand_note_kwargs(plain),
        )
        for _ in range(n_hold)
    ]
    m.hits = OsuHitList(permute(hits, mode))
    m.holds = OsuHoldList(permute(holds, mode))
    m.bpms = OsuBpmList(permute([OsuBpm(0, 150), OsuBpm(-100, 120)], mode))
    m.svs = OsuSvList(permute([OsuSv(500, 1.5), OsuSv(100, 0.5)], mode))
    if with_samples:
        m.samples = OsuSampleList([OsuSample(10, "old.wav", 30), OsuSample(5, "older.wav", 40)])
    return m


# ---------------------------------------------------------------- generated
case = 0
MODES = ("sorted", "reverse", "shuffle", "concat")
for src_mode in MODES:
    for tgt_mode in MODES:
        for sizes in [
            (0, 0, 0, 0),
            (3, 0, 3, 0),
            (0, 4, 0, 4),
            (6, 3, 2, 1),
            (2, 1, 9, 5),
            (15, 6, 15, 6),
            (40, 15, 25, 12),
            (8, 0, 0, 0),
            (0, 0, 8, 3),
        ]:
            case += 1
            src = rand_map(sizes[0], sizes[1], src_mode)
            tgt = rand_map(
                sizes[2],
                sizes[3],
                tgt_mode,
                plain=random.random() < 0.5,
                keys=random.choice([4, 7, 10]),
                with_samples=random.random() < 0.3,
            )
            attempt(f"G{case} src={src_mode} tgt={tgt_mode} sizes={sizes}", src, tgt)

# the same source and target objects in every row order (what the property quantifies over)
base_src = rand_map(20, 8, "sorted")
base_tgt = rand_map(14, 6, "sorted", plain=True)
for i in range(8):
    src, tgt = base_src.deepcopy(), base_tgt.deepcopy()
    for m in (src, tgt):
        for name in ("hits", "holds"):
            lst = getattr(m, name)
            df = lst.df.sample(frac=1, random_state=random.randrange(10**6))
            if i % 2:
                df = df.reset_index(drop=True)
            setattr(m, name, type(lst)(df))
    attempt(f"P{i}", src, tgt)

# ---------------------------------------------------------------- hand-made edge cases
# More default sounds / files on one offset than slots in the target -> overflow to samples
src = OsuMap()
src.hits = OsuHitList(
    [
        OsuHit(100, 0, hitsound_set=2, volume=20),
        OsuHit(100, 1, hitsound_set=2, volume=20),
        OsuHit(100, 2, hitsound_set=12, volume=20),
        OsuHit(100, 3, hitsound_set=4, volume=30),
        OsuHit(100, 4, hitsound_file="x.wav", volume=30),
        OsuHit(100, 5, hitsound_file="y.wav", volume=0),
        OsuHit(100, 6, hitsound_file="z.wav", volume=-3),
    ]
)
for n_slots in range(0, 9):
    tgt = OsuMap()
    tgt.hits = OsuHitList([OsuHit(100, c % 4) for c in range(n_slots)] + [OsuHit(99, 0), OsuHit(101, 1)])
    attempt(f"E-overflow{n_slots}", src, tgt)
    tgt2 = OsuMap()
    tgt2.holds = OsuHoldList([OsuHold(100, c % 4, 10 * c) for c in range(n_slots)])
    tgt2.hits = OsuHitList([OsuHit(250, 0)])
    attempt(f"E-overflow-holds{n_slots}", src, tgt2)

# Only sample/addition/custom sets are set (no sound bits, no files)
src = OsuMap()
src.hits = OsuHitList([OsuHit(0, 0, sample_set=2), OsuHit(50, 0, addition_set=1, volume=25), OsuHit(50, 1, custom_set=3)])
tgt = OsuMap()
tgt.hits = OsuHitList([OsuHit(50, 0, hitsound_set=8, hitsound_file="keep.wav", volume=9), OsuHit(0, 0)])
attempt("E-sets-only", src, tgt)

# hitsound bit 1 (normal) and bits above 8 are dropped, combined bits are split
src = OsuMap()
src.hits = OsuHitList([OsuHit(10, 0, hitsound_set=v) for v in (1, 16, 17, 31, 14, 255, -1, -2)])
tgt = OsuMap()
tgt.hits = OsuHitList([OsuHit(10, c) for c in range(12)])
attempt("E-bits", src, tgt)

# 0.0 and -0.0, offsets that differ by one ulp, very large offsets, negative offsets
src = OsuMap()
src.hits = OsuHitList([OsuHit(-0.0, 0, hitsound_set=2), OsuHit(0.1 + 0.2, 1, hitsound_set=4), OsuHit(1e12, 2, hitsound_set=8), OsuHit(-777.25, 3, hitsound_file="n.wav")])
tgt = OsuMap()
tgt.hits = OsuHitList([OsuHit(0.0, 0), OsuHit(0.3, 1), OsuHit(0.1 + 0.2, 2), OsuHit(1e12, 3), OsuHit(-777.25, 0), OsuHit(-0.0, 1)])
attempt("E-float-keys", src, tgt)

# Integer / float typed frames and non-default row labels
src = OsuMap()
src.hits = OsuHitList(
    pd.DataFrame(
        dict(
            offset=[300, 100, 100, 200],
            column=[0, 1, 2, 3],
            hitsound_set=[2.0, 6.0, 8.0, 0.0],
            sample_set=[0, 0, 0, 1],
            addition_set=[0, 0, 0, 0],
            custom_set=[0, 0, 0, 0],
            volume=[10, 20, 20, 0],
            hitsound_file=["", "", "f.wav", ""],
        ),
        index=[9, 9, 4, 1],
    )
)
tgt = OsuMap()
tgt.hits = OsuHitList(
    pd.DataFrame(
        dict(
            offset=[100.0, 300.0, 100.0, 200.0, 100.0],
            column=[0, 1, 2, 3, 3],
            hitsound_set=[0, 0, 0, 0, 0],
            sample_set=[0, 0, 0, 0, 0],
            addition_set=[0, 0, 0, 0, 0],
            custom_set=[0, 0, 0, 0, 0],
            volume=[0, 0, 0, 0, 0],
            hitsound_file=["", "", "", "", ""],
        ),
        index=[5, 5, 2, 0, 7],
    )
)
attempt("E-typed-frames", src, tgt)

# nothing to copy, empty target, target without holds, source without hits
src = rand_map(6, 3, "shuffle", plain=True)
attempt("E-plain-source", src, rand_map(5, 2, "shuffle"))
attempt("E-empty-target", rand_map(6, 3, "shuffle"), OsuMap())
attempt("E-empty-source", OsuMap(), rand_map(6, 3, "shuffle"))
attempt("E-both-empty", OsuMap(), OsuMap())
attempt("E-self", src, src)
m = rand_map(12, 5, "shuffle")
attempt("E-self-sounds", m, m)

# The library's own test files, as is and with reversed / shuffled rows
tdir = Path("tests/algorithm_tests/osu/hitsound_copy")
if (tdir / "source.osu").exists():
    src0 = OsuMap.read_file(tdir / "source.osu")
    tgt0 = OsuMap.read_file(tdir / "target.osu")
    attempt("F-files", src0, tgt0)
    for i in range(3):
        src, tgt = src0.deepcopy(), tgt0.deepcopy()
        for m in (src, tgt):
            for name in ("hits", "holds"):
                lst = getattr(m, name)
                df = lst.df.iloc[::-1] if i == 0 else lst.df.sample(frac=1, random_state=i)
                setattr(m, name, type(lst)(df.reset_index(drop=True)))
        attempt(f"F-files-perm{i}", src, tgt)
else:
    emit("F-files missing")

text = "\n".join(OUT)
if len(sys.argv) > 1:  # optional: write the canonical dump for inspection
    with open(sys.argv[1], "w") as f:
        f.write(text)
print("DIGEST", hashlib.sha256(text.encode("utf-8")).hexdigest())
