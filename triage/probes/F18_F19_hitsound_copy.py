import warnings; warnings.filterwarnings("ignore")
from reamber.osu.OsuMap import OsuMap
from reamber.osu.OsuHit import OsuHit
from reamber.osu.OsuHold import OsuHold
from reamber.osu.lists.notes.OsuHitList import OsuHitList
from reamber.osu.lists.notes.OsuHoldList import OsuHoldList
from reamber.algorithms.osu.hitsound_copy import hitsound_copy
src = OsuMap(); tgt = OsuMap()
src.hits = OsuHitList([OsuHit(0, 0, hitsound_set=8), OsuHit(100, 0, hitsound_file="a.wav"), OsuHit(100,1,hitsound_file="b.wav"), OsuHit(100,2,hitsound_file="c.wav")])
tgt.hits = OsuHitList([OsuHit(0, 1, hitsound_set=2), OsuHit(100, 1), OsuHit(500, 1, hitsound_set=2, hitsound_file="x.wav")])
tgt.holds = OsuHoldList([OsuHold(700, 0, 100, hitsound_set=4)])
out = hitsound_copy(src, tgt)
print(out.hits.df[["offset","hitsound_set","hitsound_file"]].to_dict("records"))
print(out.holds.df[["offset","hitsound_set"]].to_dict("records"), list(out.samples.df.sample_file))
print("tgt untouched", list(tgt.hits.hitsound_set), list(tgt.holds.hitsound_set))
m = OsuMap.read_file("rsc/maps/osu/map_read.osu") if __import__("os").path.exists("rsc/maps/osu/map_read.osu") else None
