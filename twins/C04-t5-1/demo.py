"""Demo / differential digest for property C04 (BMS reading).

Run as:  cd /tmp/wt6/C04 && PYTHONPATH=/tmp/wt6/C04 /venv/bin/python demo.py

Generates several dozen BMS texts of the quantified domain (4/4 only, integer
and extended tempo changes at arbitrary subdivisions, LNOBJ long notes, shuffled
lines, repeated measure/channel lines, all five shipped channel layouts) plus
edge cases, reads them, and additionally drives the timing helpers
(TimingMap.offsets / TimingMap.snaps / from_bpm_changes_snap) directly.
Everything observable is dumped to a canonical text whose sha256 is printed.
"""
import copy
import hashlib
import logging
import random
import warnings
from fractions import Fraction

import numpy as np

from reamber.algorithms.timing.TimingMap import TimingMap
from reamber.algorithms.timing.utils.BpmChangeOffset import BpmChangeOffset
from reamber.algorithms.timing.utils.BpmChangeSnap import BpmChangeSnap
from reamber.algorithms.timing.utils.Snapper import Snapper
from reamber.algorithms.timing.utils.from_bpm_changes_snap import (
    from_bpm_changes_snap,
)
from reamber.algorithms.timing.utils.snap import Snap
from reamber.bms.BMSChannel import BMSChannel
from reamber.bms.BMSMap import BMSMap

random.seed(20040404)
warnings.simplefilter("ignore")

OUT = []


def emit(*parts):
    OUT.append(" | ".join(str(p) for p in parts))


# ------------------------------------------------------------------ logging
class _Capture(logging.Handler):
    def __init__(self):
        super().__init__(level=logging.WARNING)
        self.records = []

    def emit(self, record):
        self.records.append(f"{record.levelname}:{record.getMessage()}")


CAPTURE = _Capture()
logging.getLogger().addHandler(CAPTURE)
logging.getLogger().setLevel(logging.WARNING)


def drain_log():
    r = list(CAPTURE.records)
    CAPTURE.records.clear()
    return r


# ------------------------------------------------------------------ dumping
def dump_df(name, df):
    emit(name, "columns", list(df.columns))
    emit(name, "dtypes", [str(t) for t in df.dtypes])
    emit(name, "index", type(df.index).__name__, str(df.index.dtype), list(df.index))
    for row in df.itertuples(index=True, name=None):
        emit(name, "row", [f"{type(v).__name__}:{v!r}" for v in row])


def dump_array(name, a):
    emit(name, type(a).__name__, str(a.dtype), a.shape,
         [f"{type(v).__name__}:{v!r}" for v in a.tolist()])


def dump_map(tag, m):
    emit(tag, "type", type(m).__name__)
    for attr in ("title", "artist", "version", "ln_end_channel"):
        v = getattr(m, attr)
        emit(tag, attr, type(v).__name__, repr(v))
    emit(tag, "exbpms", [(repr(k), type(v).__name__, repr(v)) for k, v in m.exbpms.items()])
    emit(tag, "samples", [(repr(k), repr(v)) for k, v in m.samples.items()])
    emit(tag, "misc", [(repr(k), repr(v)) for k, v in m.misc.items()])
    emit(tag, "objs-keys", list(m.objs.keys()))
    for key in m.objs:
        lst = m.objs[key]
        emit(tag, key, "listtype", type(lst).__name__)
        dump_df(f"{tag}.{key}", lst.df)


# --------------------------------------------------------------- generators
B36 = "0123456789ABCDEFGHIJKLMNOPQRSTUVWXYZ"
LAYOUTS = {
    "BMS": BMSChannel.BMS,
    "BME": BMSChannel.BME,
    "PMS": BMSChannel.PMS,
    "PMS_BME": BMSChannel.PMS_BME,
    "PMS_5B": BMSChannel.PMS_5B,
}
ALL_NOTE_CHANNELS = sorted(
    {k.decode() for cfg in LAYOUTS.values() for k, v in cfg.items() if isinstance(v, int)}
)


def b36(n):
    return B36[n // 36] + B36[n % 36]


def gen_bms(rng, n_measures, layout_channels, ln, ordered, repeat_lines,
            measure0_bpm, n_ext, extra_channels=()):
    """Returns list[str] of one BMS text"""
    ids = [b36(rng.randrange(1, 36 * 36 - 1)) for _ in range(rng.randint(1, 6))]
    ids = [i for i in ids if i != "ZY"]
    lnobj = "ZY"
    ext = {}
    for _ in range(n_ext):
        ext[b36(rng.randrange(1, 200))] = rng.choice(
            [90.5, 133.33, 180.0, 222.22, 75.125, 400.0, 0.75, 59.94]
        )
    head = [
        "#PLAYER 1",
        "#GENRE " + rng.choice(["Genre X", "a b c", "Trance"]),
        "#TITLE " + rng.choice(["Song With Spaces", "T", "abc [ANOTHER]"]),
        "#ARTIST " + rng.choice(["Some One", "obj: Nobody", "A"]),
        "#BPM " + rng.choice(["120", "150", "87.5", "200.25", "60"]),
        "#PLAYLEVEL " + str(rng.randint(1, 12)),
        "#RANK 2",
        "#TOTAL 300",
    ]
    if ln:
        head.append("#LNOBJ " + lnobj)
    for k, v in ext.items():
        head.append(f"#BPM{k} {v}")
    wav_ids = ids[: max(1, len(ids) - 1)]  # one id may have no #WAV
    for i in wav_ids:
        head.append(f"#WAV{i} s_{i.lower()}.wav")
    rng.shuffle(head)

    body = []
    open_ln = {}
    for measure in range(n_measures):
        if measure == 0 and measure0_bpm:
            body.append(f"#00003:{rng.choice(['78', 'B4', '3C'])}")
        for ch in layout_channels + list(extra_channels):
            for _ in range(rng.choice(repeat_lines)):
                if rng.random() < 0.35:
                    continue
                div = rng.choice([1, 2, 3, 4, 5, 6, 7, 8, 12, 16, 24, 48, 192])
                seq = []
                for p in range(div):
                    dens = 0.6 if div <= 8 else 0.12
                    if rng.random() < dens:
                        if ln and open_ln.get(ch) and rng.random() < 0.5:
                            seq.append(lnobj)
                            open_ln[ch] = False
                        else:
                            seq.append(rng.choice(ids))
                            open_ln[ch] = True
                    else:
                        seq.append("00")
                body.append(f"#{measure:03d}{ch}:{''.join(seq)}")
        # tempo changes
        if rng.random() < 0.55:
            div = rng.choice([1, 2, 3, 4, 8, 16, 5])
            seq = [
                rng.choice(["3C", "78", "96", "B4", "FF", "01", "5A"])
                if rng.random() < 0.4 else "00"
                for _ in range(div)
            ]
            if measure == 0 and not measure0_bpm:
                seq[0] = "00"
            body.append(f"#{measure:03d}03:{''.join(seq)}")
        if ext and rng.random() < 0.55:
            div = rng.choice([1, 2, 4, 6, 8, 32])
            seq = [
                rng.choice(list(ext)) if rng.random() < 0.35 else "00"
                for _ in range(div)
            ]
            if measure == 0:
                seq[0] = "00"
            body.append(f"#{measure:03d}08:{''.join(seq)}")
    if not ordered:
        rng.shuffle(body)
    sep = rng.choice([[""], ["", "*---- MAIN DATA FIELD", ""], []])
    return head + sep + body


def run_read(tag, lines, cfg_name):
    cfg = LAYOUTS[cfg_name]
    lines_before = list(lines)
    cfg_before = dict(cfg)
    drain_log()
    try:
        m = BMSMap.read(lines, note_channel_config=cfg)
    except Exception as e:  # noqa
        emit(tag, cfg_name, "READ-EXC", type(e).__name__, str(e))
        m = None
    emit(tag, cfg_name, "log", drain_log())
    emit(tag, cfg_name, "lines-unchanged", lines == lines_before,
         "cfg-unchanged", cfg == cfg_before and list(cfg) == list(cfg_before))
    if m is None:
        return None
    dump_map(f"{tag}.{cfg_name}", m)
    return m


def run_write(tag, m, cfg_name):
    """Drives TimingMap.snaps via the writer; exceptions recorded by type"""
    before = copy.deepcopy(m)
    try:
        out = m.write(note_channel_config=LAYOUTS[cfg_name])
        emit(tag, cfg_name, "WRITE", hashlib.sha256(out).hexdigest(), len(out))
    except Exception as e:  # noqa
        emit(tag, cfg_name, "WRITE-EXC", type(e).__name__)
    for key in m.objs:
        emit(tag, cfg_name, "write-kept", key, m.objs[key].df.equals(before.objs[key].df))
    drain_log()


# ============================================================= 1. BMS reads
rng = random.Random(404)
case = 0
for cfg_name, cfg in LAYOUTS.items():
    chans = sorted(k.decode() for k, v in cfg.items() if isinstance(v, int))
    for variant in range(9):
        case += 1
        ln = variant % 3 != 0
        ordered = variant % 2 == 0 or variant == 7
        lines = gen_bms(
            rng,
            n_measures=rng.choice([1, 2, 3, 5, 8]),
            layout_channels=chans if variant != 4 else rng.sample(chans, max(1, len(chans) // 2)),
            ln=ln,
            ordered=ordered,
            repeat_lines=[1] if variant < 3 else [1, 2, 3],
            measure0_bpm=variant in (2, 5, 8),
            n_ext=[0, 1, 3, 0, 2, 4, 1, 2, 3][variant],
            extra_channels=("01",) if variant == 6 else (),
        )
        tag = f"gen{case:02d}"
        emit(tag, "nlines", len(lines), hashlib.sha256("\n".join(lines).encode()).hexdigest())
        m = run_read(tag, lines, cfg_name)
        if m is not None and variant in (0, 1, 2):
            run_write(tag, m, cfg_name)

# every layout on the SAME text that uses every channel of every layout
for variant in range(3):
    lines = gen_bms(rng, 4, ALL_NOTE_CHANNELS, ln=variant > 0, ordered=variant < 2,
                    repeat_lines=[1, 2], measure0_bpm=variant == 2, n_ext=2)
    for cfg_name in LAYOUTS:
        run_read(f"all{variant}", lines, cfg_name)

# ---------------------------------------------------------- hand-made edges
HEAD = ["#TITLE t", "#ARTIST a", "#PLAYLEVEL 3", "#BPM 120", "#WAV01 a.wav",
        "#WAV02 b.wav", "#LNOBJ ZZ", "#BPM01 145.5", "#BPMAB 33.25"]
EDGES = {
    "no-notes": HEAD,
    "empty-text": [],
    "no-bpm-header": ["#TITLE t", "#00111:01"],
    "only-bgm": HEAD + ["#00101:0102"],
    "single-hit": HEAD + ["#00011:01"],
    "hit-far": HEAD + ["#99911:00000001"],
    "tie-two-lines": HEAD + ["#00111:0100", "#00111:0200", "#00111:0002"],
    "ln-basic": HEAD + ["#00111:01ZZ", "#00212:0100", "#00312:00ZZ"],
    "ln-across-tempo": HEAD + ["#00111:0100", "#00103:0078B400", "#00208:0001AB00", "#00311:000000ZZ"],
    "ln-tail-first": HEAD + ["#00111:ZZ01"],
    "ln-tail-orphan": HEAD + ["#00111:01", "#00112:ZZ"],
    "ln-tail-line-before-head-line": HEAD + ["#00211:ZZ", "#00111:01"],
    "ln-only": HEAD + ["#00111:01ZZ"],
    "ln-zero-length": HEAD + ["#00111:01", "#00111:ZZ"],
    "bpm-m0b0": HEAD + ["#00003:B4", "#00011:0101"],
    "bpm-m0b0-ext": HEAD + ["#00008:01", "#00011:0101", "#00111:0002"],
    "bpm-two-m0b0": HEAD + ["#00003:B4", "#00003:3C", "#00111:01"],
    "bpm-same-snap": HEAD + ["#00103:0078", "#00108:00AB", "#00211:01020102"],
    "bpm-unsorted": HEAD + ["#00503:78", "#00203:003C", "#00108:000001", "#00711:01", "#00011:02", "#00311:0001"],
    "bpm-unknown-ext": HEAD + ["#00108:07"],
    "bpm-after-all-notes": HEAD + ["#00011:01", "#00903:FF"],
    "odd-division": HEAD + ["#00111:" + "00" * 6 + "01", "#00116:" + "01" * 7, "#00103:" + "00" * 4 + "96"],
    "no-lnobj-header": ["#BPM 130", "#WAV0A x.wav", "#00111:0A0B", "#00112:ZZ"],
    "exbpm-lowercase-key": ["#BPM 130", "#bpm0a 77", "#00111:0A"],
    "whitespace": ["  #BPM 100  ", "\t#TITLE  x  y ", "#00111:0100\r\n", "", "junk line"],
}
for name, lines in EDGES.items():
    for cfg_name in LAYOUTS:
        m = run_read(f"edge:{name}", list(lines), cfg_name)
    if m is not None and name in ("single-hit", "ln-basic", "no-notes", "bpm-same-snap"):
        run_write(f"edge:{name}", m, "PMS_5B")

# default layout argument
m = run_read("default-cfg", HEAD + ["#00116:01", "#00129:02"], "BME")
try:
    m2 = BMSMap.read(HEAD + ["#00116:01", "#00129:02"])
    dump_map("default-cfg-implicit", m2)
except Exception as e:  # noqa
    emit("default-cfg-implicit", "EXC", type(e).__name__, str(e))


# ============================================ 2. timing helpers, direct calls
def rand_snap(r, metronome):
    den = r.choice([1, 2, 3, 4, 5, 7, 8, 16, 192])
    return Snap(r.randrange(0, 12), Fraction(r.randrange(0, 4 * den), den), metronome)


def rand_bcs_list(r, n, on_measure, first_zero=True):
    out = []
    for i in range(n):
        bpm = r.choice([60, 120, 150.5, 200, 87.25, 33, 1000])
        if i == 0 and first_zero:
            snap = Snap(0, 0, 4)
        elif on_measure:
            snap = Snap(r.randrange(0, 10), 0, 4)
        else:
            snap = rand_snap(r, 4)
        out.append(BpmChangeSnap(bpm, 4, snap))
    return out


def dump_tm(tag, tm):
    emit(tag, type(tm).__name__, "n", len(tm.bpm_changes_offset))
    for b in tm.bpm_changes_offset:
        emit(tag, "bco", type(b).__name__, type(b.bpm).__name__, repr(b.bpm),
             type(b.metronome).__name__, repr(b.metronome),
             type(b.offset).__name__, repr(b.offset))
    for b in tm.bpm_changes_snap():
        emit(tag, "bcs", repr(b.bpm), repr(b.metronome), b.snap.measure,
             repr(b.snap.beat), repr(b.snap.metronome))


r = random.Random(77)
tms = []
for i in range(40):
    n = r.choice([0, 1, 1, 2, 3, 5, 9])
    on_measure = i % 3 == 0
    first_zero = i % 7 != 6
    reseat = i % 2 == 0
    bcs_s = rand_bcs_list(r, n, on_measure, first_zero)
    if i % 5 == 0:
        r.shuffle(bcs_s)
    if i % 11 == 3 and n > 1:
        bcs_s.append(copy.deepcopy(bcs_s[-1]))  # exact tie
    init = r.choice([0, 0.0, -25.5, 1000, 13.125])
    before = repr([(b.bpm, b.metronome, b.snap.measure, b.snap.beat, b.snap.metronome) for b in bcs_s])
    ids_before = [id(b) for b in bcs_s]
    tag = f"fbcs{i:02d}"
    drain_log()
    for how in ("func", "static"):
        try:
            if how == "func":
                tm = from_bpm_changes_snap(init, bcs_s, reseat)
            else:
                tm = TimingMap.from_bpm_changes_snap(init, bcs_s, reseat=reseat)
            dump_tm(f"{tag}.{how}", tm)
            if how == "func":
                tms.append(tm)
        except Exception as e:  # noqa
            emit(f"{tag}.{how}", "EXC", type(e).__name__, str(e))
        emit(f"{tag}.{how}", "log", drain_log())
    after = repr([(b.bpm, b.metronome, b.snap.measure, b.snap.beat, b.snap.metronome) for b in bcs_s])
    emit(tag, "input-unchanged", before == after, ids_before == [id(b) for b in bcs_s])
    # default reseat argument
    try:
        dump_tm(f"{tag}.default", from_bpm_changes_snap(init, bcs_s))
    except Exception as e:  # noqa
        emit(f"{tag}.default", "EXC", type(e).__name__, str(e))
    emit(f"{tag}.default", "log", drain_log())

snapper = Snapper()
for j, tm in enumerate(tms):
    tag = f"tm{j:02d}"
    try:
        dump_tm(f"{tag}.reseat", tm.reseat())
    except Exception as e:  # noqa
        emit(f"{tag}.reseat", "EXC", type(e).__name__, str(e))
    drain_log()
    for k in range(4):
        n = [0, 1, 6, 25][k]
        snaps = [rand_snap(r, r.choice([4, None])) for _ in range(n)]
        if n > 3:
            snaps[2] = copy.deepcopy(snaps[0])  # ties
            snaps[3] = Snap(0, Fraction(0), 4)
        container = snaps if k % 2 == 0 else tuple(snaps)
        rep_before = repr(container)
        try:
            dump_array(f"{tag}.offsets{k}", tm.offsets(container))
        except Exception as e:  # noqa
            emit(f"{tag}.offsets{k}", "EXC", type(e).__name__, str(e))
        emit(f"{tag}.offsets{k}", "input-unchanged", rep_before == repr(container))

        last = tm.bpm_changes_offset[-1].offset
        first = tm.bpm_changes_offset[0].offset
        offs = [r.uniform(first, last + 5000) for _ in range(n)]
        if n > 3:
            offs[1] = offs[0]
            offs[2] = first
            offs[3] = tm.bpm_changes_offset[len(tm.bpm_changes_offset) // 2].offset
        if k == 3:
            offs[4] = first - 10.0  # before the first bpm -> IndexError
        arg = offs if k != 2 else np.array(offs)
        arg_before = repr(arg)
        try:
            res = tm.snaps(arg, snapper)
            emit(f"{tag}.snaps{k}", type(res).__name__, str(res.dtype), res.shape,
                 [(type(s).__name__, s.measure, repr(s.beat), repr(s.metronome))
                  if isinstance(s, Snap) else repr(s) for s in res.tolist()])
        except Exception as e:  # noqa
            emit(f"{tag}.snaps{k}", "EXC", type(e).__name__, str(e))
        emit(f"{tag}.snaps{k}", "input-unchanged", arg_before == repr(arg))
        try:
            dump_array(f"{tag}.beats{k}", tm.beats(offs, snapper))
        except Exception as e:  # noqa
            emit(f"{tag}.beats{k}", "EXC", type(e).__name__, str(e))

# snap before the first bpm change snap can not occur (Snap is >= 0.0), but an
# unsorted / offset-only TimingMap can be queried too
tm = TimingMap.from_bpm_changes_offset(
    [BpmChangeOffset(120, 4, 100.0), BpmChangeOffset(240, 4, 2100.0), BpmChangeOffset(60, 3, 4100.0)]
)
dump_tm("tm-offs", tm)
dump_array("tm-offs.offsets", tm.offsets([Snap(5, 1, 3), Snap(0, 0, 4), Snap(1, 2, 4), Snap(0, 0, 4)]))

text = "\n".join(OUT)
import os, sys
if os.environ.get("DEMO_DUMP"):
    open(os.environ["DEMO_DUMP"], "w").write(text)
print("DIGEST", hashlib.sha256(text.encode("utf-8")).hexdigest())
