"""Demonstration for C09 / k=1: SMToOsu.convert.

Run as:  cd /tmp/r15/C09 && PYTHONPATH=/tmp/r15/C09 /venv/bin/python demo.py
Prints ONE line on stdout: sha256 over a canonical text of every result
(frames, dtypes, row labels, metadata, written .osu text), every exception type
raised and the state of the inputs afterwards.
"""
import hashlib
import logging
import random
import sys
import warnings
from copy import deepcopy

import numpy as np
import pandas as pd

warnings.filterwarnings("ignore")
logging.disable(logging.WARNING)

import reamber
from reamber.algorithms.convert import SMToOsu
from reamber.osu.OsuMap import OsuMap
from reamber.sm.SMMap import SMMap
from reamber.sm.SMMapSet import SMMapSet
from reamber.sm.lists.SMBpmList import SMBpmList
from reamber.sm.lists.notes.SMHitList import SMHitList
from reamber.sm.lists.notes.SMHoldList import SMHoldList

print(reamber.__file__, file=sys.stderr)

RNG = random.Random(150901)
OUT = []


def emit(*parts):
    OUT.append(" | ".join(str(p) for p in parts))


def cell(v):
    if isinstance(v, (float, np.floating)):
        return "f:" + repr(float(v))
    if isinstance(v, (bool, np.bool_)):
        return "b:" + repr(bool(v))
    if isinstance(v, (int, np.integer)):
        return "i:" + repr(int(v))
    return type(v).__name__ + ":" + repr(v)


def dump_df(tag, df):
    emit(tag, "type", type(df).__name__, "shape", df.shape)
    emit(tag, "columns", list(df.columns), "dtypes", [str(d) for d in df.dtypes])
    emit(tag, "index", type(df.index).__name__, str(df.index.dtype), list(df.index))
    for row in df.itertuples(index=True, name=None):
        emit(tag, "row", [cell(v) for v in row])


def dump_list(tag, tl):
    emit(tag, "class", type(tl).__module__, type(tl).__name__, "len", len(tl))
    dump_df(tag, tl.df)


META_SET = [
    "title", "subtitle", "artist", "title_translit", "subtitle_translit",
    "artist_translit", "genre", "credit", "banner", "background", "lyrics_path",
    "cd_title", "music", "offset", "sample_start", "sample_length", "display_bpm",
    "selectable", "bg_changes", "fg_changes",
]
META_MAP = ["chart_type", "description", "difficulty", "difficulty_val", "groove_radar"]


def dump_sms(tag, sms):
    emit(tag, "set", type(sms).__name__, "n_maps", len(sms.maps))
    for k in META_SET:
        emit(tag, "setmeta", k, cell(getattr(sms, k)))
    for i, sm in enumerate(sms.maps):
        for k in META_MAP:
            emit(tag, i, "mapmeta", k, cell(getattr(sm, k)))
        emit(tag, i, "objs", list(sm.objs.keys()))
        for name, tl in sm.objs.items():
            dump_list(f"{tag}.{i}.{name}", tl)


def dump_osu(tag, osu):
    emit(tag, "class", type(osu).__module__, type(osu).__name__)
    for k, v in sorted(vars(osu).items()):
        if k == "objs":
            continue
        if k == "samples":
            dump_list(f"{tag}.samples", v)
            continue
        emit(tag, "attr", k, cell(v))
    emit(tag, "objs", list(osu.objs.keys()))
    for name, tl in osu.objs.items():
        dump_list(f"{tag}.{name}", tl)
    try:
        text = osu.write()
        emit(tag, "write", type(text).__name__, len(text))
        for line in text:
            emit(tag, "w", repr(line))
        try:
            back = OsuMap.read(text)
            for name in ("hits", "holds", "bpms"):
                dump_list(f"{tag}.back.{name}", getattr(back, name))
            emit(tag, "back.cs", cell(back.circle_size), "pt", cell(back.preview_time))
        except Exception as e:  # noqa
            emit(tag, "read-back raised", type(e).__name__)
    except Exception as e:  # noqa
        emit(tag, "write raised", type(e).__name__)


def run(tag, sms):
    """Convert, dump everything, then check the inputs' state and independence."""
    before = deepcopy(sms)
    ids_before = [[id(tl.df) for tl in sm.objs.values()] for sm in sms.maps]
    try:
        osus = SMToOsu.convert(sms)
    except Exception as e:  # noqa
        emit(tag, "convert raised", type(e).__name__)
        osus = None
    else:
        emit(tag, "result", type(osus).__name__, len(osus))
        for i, osu in enumerate(osus):
            dump_osu(f"{tag}.osu{i}", osu)
        # distinct objects for distinct charts
        emit(tag, "distinct", len({id(o) for o in osus}) == len(osus))
    # state of the input afterwards
    dump_sms(f"{tag}.after", sms)
    ids_after = [[id(tl.df) for tl in sm.objs.values()] for sm in sms.maps]
    emit(tag, "same frames kept", ids_before == ids_after)
    same = True
    for a, b in zip(before.maps, sms.maps):
        for name in a.objs:
            da, db = a.objs[name].df, b.objs[name].df
            same &= da.equals(db) and list(da.index) == list(db.index)
            same &= [str(x) for x in da.dtypes] == [str(x) for x in db.dtypes]
    emit(tag, "input unchanged", same)
    # results do not alias the input: mutate result, look at input
    if osus:
        for i, osu in enumerate(osus):
            if len(osu.hits):
                osu.hits.offset += 12345.5
            if len(osu.holds):
                osu.holds.length *= 3
            if len(osu.bpms):
                osu.bpms.bpm += 1
        same = True
        for a, b in zip(before.maps, sms.maps):
            for name in a.objs:
                same &= a.objs[name].df.equals(b.objs[name].df)
        emit(tag, "input unchanged after mutating results", same)


# --------------------------------------------------------------------------
# generators
# --------------------------------------------------------------------------
CHART_TYPES = [
    ("dance-single", 4), ("dance-double", 8), ("dance-solo", 6),
    ("dance-threepanel", 3), ("kb7-single", 7), ("dance-couple", 4),
    ("dance-routine", 8),
]
ODD_CHART_TYPES = ["pump-single", "bm-single7", "pnm-nine", "no-such-type", ""]


def rand_time(kind):
    if kind == "int":
        return float(RNG.randrange(0, 60000))
    if kind == "frac":
        return RNG.uniform(0, 60000)
    if kind == "neg":
        return RNG.uniform(-5000, 20000)
    return RNG.choice([0.0, 0.1 + 0.2, 1e-9, 1e7 + 0.5, -0.0, 333.3333333333333])


def make_map(keys, chart_type, n_hits, n_holds, n_bpms, kind, unsorted=False,
             relabel=None, zero_holds=False):
    sm = SMMap()
    sm.chart_type = chart_type
    sm.difficulty = RNG.choice(["Beginner", "Easy", "Medium", "Hard", "Challenge", "Edit"])
    sm.difficulty_val = RNG.choice([1, 7, 12, 0, -3, 99])
    sm.description = RNG.choice(["", "desc", "K. Ward"])

    hits = pd.DataFrame({
        "offset": [rand_time(kind) for _ in range(n_hits)],
        "column": [RNG.randrange(keys) for _ in range(n_hits)],
    }).astype({"offset": float, "column": int})
    holds = pd.DataFrame({
        "offset": [rand_time(kind) for _ in range(n_holds)],
        "column": [RNG.randrange(keys) for _ in range(n_holds)],
        "length": [0.0 if (zero_holds and i % 2 == 0) else RNG.uniform(0.5, 4000)
                   for i in range(n_holds)],
    }).astype({"offset": float, "column": int, "length": float})
    bpms = pd.DataFrame({
        "offset": sorted(rand_time(kind) for _ in range(n_bpms)),
        "bpm": [RNG.choice([60.0, 120.0, 174.5, 200.0, 333.333, 0.5]) for _ in range(n_bpms)],
        "metronome": [4.0] * n_bpms,
    }).astype(float)
    if not unsorted:
        hits = hits.sort_values("offset", kind="stable").reset_index(drop=True)
        holds = holds.sort_values("offset", kind="stable").reset_index(drop=True)
    else:
        bpms = bpms.iloc[::-1].reset_index(drop=True)
    sm.hits = SMHitList(hits) if n_hits else SMHitList([])
    sm.holds = SMHoldList(holds) if n_holds else SMHoldList([])
    sm.bpms = SMBpmList(bpms) if n_bpms else SMBpmList([])

    if relabel == "filter":
        # non-default row labels after a filter
        if n_hits:
            sm.hits = sm.hits[sm.hits.column != 0]
        if n_holds:
            sm.holds = sm.holds[sm.holds.offset > sm.holds.offset.median()]
    elif relabel == "shuffle":
        if n_hits:
            ix = list(range(n_hits))
            RNG.shuffle(ix)
            sm.hits.df = sm.hits.df.iloc[ix]
        if n_holds:
            sm.holds.df = sm.holds.df.set_index(
                pd.Index([100 + 3 * i for i in range(n_holds)])
            )
        if n_bpms:
            sm.bpms.df = sm.bpms.df.set_index(pd.Index([f"b{i}" for i in range(n_bpms)]))
    return sm


def make_set(maps, **meta):
    sms = SMMapSet(maps=maps)
    sms.title = RNG.choice(["Song", "曲名", "", "A: B; C", "x" * 40])
    sms.title_translit = RNG.choice(["Song", "Kyokumei", ""])
    sms.artist = RNG.choice(["Artist", "アーティスト", ""])
    sms.artist_translit = RNG.choice(["Artist", ""])
    sms.music = RNG.choice(["audio.mp3", "a b.ogg", ""])
    sms.background = RNG.choice(["bg.png", "", "dir/bg.jpg"])
    sms.credit = RNG.choice(["me", "", "someone else"])
    sms.sample_start = RNG.choice([0.0, 12345.678, 999.999, -250.5, 30000, 1e6 + 0.75])
    sms.offset = RNG.choice([0.0, -120.5, 33.0])
    for k, v in meta.items():
        setattr(sms, k, v)
    return sms


def sm_text(keys, chart_type, n_measures, n_charts, with_holds=True, comments=False):
    changes = {0: RNG.choice([120, 150.5, 200])}
    for _ in range(RNG.randrange(0, 3)):
        changes[RNG.randrange(1, 4 * n_measures + 1)] = RNG.choice([90, 180, 240.25])
    bpms = ",".join(f"{b}={v}" for b, v in sorted(changes.items()))
    head = [
        f"#TITLE:T{RNG.randrange(1000)};",
        "#SUBTITLE:sub;",
        "#ARTIST:Ar;",
        "#TITLETRANSLIT:TT;",
        "#ARTISTTRANSLIT:AT;",
        "#CREDIT:cr;",
        "#BACKGROUND:bg.png;",
        "#MUSIC:m.ogg;",
        f"#OFFSET:{RNG.choice(['0.000', '-0.123', '1.5', '0.0105'])};",
        f"#SAMPLESTART:{RNG.choice(['0.000', '12.345', '59.9999', '-1.5'])};",
        "#SAMPLELENGTH:10.000;",
        f"#BPMS:{bpms};",
        "#STOPS:;",
    ]
    if comments:
        head.insert(3, "// a comment line")
    charts = []
    for c in range(n_charts):
        measures = []
        open_cols = set()
        for m in range(n_measures):
            div = RNG.choice([4, 8, 12, 16])
            rows = []
            for r in range(div):
                row = ["0"] * keys
                for k in range(keys):
                    x = RNG.random()
                    if k in open_cols:
                        if x < 0.35:
                            row[k] = "3"
                            open_cols.discard(k)
                    elif x < 0.18:
                        row[k] = "1"
                    elif with_holds and x < 0.25:
                        row[k] = "2"
                        open_cols.add(k)
                rows.append("".join(row))
            measures.append("\n".join(rows))
        # close what is still open
        if open_cols:
            row = ["0"] * keys
            for k in open_cols:
                row[k] = "3"
            measures.append("\n".join(["".join(row)] + ["0" * keys] * 3))
        diff = ["Beginner", "Easy", "Medium", "Hard", "Challenge", "Edit"][c % 6]
        charts.append(
            f"#NOTES:\n     {chart_type}:\n     d{c}:\n     {diff}:\n     {c + 1}:\n"
            f"     0.1,0.2,0.3,0.4,0.5:\n" + "\n,\n".join(measures) + "\n;"
        )
    return "\n".join(head) + "\n" + "\n".join(charts) + "\n"


# --------------------------------------------------------------------------
# cases
# --------------------------------------------------------------------------
case = 0


def next_tag(label):
    global case
    case += 1
    return f"case{case:02d}[{label}]"


# A. files read through the public reader: every SM key count, 1..3 charts
for ct, keys in CHART_TYPES:
    for n_charts in (1, 3):
        text = sm_text(keys, ct, RNG.randrange(1, 4), n_charts,
                       with_holds=RNG.random() < 0.8, comments=RNG.random() < 0.5)
        tag = next_tag(f"file {ct} x{n_charts}")
        try:
            sms = SMMapSet.read(text)
        except Exception as e:  # noqa
            emit(tag, "read raised", type(e).__name__)
            continue
        run(tag, sms)

# B. constructed sets: time kinds x key counts
for kind in ("int", "frac", "neg", "odd"):
    for ct, keys in RNG.sample(CHART_TYPES, 3):
        m = make_map(keys, ct, RNG.randrange(1, 12), RNG.randrange(0, 6),
                     RNG.randrange(1, 4), kind)
        run(next_tag(f"built {kind} {ct}"), make_set([m]))

# C. unsorted rows, foreign row labels, zero-length holds
for relabel in (None, "filter", "shuffle"):
    for ct, keys in RNG.sample(CHART_TYPES, 2):
        m = make_map(keys, ct, 9, 6, 3, "frac", unsorted=True, relabel=relabel,
                     zero_holds=True)
        run(next_tag(f"unsorted relabel={relabel} {ct}"), make_set([m]))

# D. empty lists, in every combination worth having
run(next_tag("no hits"), make_set([make_map(4, "dance-single", 0, 4, 2, "int")]))
run(next_tag("no holds"), make_set([make_map(4, "dance-single", 5, 0, 2, "int")]))
run(next_tag("no bpms"), make_set([make_map(4, "dance-single", 5, 3, 0, "int")]))
run(next_tag("nothing"), make_set([make_map(7, "kb7-single", 0, 0, 0, "int")]))
run(next_tag("default map"), make_set([SMMap()]))
run(next_tag("no charts"), make_set([]))
run(next_tag("no charts, bad preview"), make_set([], sample_start=None))

# E. several charts of different key counts in one set (same set metadata)
maps = [make_map(k, ct, RNG.randrange(0, 8), RNG.randrange(0, 5), RNG.randrange(1, 3),
                 RNG.choice(["int", "frac", "neg"]), relabel=RNG.choice([None, "filter"]))
        for ct, k in CHART_TYPES]
run(next_tag("seven charts"), make_set(maps))
# the same chart object twice in a set
m = make_map(4, "dance-single", 4, 2, 1, "frac")
run(next_tag("same chart twice"), make_set([m, m]))

# F. chart types without a key count / unknown
for ct in ODD_CHART_TYPES:
    m = make_map(5, ct, 6, 2, 1, "int")
    run(next_tag(f"chart type {ct!r}"), make_set([m]))

# G. metadata that makes the conversion raise (second chart never reached)
m1 = make_map(4, "dance-single", 3, 1, 1, "int")
m2 = make_map(6, "dance-solo", 3, 1, 1, "int")
run(next_tag("sample_start None"), make_set([m1, m2], sample_start=None))
run(next_tag("sample_start text"), make_set([m1, m2], sample_start="12.5"))
run(next_tag("sample_start digits"), make_set([m1, m2], sample_start="125"))
run(next_tag("sample_start nan"), make_set([m1, m2], sample_start=float("nan")))
run(next_tag("sample_start inf"), make_set([m1, m2], sample_start=float("inf")))
run(next_tag("sample_start numpy"), make_set([m1, m2], sample_start=np.float32(77.7)))
run(next_tag("title None"), make_set([m1], title=None, artist=None))
# not a map set at all
for bad in (None, 5, [m1], "abc"):
    tag = next_tag(f"bad argument {type(bad).__name__}")
    try:
        r = SMToOsu.convert(bad)
        emit(tag, "result", type(r).__name__, len(r))
    except Exception as e:  # noqa
        emit(tag, "convert raised", type(e).__name__)
# chart missing an attribute / a list of a foreign class
broken = make_map(4, "dance-single", 3, 1, 1, "int")
del broken.objs["holds"]
run(next_tag("chart without holds entry"), make_set([m1, broken]))

emit("cases", case)
text = "\n".join(OUT)
print(len(OUT), "lines,", case, "cases", file=sys.stderr)
if len(sys.argv) > 1:  # optional: keep the canonical text for inspection
    with open(sys.argv[1], "w", encoding="utf8") as f:
        f.write(text)
print(hashlib.sha256(text.encode("utf8")).hexdigest())
