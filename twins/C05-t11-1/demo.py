"""Demo for change 1: BMSMap._write_file_header assembled in one bytearray buffer.

Run:  cd /tmp/wt7/C05 && PYTHONPATH=/tmp/wt7/C05 /venv/bin/python demo.py
Prints one line `DIGEST <hex>`: sha256 over a canonical dump of, per generated
chart: the header bytes (direct call to _write_file_header), the whole written
file (write), the file left on disk by write_file, the exception types raised,
and the full state of the chart afterwards (to show nothing is modified).
"""
import hashlib
import os
import random
import tempfile
import warnings

warnings.simplefilter("ignore")

from reamber.bms.BMSMap import BMSMap  # noqa: E402
from reamber.bms.BMSChannel import BMSChannel  # noqa: E402
from reamber.bms import BMSHit, BMSHold  # noqa: E402
from reamber.bms.BMSBpm import BMSBpm  # noqa: E402
from reamber.bms.lists import BMSBpmList  # noqa: E402
from reamber.bms.lists.notes import BMSHitList, BMSHoldList  # noqa: E402

random.seed(120505)

LAYOUTS = {
    "BMS": BMSChannel.BMS,
    "BME": BMSChannel.BME,
    "PMS": BMSChannel.PMS,
    "PMS_BME": BMSChannel.PMS_BME,
    "PMS_5B": BMSChannel.PMS_5B,
}
OUT = []


def emit(*parts):
    OUT.append(" | ".join(str(p) for p in parts))


def dump_df(name, lst):
    df = lst.df
    emit(name, "cols", list(df.columns))
    emit(name, "dtypes", [str(t) for t in df.dtypes])
    emit(name, "index", list(df.index))
    emit(name, "rows", [[repr(v) for v in row] for row in df.values.tolist()])


def dump_map(m):
    dump_df("hits", m.hits)
    dump_df("holds", m.holds)
    dump_df("bpms", m.bpms)
    for attr in ("title", "artist", "version", "ln_end_channel"):
        v = getattr(m, attr)
        emit(attr, type(v).__name__, repr(v))
    for attr in ("samples", "misc", "exbpms"):
        d = getattr(m, attr)
        emit(attr, type(d).__name__, [(type(k).__name__, repr(k), type(v).__name__, repr(v)) for k, v in d.items()])


def attempt(label, fn):
    try:
        r = fn()
    except BaseException as e:  # noqa
        emit(label, "RAISED", type(e).__name__)
        return None
    emit(label, type(r).__name__, r.hex() if isinstance(r, (bytes, bytearray)) else repr(r))
    return r


TEXTS = [
    "", "plain title", b"raw bytes title", "夏祭り -remix-", "ｶﾀｶﾅ ﾊﾝｶｸ", "back\\slash ~tilde",
    "夏祭り".encode("shift_jis"), "x" * 300, "  spaced  ", "#hash : colon", b"",
]
BAD_TEXTS = ["heart ♥ emoji \U0001F600", "café"]
VERSIONS = ["", "12", b"7", "難 HYPER", b"\x93\xef", "♥", 5, None]


def make_bpms(n, bpm_pool, measures_pool, metronomes=False):
    bpms, off = [], 0.0
    for i in range(n):
        bpm = random.choice(bpm_pool)
        kw = {}
        if metronomes and i and random.random() < 0.3:
            kw["metronome"] = random.choice([3, 5, 2, 6])
        bpms.append(BMSBpm(off, bpm, **kw))
        off += random.choice(measures_pool) * kw.get("metronome", 4) * 60000 / bpm
    return bpms, off


def make_notes(bpms, end, cols, n_hits, n_holds, samples):
    used = set()
    names = [b""] + list(samples.values()) + [b"unknown.wav"]
    names = [n for n in names if isinstance(n, bytes)] or [b""]
    hits, holds = [], []

    def place():
        for _ in range(50):
            b = random.choice(bpms)
            beat_len = 60000 / b.bpm
            if random.random() < 0.75:
                den = random.choice([1, 2, 3, 4, 6, 8, 12, 16])
                t = b.offset + (random.randrange(0, 8) + random.randrange(den) / den) * beat_len
            else:
                t = random.uniform(0, max(end, 1.0))
            c = random.choice(cols)
            key = (c, round(t, 3))
            if key not in used:
                used.add(key)
                return t, c
        return None

    for _ in range(n_hits):
        p = place()
        if p:
            hits.append(BMSHit(p[0], p[1], random.choice(names)))
    for _ in range(n_holds):
        p = place()
        if p:
            length = random.choice([125.0, 250.0, 333.3, 1000.0, 60000 / bpms[0].bpm])
            used.add((p[1], round(p[0] + length, 3)))
            holds.append(BMSHold(p[0], p[1], length, sample=random.choice(names)))
    return hits, holds


def build(i):
    layout_name = random.choice(list(LAYOUTS))
    layout = LAYOUTS[layout_name]
    cols = sorted(v for v in layout.values() if isinstance(v, int))
    m = BMSMap()
    n_bpm = random.choice([1, 1, 2, 3, 5, 9, 37, 40])
    pool = random.choice([[120, 150, 180], [137.5, 99.999, 200.25], [60, 240.0, 175], [1e-3 + 90, 333]])
    bpms, end = make_bpms(n_bpm, pool, [1, 1, 2, 3], metronomes=(i % 7 == 3))
    m.bpms = BMSBpmList(bpms)

    kind = i % 6
    samples = {}
    if kind in (1, 2, 4):
        for j in range(random.randrange(1, 6)):
            key = bytes("%02d" % (j + 1), "ascii") if kind != 2 else "%02d" % (j + 1)
            val = b"snd%d.wav" % j if kind != 4 else "音%d.ogg" % j
            samples[key] = val
    if kind == 4:
        samples[b"ZZ"] = b"tail.wav"  # a sample keyed by the #LNOBJ id
    m.samples = samples

    n_hits = random.choice([0, 1, 5, 20])
    n_holds = random.choice([0, 0, 1, 4, 10])
    hits, holds = make_notes(bpms, end, cols, n_hits, n_holds, samples)
    m.hits = BMSHitList(hits)
    m.holds = BMSHoldList(holds)

    m.title = random.choice(TEXTS if i % 11 else BAD_TEXTS)
    m.artist = random.choice(TEXTS if i % 13 else BAD_TEXTS)
    m.version = VERSIONS[i % len(VERSIONS)] if i % 3 == 0 else random.choice(VERSIONS[:5])
    m.ln_end_channel = random.choice([b"ZZ", b"ZZ", b"", b"AA", "ZZ", "zy", b"01"])
    misc_kind = i % 5
    if misc_kind == 1:
        m.misc = {b"GENRE": b"Intelligence", b"PLAYER": b"1", b"TOTAL": b"300"}
    elif misc_kind == 2:
        m.misc = {"GENRE": "ジャンル", b"RANK": "2", "STAGEFILE": b"bg.png"}
    elif misc_kind == 3:
        m.misc = {b"SUBTITLE": "夏".encode("shift_jis"), "EMPTY": "", b"": b"nokey"}
    elif misc_kind == 4 and i % 4 == 0:
        m.misc = {b"TOTAL": 300}  # not text: TypeError
    return layout_name, layout, m


def run_case(tag, layout_name, layout, m, tmpdir, **kw):
    emit("CASE", tag, layout_name, sorted(kw.items()))
    attempt("header", m._write_file_header)
    attempt("lnobj", m._ln_end_channel)
    attempt("write", lambda: m.write(note_channel_config=layout, **kw))
    path = os.path.join(tmpdir, "case.bms")
    if os.path.exists(path):
        os.remove(path)
    attempt("write_file", lambda: m.write_file(path, note_channel_config=layout, **kw))
    if os.path.exists(path):
        with open(path, "rb") as f:
            emit("file", f.read().hex())
    else:
        emit("file", "ABSENT")
    dump_map(m)


def main():
    with tempfile.TemporaryDirectory() as tmpdir:
        for i in range(72):
            layout_name, layout, m = build(i)
            kw = {}
            if i % 9 == 4:
                kw["no_sample_default"] = random.choice([b"ZZ", b"0A", b"AA", b"zz"])
            run_case("gen%d" % i, layout_name, layout, m, tmpdir, **kw)

        # Edge cases ---------------------------------------------------------
        # the default, empty chart has no tempo point at all
        run_case("empty-map", "BME", BMSChannel.BME, BMSMap(), tmpdir)

        # header only (no notes): one tempo point, nothing else
        m = BMSMap()
        m.bpms = BMSBpmList([BMSBpm(0, 130)])
        run_case("bpm-only", "BMS", BMSChannel.BMS, m, tmpdir)

        # map read from a file without #LNOBJ (b""), with and without holds
        for holds in ([], [BMSHold(0, 1, 500)]):
            m = BMSMap()
            m.bpms = BMSBpmList([BMSBpm(0, 130)])
            m.ln_end_channel = b""
            m.holds = BMSHoldList(holds)
            m.hits = BMSHitList([BMSHit(1000, 0)])
            run_case("no-lnobj-%d" % len(holds), "BME", BMSChannel.BME, m, tmpdir)

        # number of tempo points around the id boundaries and the documented limit
        for n in (35, 36, 37, 1293, 1294, 1295, 1296):
            m = BMSMap()
            bpms, _ = make_bpms(n, [120, 121.5, 122.25], [1])
            m.bpms = BMSBpmList(bpms)
            m.hits = BMSHitList([BMSHit(10, 0)])
            m.title = "many %d" % n
            # the direct header call is the interesting one; writing 1000+ measures raises
            emit("CASE", "bpms-%d" % n)
            attempt("header", m._write_file_header)
            if n <= 37:
                attempt("write", lambda: m.write(BMSChannel.PMS))
            dump_map(m)

        # odd tempo values in the header
        for bpm in (120, 120.0, 0.5, 1e6, 1e-7, 123.4567891, float("inf")):
            m = BMSMap()
            m.bpms = BMSBpmList([BMSBpm(0, bpm)])
            emit("CASE", "bpmval", repr(bpm))
            attempt("header", m._write_file_header)

    text = "\n".join(OUT)
    print("DIGEST", hashlib.sha256(text.encode("utf-8", "backslashreplace")).hexdigest())
    if os.environ.get("C05_DUMP"):
        with open(os.environ["C05_DUMP"], "w", encoding="utf-8", errors="backslashreplace") as f:
            f.write(text)


main()
